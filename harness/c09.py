"""C09 - application loading.  The real MachineController.load_application runs
against a simulated SpiNNaker machine (flood-fill engine, signals, core
states; harness/simmachine.SimMachine subclassed here) in which a scripted set
of chips silently misses each fill.  Per case:

  (a) correspondence: the Lean controller model (RigModel/Model/C09.lean,
      `loadApplication`) run against the Lean machine specification must
      produce the same request/reply trace, outcome, exception payload, final
      core states and nn-id as the implementation;
  (b) the simulator is not trusted: every request of the implementation is
      replayed through the Lean machine specification (`step`); replies or
      final core states that differ are an infrastructure error;
  (c) property oracles, all Lean predicates evaluated on what the
      implementation did: `wellFormedFill` on the packets of every fill,
      `regionsOK` on every (targets, regions) pair, `resendOK` on every re-sent
      map, `postOkCore` / `postErrCore` on the machine's core states before and
      after the call together with the outcome / exception payload.
"""
import os
import shutil
import struct
import tempfile

from harness import simnet, simmachine
from harness.common import Infra

CLAIM = dict(
    text=("Machine-checked proof (Lean 4) about a code-shaped model of load_application / flood_fill_aplx running against "
          "a machine specification (per core state/app id/image; fill = FFS, FFCS*, FFD*, FFE; every chip takes part in a "
          "whole fill or, if in that fill's missed set, ignores it), for ALL application maps, images, buffer sizes, "
          "machines and ALL per-fill missed sets: every fill the controller sends is well formed (announced block count = "
          "blocks sent, numbered 0,1,2.., each block <= buffer, concatenation = image, one even id in 2..252 - for every "
          "buffer size that is a multiple of 4 up to 1024, not only the usual 256 -, FFCS between "
          "FFS and the first data packet and STRICTLY INCREASING - derived in Lean from C12's theorems for C12's model of "
          "compress_flood_fill_regions, fill_wellformed_c12); a well-formed fill loads exactly the selected cores of the chips "
          "that took part; under PreClean (no core waiting under this app id, no requested core waiting) a normal return "
          "means exactly the requested cores hold their binary under the app id, waiting or started as asked, and every "
          "other core is untouched, in both verification modes; SpiNNakerLoadingError names exactly the requested cores "
          "that are not loaded; at most n_tries + 1 attempts, each re-sending exactly the still-unloaded map; these hold "
          "with the region-compression contract as a hypothesis (CompressOK) and, with no such hypothesis, for the "
          "controller whose compress is C12's model (compress_contract_discharged, *_c12). Exactly one start signal is "
          "sent, as the last request, on a normal return with wait=False and no signal packet otherwise "
          "(start_signal_once; no hypothesis besides app id < 256). Without PreClean: a normal return is unsound IFF the "
          "Lean predicate staleMasks holds of the pre-state, the request and the violating cores (every violating core "
          "was itself waiting before the call, or - count mode - the stale waiters on other cores are as many as the "
          "violating cores that do not count themselves): load_sound_iff_preclean_needed; the error omits an unloaded "
          "core IFF staleHides (load_error_iff_preclean_needed); the two counterexamples are proved instances and are "
          "replayed on the code on every run (known findings), and a post-condition violation is filed under a known "
          "finding only when the Lean predicate holds on the case. send_signal (argument packing for every member of "
          "AppSignal, ValueError otherwise, KeyError impossible), count_cores_in_state (packing, reply decoding, sum "
          "over an iterable, ValueError after the valid prefix) and wait_for_cores_to_reach_state (returns the count of "
          "the first poll that reached the count or passed the deadline; terminates within timeout+1 polls under "
          "clock progress; never ends without timeout if the count is never reached) are modelled and proved "
          "(Props/C09Sig.lean) with the enumerations and signal-type tables regenerated from consts.py. "
          "Tied to the code by exact request/reply trace correspondence through the real SCPConnection against a "
          "simulated machine that is itself replayed through the Lean machine specification (load: with the "
          "implementation's region pairs AND with C12's compress model; signals/count/wait: scripted integer clock and "
          "machine evolution during the sleeps), and by the Lean oracles evaluated on the implementation's packets, "
          "requests and core states."),
    design="3/C09",
    note=("Proved about the model, validated against the code by correspondence: everything above. Only validated (per "
          "run, not proved): that the model equals the code (trace correspondence on generated cases); regionsOK on every "
          "pair the implementation produced (the proof is about C12's model of compress, whose output equals the "
          "implementation's in every fill compared). Packet loss inside a fill is abstracted to whole-fill misses per "
          "chip. Domain: image length and buffer multiples of 4, buffer <= 1024 (8-bit word count of a data block; generators "
          "use 4..1024 incl. sizes above 256; outside: a buffer that is not a multiple of 4 makes the last block's word "
          "count negative -> struct.error, a buffer > 1024 spills the word count into the block number), <= 255 blocks "
          "(8-bit field of the start packet: beyond "
          "it the fill is malformed - known finding ffs-block-count-overflow), requested chips exist (coordinates < 256 "
          "for the _c12 theorems), cores < 18, binaries target disjoint cores, each core listed once (for the count "
          "clause of staleMasks). wait_for_cores_to_reach_state: the iterable of states must be re-iterable (a generator "
          "is consumed by the first poll); time is an integer clock supplied by the environment; `while True` is modelled "
          "with fuel and an explicit out-of-fuel result. The machine specification models only the start signal and the "
          "count request; for the other signals only the packing is proved/compared. SCP transport reliability is C06. "
          "Validated by which stream: single calls, history steps and scale cases all go through the same oracles "
          "(wellFormedFill/isFillPkts, regionsOK, resendOK, postOkCore/postErrCore with staleMasks/staleHides, "
          "startOnceOK, trace/outcome/state equality with both controller models, simulator = machine specification); "
          "resendOnlyOK (a (re-)send goes only to requested cores that do not hold their binary at that moment) is "
          "evaluated on every fill whatever the pre-state - proved for the model without PreClean "
          "(resend_only_without_preclean) - so a core loaded by an earlier call (same binary, same app id, still "
          "waiting) that is re-sent or named by the error is resend-inexact / error-inexact, not a stale-waiter known "
          "finding (staleHides requires that the core did NOT hold its binary); generators: pre-mode already-loaded "
          "and the history twin 'grow' put such cores next to unloaded ones on chips that then miss fills; "
          "what the error SHOWS is verdict-bearing like what it carries: the cores parsed out of str(error) (every "
          "integer triple after 'Failed to load applications to cores'), out of repr(error) (the printed map) and out "
          "of error.args are judged by the same oracle postErrCore whenever they differ from error.app_map (key "
          "error-message-inexact; equal sets share the verdict of error.app_map); "
          "histories add: error payload unchanged after later calls (violation error-payload-changed), caller's map not "
          "modified and str(error) does not raise (mismatch only: the property does not speak about them), a call that "
          "does not return within the CPU limit (violation did-not-return: the model's loop terminates, "
          "attempts_bounded); an injected transport fault / missing file is only tagged (SCPError / IOError belong to "
          "other layers) - what is checked is that the following steps on the same objects pass all oracles. "
          "Checklist items judged not applicable: byte-string kinds (the binary is read from a file by the code "
          "itself); big ints for app_id / core / chip numbers (8-, 5- and 8-bit wire fields: domain app id < 256, cores "
          "< 18, coordinates < 256, so machines are at most 256 chips long and nothing is counted in 16 bits; "
          "the 8-bit counts are exercised: 256/257 blocks = known finding, > 126 fills = id wrap); one-shot iterators "
          "for cores (load_application takes len() of them) - they are used for the states of count_cores_in_state "
          "only; subclasses of rig classes other than the controller (the API takes plain dicts and sets); lazily "
          "consumed results (nothing lazy is returned); recursion depth (no recursion in scope except the 4-level "
          "region tree of C12); alternative struct layouts / offsets (`structs=` of the controller: the layout is data "
          "regenerated by the translator, varying it is C07/C13's configuration stream); SCP timeouts / window / "
          "retries of the connection (C06); the model receives n_tries capped at 40 (beyond the missed script every "
          "attempt reaches every chip). Left at the default everywhere: `structs`, `scp_port`, `boot_port`, "
          "`initial_context` of the controller constructor."),
    technique="Lean 4 theorems over controller model x machine specification + trace correspondence against a simulated machine + Lean spec oracles")

THEOREMS = ["nnid_range", "fill_wellformed", "fill_loads_exactly", "attempts_bounded",
            "load_sound", "load_error_exact", "resend_exact",
            "count_shortcut_counterexample", "readback_counterexample", "block_count_overflow_example",
            # region-compression contract discharged by C12 (no CompressOK hypothesis)
            "compress_contract_discharged", "compressC12_eq", "fill_wellformed_c12", "load_sound_c12",
            "load_error_exact_c12", "attempts_bounded_c12", "resend_exact_c12",
            # the start signal
            "start_signal_once", "start_signal_count", "start_once_oracle_holds",
            # send_signal / count_cores_in_state / wait_for_cores_to_reach_state (Props/C09Sig.lean)
            "signal_types_total", "signal_packing_exact", "start_signal_is_send_signal", "count_packing_exact",
            "count_cores_sum", "count_cores_invalid", "wait_returns_count", "wait_terminates_under_clock_progress",
            # the stale-waiter findings, sharply (Props/C09Stale.lean)
            "postOk_false_iff", "count_masks", "load_sound_iff_preclean_needed",
            "postErr_false_iff", "load_error_iff_preclean_needed",
            "namedInv_resendOnly", "resend_only_without_preclean"]
THEOREMS += ['gen_get_next_nn_id']   # translator tie: generated function bodies = model (Props/C09Gen.lean)

RULE = ("cases = (machine of 1-40 chips: rectangles at several origins incl. aligned 4x4/8x8 blocks, scattered chips up to "
        "coordinate 255; SCP data buffer reported by sver in {4,8,16,64,128,252,256,260,384,512,1024} (incl. machines with a "
        "buffer LARGER than the usual 256 bytes), version in sver as semantic-version string or legacy fixed point; 1-4 binaries, most "
        "of them with cores on the same chips (fixed cases: 2-4 binaries sharing a chip that misses every fill, both modes); "
        "binaries of 0 .. 5 buffers, lengths around multiples of the buffer and around multiples of 256; sdram_sys at the "
        "bottom / typical / top of SDRAM, several vcpu bases; call as map / (filename, targets) / through the controller "
        "context with use_count defaulted; fixed cases: two binaries of 2 buffers and 2 buffers + 1 word on machines with "
        "128/260/512/1024 byte buffers, both modes; core sets "
        "incl. whole blocks with one core, disjoint between binaries; app id, n_tries 0-3, wait on/off, count / read-back "
        "mode, starting nn-id incl. 125/126; per-fill missed sets none / random / all / alternating / all-then-none; "
        "pre-existing cores: none, other app ids, stale waiters of the same app id on requested and on other cores); "
        "non-trivial = some chip missed a fill and a re-send happened, or the call ended in SpiNNakerLoadingError, or a "
        "stale waiter was present; distinct = distinct canonical JSON of the case; plus signalling cases = (machine of "
        "1-10 chips with random core states; send_signal with every member of AppSignal by name / member / int and "
        "invalid names and numbers; count_cores_in_state with one state or a list / tuple / generator of 0-4 states incl. "
        "invalid ones; wait_for_cores_to_reach_state with target counts around the current count, timeout none or 0-8 "
        "ticks, clock scripts advancing by one / jumping / stalling, up to 5 evolution steps of the machine during the "
        "sleeps, fuel 4-9; arguments by name / enum member / int / bool, positionally / by keyword / app_id through the "
        "controller context; target counts up to 2**64), non-trivial = at least one sleep, a list of states, an error or "
        "a delivered signal; STREAMS: (1) single calls on a fresh machine and controller [all oracles]; every case also "
        "draws the argument kinds (cores as set / frozenset / list / tuple / dict keys / range, map as dict / OrderedDict / "
        "defaultdict, file names as str / pathlib.Path incl. names containing '%' and '{}', ints as int / numpy.int64, "
        "flags as bool / int, n_tries up to 2**100, parameters left at their documented default, app_start_delay 0 / 0.1 / "
        "0.5 / 1 with the sleep recorded, a user subclass of MachineController, sv.vcpu_base differing between chips, an "
        "empty map); (2) histories of 2-6 calls (one of 35 calls / > 130 fills, so the fill id wraps) on ONE machine "
        "through one or two controllers after a reload of the rig modules: each step judged as a single case with the "
        "actual pre-state and nn-id by all oracles; steps are the previous call again / a twin differing in one aspect "
        "(one core, one chip, one image under the same file name, wait, mode, app id, n_tries, argument kinds, calling "
        "convention, delay, flood_fill_aplx called directly) / another map; the caller edits in place the map objects it "
        "passed before, edits or keeps the map of every SpiNNakerLoadingError (kept ones are re-read after every later "
        "call), the transport dies at a scripted datagram or a file is missing and the same objects are used afterwards; "
        "(3) scale: 136 binaries in one map, machines 256x1 / 1x256 / 2x200 / 16x16; every implementation call under a CPU "
        "limit (20 s)")

# SCP data buffer sizes the machine reports through sver (scp_data_length): the usual 256, small ones, and
# machines with a LARGER buffer (every multiple of 4 up to 1024 is in the domain: the word count of a data
# block is an 8-bit field); 252 / 260 sit next to 256, the value SC&MP ships with
BUFS = [4, 8, 16, 64, 64, 128, 128, 252, 256, 256, 260, 384, 512, 512, 1024]
WAIT, RUN, IDLE = 5, 7, 15
KNOWN_KEYS = ("count-shortcut-stale-waiters", "readback-stale-waiter", "ffs-block-count-overflow")


# --------------------------------------------------------------------------
# simulated machine: flood-fill engine, signals, core states
# --------------------------------------------------------------------------
def sim_selects(region, x, y):
    """SC&MP's region match, bitwise (independent of the Lean arithmetic version)"""
    level = (region >> 16) & 3
    shift = 6 - 2 * level
    mask = 0xff & ~((4 << shift) - 1)
    if (((x & mask) << 24) | ((y & mask) << 16) | (level << 16)) != (region & 0xffff0000):
        return False
    bit = ((x >> shift) & 3) + 4 * ((y >> shift) & 3)
    return bool((region >> bit) & 1)


class LoadMachine(simmachine.SimMachine):
    def __init__(self, chips, buffer_size, sdram_sys, vcpu_base, missed, pre, consts, sver="semver", vcpu_bases=()):
        super(LoadMachine, self).__init__(1, 1, buffer_size=buffer_size, root=tuple(chips[0]))
        self.sver = sver
        # sv.vcpu_base is a per-chip system variable: chips listed here have their own
        self.vcpu_bases = {(x, y): b for x, y, b in vcpu_bases}
        self.k = consts
        self.chips = [tuple(c) for c in chips]
        self.sdram_sys, self.vcpu_base = sdram_sys, vcpu_base
        self.missed = [set(tuple(c) for c in m) for m in missed]
        self.cores = {}
        for x, y, p, st, app, im in pre:
            self.cores[(x, y, p)] = (st, app, tuple(im))
        self.rx = None
        self.fills = 0
        self.log = []            # (raw request dict, reply dict)
        self.snapshots = []      # core states at every start packet

    def core(self, x, y, p):
        return self.cores.get((x, y, p), (IDLE, 0, ()))

    def begin_call(self, missed):
        """a new call of the history on the same machine: its own missed script, log and snapshots"""
        self.missed = [set(tuple(c) for c in m) for m in missed]
        self.rx = None
        self.fills = 0
        self.log = []
        self.snapshots = []

    # SVER: buffer size in the low half of arg2; version either as a string after the name (0xffff) or,
    # as older SC&MP does, in decimal fixed point in the high half of arg2
    def cmd_0(self, req):
        rc, args, data = super(LoadMachine, self).cmd_0(req)
        if self.sver == "legacy":
            args = (args[0], (134 << 16) | self.buffer_size, args[2])
            data = b"SC&MP/SpiNNaker"
        return rc, args, data

    def handle(self, request):
        raw = simnet.parse_scp(request)
        n = len(self.requests)
        reply = super(LoadMachine, self).handle(request)
        if len(self.requests) == n + 1 and raw["cmd"] != 0:
            rc = int.from_bytes(reply[10:12], "little")
            body = reply[14:]
            rep = {"rc": "ok" if rc == 0x80 else "rc%d" % rc}
            if raw["cmd"] == 22 and raw["arg1"] == self.k["diagCountType"]:
                rep["arg1"] = int.from_bytes(body[:4], "little")
            elif raw["cmd"] == 2:
                rep["data"] = list(body)
            raw["data"] = list(raw["data"])
            del raw["seq"]
            self.log.append((raw, rep))
        return reply

    def peek(self, x, y, addr, n):
        out = bytearray()
        sv = self.k["svBase"]
        vcpu_base = self.vcpu_bases.get((x, y), self.vcpu_base)
        for a in range(addr, addr + n):
            if sv + self.k["offSdramSys"] <= a < sv + self.k["offSdramSys"] + 4:
                out.append((self.sdram_sys >> (8 * (a - sv - self.k["offSdramSys"]))) & 0xff)
            elif sv + self.k["offVcpuBase"] <= a < sv + self.k["offVcpuBase"] + 4:
                out.append((vcpu_base >> (8 * (a - sv - self.k["offVcpuBase"]))) & 0xff)
            elif a >= vcpu_base and (a - vcpu_base) % self.k["vcpuSize"] == self.k["offCpuState"]:
                out.append(self.core(x, y, (a - vcpu_base) // self.k["vcpuSize"])[0])
            else:
                out.append(simmachine.default_byte(x, y, a))
        return bytes(out)

    # nearest-neighbour packet: flood-fill start / core select / end
    def cmd_20(self, req):
        op = req["arg1"] >> 24
        if op == self.k["nnFfs"]:
            self.snapshots.append(dict(self.cores))
            self.rx = dict(idx=self.fills, pid=(req["arg1"] >> 16) & 0xff, n=(req["arg1"] >> 8) & 0xff,
                           got=0, next=0, regs=[], data=b"", ok=True)
            self.fills += 1
        elif op == self.k["nnFfcs"]:
            if self.rx is not None:
                self.rx["regs"].append((req["arg2"], req["arg1"] & 0x3ffff))
        elif op == self.k["nnFfe"]:
            rx = self.rx
            if rx is not None:
                pid, app, flags = req["arg1"] & 0xff, req["arg2"] >> 24, (req["arg2"] >> 18) & 0x3f
                if pid == rx["pid"] and rx["ok"] and rx["got"] == rx["n"]:
                    missed = self.missed[rx["idx"]] if rx["idx"] < len(self.missed) else set()
                    st = WAIT if flags & 1 else RUN
                    for (x, y) in self.chips:
                        if (x, y) in missed:
                            continue
                        for p in range(18):
                            if any(sim_selects(r, x, y) and (m >> p) & 1 for r, m in rx["regs"]):
                                self.cores[(x, y, p)] = (st, app, tuple(rx["data"]))
                rx["ok"] = False
        else:
            return simmachine.RC_ARG, (), b""
        return simmachine.OK, (), b""

    # flood-fill data
    def cmd_23(self, req):
        rx = self.rx
        if rx is None:
            return simmachine.OK, (), b""
        pid, block, words = req["arg1"] & 0xff, (req["arg2"] >> 16) & 0xff, (req["arg2"] >> 8) & 0xff
        data = bytes(req["data"])
        if (pid == rx["pid"] and block == rx["got"] and len(data) == 4 * (words + 1)
                and (rx["got"] == 0 or req["arg3"] == rx["next"])):
            rx["got"] += 1
            rx["next"] = req["arg3"] + len(data)
            rx["data"] += data
        else:
            rx["ok"] = False
        return simmachine.OK, (), b""

    # signal: count cores in a state / start
    def cmd_22(self, req):
        a1, a2 = req["arg1"], req["arg2"]
        if a1 == self.k["diagCountType"] and (a2 >> 20) & 3 == self.k["diagCount"] and (a2 >> 22) & 3 == 1:
            state, mask, app = (a2 >> 16) & 0xf, (a2 >> 8) & 0xff, a2 & 0xff
            if mask != 0xff:
                return simmachine.RC_ARG, (), b""
            n = sum(1 for (x, y) in self.chips for p in range(18)
                    if self.core(x, y, p)[0] == state and self.core(x, y, p)[1] == app)
            return simmachine.OK, (n,), b""
        if a1 == self.k["sigStartType"]:
            sig, mask, app = (a2 >> 16) & 0xff, (a2 >> 8) & 0xff, a2 & 0xff
            if sig != self.k["sigStart"] or mask != 0xff:
                return simmachine.RC_ARG, (), b""
            for (x, y) in self.chips:
                for p in range(18):
                    st, ap, im = self.core(x, y, p)
                    if st == WAIT and ap == app:
                        self.cores[(x, y, p)] = (RUN, ap, im)
            return simmachine.OK, (), b""
        return simmachine.RC_ARG, (), b""

    def cores_list(self, cores=None):
        cores = self.cores if cores is None else cores
        out = []
        for (x, y) in self.chips:
            for p in range(18):
                st, ap, im = cores.get((x, y, p), (IDLE, 0, ()))
                if (st, ap, im) != (IDLE, 0, ()):
                    out.append([x, y, p, st, ap, list(im)])
        return out


def load_consts():
    """the generated constants (read back from the file the translator wrote from the source)"""
    from harness import common
    k = {}
    for line in open(os.path.join(common.GEN, "Load.lean")):
        if line.startswith("def "):
            name, val = line[4:].split(" : Nat := ")
            k[name] = int(val)
    return k


# --------------------------------------------------------------------------
# generators
# --------------------------------------------------------------------------
def gen_chips(rng):
    kind = rng.choice(["rect", "rect", "rect", "block", "far", "scatter", "single"])
    if kind == "single":
        x, y = rng.choice([(0, 0), (3, 7), (255, 255), (16, 4)])
        return [[x, y]]
    if kind == "rect":
        ox, oy = rng.choice([(0, 0), (0, 0), (2, 1), (4, 4), (12, 12), (60, 62), (250, 0)])
        w, h = rng.randrange(1, 7), rng.randrange(1, 7)
        return [[ox + i, oy + j] for i in range(w) for j in range(h)][:40]
    if kind == "block":
        ox, oy = rng.choice([(0, 0), (4, 8), (16, 16), (64, 0)])
        w, h = rng.choice([(4, 4), (8, 4), (4, 8), (5, 4)])
        return [[ox + i, oy + j] for i in range(w) for j in range(h)][:40]
    if kind == "far":
        base = rng.choice([(0, 0), (16, 0), (64, 64), (128, 192)])
        return [[base[0] + rng.choice([0, 1, 3, 4, 15, 16, 17, 63]), base[1] + rng.choice([0, 2, 3, 4, 5, 16, 63])]
                for _ in range(rng.randrange(2, 9))]
    return [[rng.randrange(256), rng.randrange(256)] for _ in range(rng.randrange(2, 12))]


def dedup(chips):
    seen, out = set(), []
    for c in chips:
        if tuple(c) not in seen:
            seen.add(tuple(c))
            out.append(c)
    return out


def gen_image(rng, buf, big):
    """binaries of 0 .. several buffers, lengths around multiples of the buffer size AND around multiples of
    256 (the size a data block would have on the usual machine), whole words"""
    k = rng.choice([1, 1, 2, 2, 3, 5] if buf < 384 else [1, 1, 2, 2, 3])
    ln = k * buf + rng.choice([-8, -4, 0, 0, 0, 4, 8])
    if buf > 256 and rng.random() < 0.3:
        ln = rng.choice([1, 2, 3, 5]) * 256 + rng.choice([-4, 0, 4])
    if big:
        ln = rng.choice([255, 255, 256, 257, 300]) * buf + rng.choice([-4, 0, 0, 4])
    ln = max(4, ln // 4 * 4)
    if not big and rng.random() < 0.04:
        ln = 0                      # an empty binary: start packet announcing 0 blocks, no data, end packet
    return [rng.randrange(256) for _ in range(ln)]


VCPU_BASES = [0xe5007000, 0xe5007000, 0xe5008000, 0xe5000000, 0xf5007000]


def gen_kinds(rng):
    """in which legal kind the caller passes each argument"""
    return {"cores": rng.choice(["set", "set", "set", "frozenset", "list", "tuple", "keys", "range"]),
            "map": rng.choice(["dict", "dict", "ordered", "default"]),
            "path": rng.choice(["str", "str", "pathlib"]), "names": rng.choice([0, 0, 1, 2]),
            "flags": rng.choice(["bool", "bool", "int"]), "ints": rng.choice(["int", "int", "int", "int", "numpy"])}


def gen_case(rng, overflow=False, chips=None, buf=None, n_apps=None):
    chips = dedup(gen_chips(rng)) if chips is None else chips
    buf = (4 if overflow else rng.choice(BUFS)) if buf is None else buf
    if n_apps is None:
        n_apps = rng.choice([1, 1, 2, 2, 3, 3, 4]) if overflow or rng.random() > 0.02 else 0
    app_id = rng.choice([16, 30, 66, 255, rng.randrange(1, 256)])
    used = set()
    apps = []
    for i in range(n_apps):
        big = overflow and i == 0
        image = gen_image(rng, buf, big or (buf == 4 and rng.random() < 0.04))
        style = rng.choice(["some", "some", "all-one-core", "few", "dense"])
        targets = []
        cs_all = sorted(rng.sample(range(18), rng.randrange(1, 5)))
        for (x, y) in chips:
            if style == "all-one-core":
                cs = list(cs_all)
            elif style == "few":
                cs = sorted(rng.sample(range(18), rng.randrange(1, 3))) if rng.random() < 0.25 else []
            elif style == "dense":
                cs = sorted(rng.sample(range(18), rng.randrange(8, 18)))
            else:
                cs = sorted(rng.sample(range(18), rng.randrange(0, 5))) if rng.random() < 0.7 else []
            cs = [p for p in cs if (x, y, p) not in used]
            if cs or rng.random() < 0.02:
                targets.append([x, y, cs])
                used.update((x, y, p) for p in cs)
        if not targets and rng.random() < 0.9:
            x, y = rng.choice(chips)
            free = [p for p in range(18) if (x, y, p) not in used]
            if free:
                targets.append([x, y, [free[0]]])
                used.add((x, y, free[0]))
        rng.shuffle(targets)
        apps.append({"name": i, "image": image, "targets": targets})
    n_tries = rng.choice([0, 1, 2, 2, 3])
    max_fills = (n_tries + 1) * n_apps
    if rng.random() < 0.03 and all(len(a["image"]) <= 255 * buf for a in apps):
        # an unbounded quantity far beyond the usual: the loop ends when everything is loaded (beyond the missed
        # script no chip misses a fill)
        n_tries = rng.choice([2 ** 31, 2 ** 32 + 1, 2 ** 64, 2 ** 100])
    mode = rng.choice(["none", "random", "random", "random", "all", "alternating", "all-then-none", "one-chip"])
    missed = []
    stubborn = rng.choice(chips)
    for k in range(max_fills):
        attempt = k // n_apps
        if mode == "none":
            m = []
        elif mode == "random":
            pm = rng.choice([0.1, 0.3, 0.6])
            m = [c for c in chips if rng.random() < pm]
        elif mode == "all":
            m = list(chips)
        elif mode == "alternating":
            m = list(chips) if k % 2 == 0 else []
        elif mode == "all-then-none":
            m = list(chips) if attempt == 0 else []
        else:
            m = [stubborn]
        missed.append(m)
    if mode == "random" and rng.random() < 0.5:
        # per attempt: the same chips miss every fill of one attempt
        for k in range(max_fills):
            missed[k] = missed[k - k % n_apps]
    # pre-existing cores
    pre = {}
    pre_mode = rng.choice(["none", "none", "none", "other-app", "stale-other-core", "stale-requested", "mixed",
                           "stale-vs-missed", "stale-vs-missed", "already-loaded", "already-loaded"])
    all_cores = [(x, y, p) for (x, y) in chips for p in range(18)]
    requested = sorted(used)

    def put(core, st, app):
        pre[core] = [core[0], core[1], core[2], st, app, [rng.randrange(256) for _ in range(4)]]
    if pre_mode in ("other-app", "mixed"):
        other = app_id % 255 + 1
        for core in rng.sample(all_cores, min(len(all_cores), rng.randrange(1, 6))):
            st = rng.choice([RUN, RUN, 0, 2, 10, 11, 8, WAIT])
            if st == WAIT and core in used:
                st = RUN
            put(core, st, other)
        for core in rng.sample(all_cores, min(len(all_cores), rng.randrange(0, 3))):
            put(core, rng.choice([RUN, 11, 2]), app_id)        # same app id, but not waiting
    if pre_mode in ("stale-other-core", "mixed"):
        free = [c for c in all_cores if c not in used]
        for core in rng.sample(free, min(len(free), rng.randrange(1, 4))):
            put(core, WAIT, app_id)
    force_count = None
    if pre_mode == "stale-vs-missed":
        # one chip misses every fill; k stale waiters under the app id on cores that were NOT requested, with k
        # below / equal to / above the number m of requested cores of that chip: the count shortcut is fooled
        # only for k == m (known finding); for every other k the call must retry and end in the error
        with_req = [c for c in chips if any((c[0], c[1], p) in used for p in range(18))]
        lost = rng.choice(with_req) if with_req else stubborn
        m = sum(1 for p in range(18) if (lost[0], lost[1], p) in used)
        k = max(1, rng.choice([m - 2, m - 1, m, m, m + 1, m + 2, m + 3, 2 * m + 1]))
        free = [c for c in all_cores if c not in used]
        if rng.random() < 0.5:
            free = [c for c in free if (c[0], c[1]) != tuple(lost)] or free
        for core in rng.sample(free, min(len(free), k)):
            put(core, WAIT, app_id)
        missed = [[lost] for _ in range(max_fills)]
        mode = "one-chip"
        force_count = rng.random() < 0.8
    if pre_mode == "already-loaded":
        # some requested cores already hold THEIR binary under THIS app id and wait (an earlier load of the same
        # map), next to cores of the same chip that do not; chips of such cores then miss fills: the loaded cores
        # must not be sent the binary again nor be named by the error
        partly = []
        for a in apps:
            if len(a["image"]) > 300:
                continue
            for x, y, cs in a["targets"]:
                if len(cs) >= 2 and len(partly) < 3 and rng.random() < 0.7:
                    n_loaded = rng.randrange(1, len(cs))
                    loaded_cs = cs[-n_loaded:] if rng.random() < 0.6 else rng.sample(cs, n_loaded)
                    for p in loaded_cs:
                        pre[(x, y, p)] = [x, y, p, WAIT, app_id, list(a["image"])]
                    partly.append([x, y])
        if partly and rng.random() < 0.8:
            style = rng.choice(["every", "first", "some"])
            missed = [[c for c in partly if style == "every" or (style == "first" and i < n_apps) or rng.random() < 0.5]
                      for i in range(max_fills)]
            mode = "loaded-chips-" + style
    if pre_mode in ("stale-requested", "mixed") and requested:
        for core in rng.sample(requested, min(len(requested), rng.randrange(1, 3))):
            put(core, WAIT, rng.choice([app_id, app_id, app_id % 255 + 1]))
    sdram_sys = rng.choice([0x60000000 + 4 * rng.randrange(1 << 16), 0x60000000 + 4 * rng.randrange(1 << 16),
                            0x60000000, 0x60240000, 0x67ff0000 + 4 * rng.randrange(1 << 10)])
    vcpu_base = rng.choice(VCPU_BASES) + 128 * rng.randrange(4)
    # sv.vcpu_base is a system variable of each chip: on some machines it differs between the chips
    vcpu_bases = []
    if rng.random() < 0.4:
        vcpu_bases = [[c[0], c[1], rng.choice(VCPU_BASES) + 128 * rng.randrange(6)] for c in chips if rng.random() < 0.5]
    return {"chips": chips, "buf": buf, "sdram_sys": sdram_sys,
            "vcpu_base": vcpu_base, "vcpu_bases": vcpu_bases, "apps": apps, "app_id": app_id,
            "kinds": gen_kinds(rng), "defaults": rng.random() < 0.25,
            "delay": rng.choice([0.0, 0.0, 0.1, 0.5, 1]), "subclass": rng.random() < 0.1,
            # how the machine encodes its version in sver (semantic version string / legacy fixed point) and how
            # the caller passes the arguments (map / (filename, targets) / through the controller's context)
            "sver": rng.choice(["semver", "semver", "legacy"]),
            "call": rng.choice(["dict", "dict", "pair", "context"]) if n_apps == 1 else rng.choice(["dict", "dict", "context"]),
            "n_tries": n_tries, "wait": rng.random() < 0.5,
            "use_count": (rng.random() < 0.6) if force_count is None else force_count,
            "nn": rng.choice([0, 0, 1, 57, 124, 125, 126]), "missed": missed,
            "pre": [pre[k] for k in sorted(pre)], "missed_mode": mode, "pre_mode": pre_mode}


def stale_count_case():
    """count-shortcut-stale-waiters: one stale waiter, one chip misses every fill"""
    return {"chips": [[0, 0], [1, 0]], "buf": 16, "sdram_sys": 0x60000000, "vcpu_base": 0xe5007000,
            "apps": [{"name": 0, "image": list(range(16)), "targets": [[0, 0, [1]], [1, 0, [1]]]}],
            "app_id": 30, "n_tries": 2, "wait": True, "use_count": True, "nn": 0,
            "missed": [[[1, 0]], [[1, 0]], [[1, 0]]], "pre": [[0, 0, 5, WAIT, 30, [9, 9, 9, 9]]],
            "missed_mode": "finding", "pre_mode": "finding"}


def stale_more_case(k_stale):
    """count mode, chip (1, 0) with 2 requested cores misses every fill, k stale waiters on other cores:
    only k == 2 fools the count (known finding); for any other k the call must end in the error naming
    exactly the two cores of (1, 0) - a `>=` / `<=` in the count comparison returns normally instead"""
    return {"chips": [[0, 0], [1, 0]], "buf": 16, "sdram_sys": 0x60000000, "vcpu_base": 0xe5007000,
            "apps": [{"name": 0, "image": list(range(16)), "targets": [[0, 0, [1]], [1, 0, [1, 2]]]}],
            "app_id": 30, "n_tries": 1, "wait": True, "use_count": True, "nn": 0,
            "missed": [[[1, 0]], [[1, 0]]],
            "pre": [[0, 0, 5 + i, WAIT, 30, [9, 9, 9, 9]] for i in range(k_stale)],
            "missed_mode": "one-chip", "pre_mode": "stale-vs-missed"}


def big_buffer_case(buf, use_count):
    """a machine whose SCP data buffer is not the usual 256 bytes: binaries of exactly two buffers and two
    buffers + one word, chip (1, 0) misses both fills of the first attempt; every fill must announce exactly
    the blocks it sends (blocks of up to `buf` bytes) and the call must return with every core loaded"""
    return {"chips": [[0, 0], [1, 0], [5, 4]], "buf": buf, "sdram_sys": 0x60700000, "vcpu_base": 0xe5007000,
            "apps": [{"name": 0, "image": [i % 251 for i in range(2 * buf)], "targets": [[0, 0, [1, 2]], [1, 0, [3]]]},
                     {"name": 1, "image": [(3 * i) % 241 for i in range(2 * buf + 4)],
                      "targets": [[0, 0, [5]], [5, 4, [1, 17]]]}],
            "app_id": 30, "n_tries": 2, "wait": False, "use_count": use_count, "nn": 0,
            "missed": [[[1, 0]], [[1, 0]]], "pre": [], "missed_mode": "all-then-none", "pre_mode": "none",
            "sver": "legacy" if buf == 512 else "semver", "call": "dict"}


def shared_chip_error_case(use_count, n_apps):
    """several binaries with cores on the SAME chips; chip (1, 0) misses every fill: the error must name the
    cores of every binary on that chip (in its map and in what it prints)"""
    return {"chips": [[0, 0], [1, 0], [2, 0]], "buf": 16, "sdram_sys": 0x60000000, "vcpu_base": 0xe5007000,
            "apps": [{"name": i, "image": [(7 * i + j) % 256 for j in range(16 + 4 * i)],
                      "targets": [[0, 0, [1 + 3 * i]], [1, 0, [1 + 3 * i, 2 + 3 * i]], [2, 0, [3 + 3 * i]]][:3 - i % 2]}
                     for i in range(n_apps)],
            "app_id": 30, "n_tries": 1, "wait": True, "use_count": use_count, "nn": 0,
            "missed": [[[1, 0]]] * (2 * n_apps), "pre": [], "missed_mode": "one-chip", "pre_mode": "none"}


def stale_readback_case():
    """readback-stale-waiter: the requested core already waits with another binary and its chip misses"""
    return {"chips": [[0, 0]], "buf": 16, "sdram_sys": 0x60000000, "vcpu_base": 0xe5007000,
            "apps": [{"name": 0, "image": list(range(16)), "targets": [[0, 0, [1]]]}],
            "app_id": 30, "n_tries": 2, "wait": True, "use_count": False, "nn": 0,
            "missed": [[[0, 0]], [[0, 0]], [[0, 0]]], "pre": [[0, 0, 1, WAIT, 30, [9, 9, 9, 9]]],
            "missed_mode": "finding", "pre_mode": "finding"}


def overflow_case():
    """ffs-block-count-overflow: 256 blocks of 4 bytes"""
    return {"chips": [[0, 0]], "buf": 4, "sdram_sys": 0x60000000, "vcpu_base": 0xe5007000,
            "apps": [{"name": 0, "image": [i % 251 for i in range(1024)], "targets": [[0, 0, [1]]]}],
            "app_id": 30, "n_tries": 1, "wait": True, "use_count": True, "nn": 0,
            "missed": [], "pre": [], "missed_mode": "finding", "pre_mode": "finding"}


# --------------------------------------------------------------------------
# running the implementation
# --------------------------------------------------------------------------
_TMP = [None]


def tmpdir():
    if _TMP[0] is None:
        _TMP[0] = tempfile.mkdtemp(prefix="c09-")
    return _TMP[0]


def canon_targets(t):
    return [[int(x), int(y), sorted(int(c) for c in cs)] for (x, y), cs in t.items()]


FILE_NAMES = ["app%d.aplx", "a %d%%s {} {0}.aplx", "%d%%d{x}.aplx"]
_LIMIT = {"hangs": 0}


class SleepRecorder(object):
    """stands in for the module `time` inside machine_controller during load_application: the pause after every
    attempt (`app_start_delay`) is recorded instead of slept"""

    def __init__(self):
        import time
        self.real = time
        self.sleeps = []

    def time(self):
        return self.real.time()

    def sleep(self, d):
        self.sleeps.append(d)


def as_cores(cs, kind, np_ints):
    """the cores of one chip in one of the collection kinds a caller may legally pass (sized, re-iterable)"""
    if np_ints:
        import numpy
        cs = [numpy.int64(p) for p in cs]
    if kind == "frozenset":
        return frozenset(cs)
    if kind == "list":
        return list(cs)
    if kind == "tuple":
        return tuple(cs)
    if kind == "keys":
        return dict.fromkeys(cs).keys()
    if kind == "range" and cs and not np_ints and list(cs) == list(range(cs[0], cs[0] + len(cs))):
        return range(cs[0], cs[0] + len(cs))
    return set(cs)


def canon_map(m):
    return sorted((str(p), sorted((int(x), int(y), sorted(int(c) for c in cs)) for (x, y), cs in t.items()))
                  for p, t in m.items())


class Session(object):
    """One simulated machine, one or two real controllers talking to it, in this process: every call of a
    history goes through the same objects (controller caches, nn-id, SCP sequence numbers, the maps the caller
    passed and was handed back)."""

    def __init__(self, cfg, k):
        self.cfg, self.k = cfg, k

    def __enter__(self):
        import contextlib
        import importlib
        cfg = self.cfg
        if cfg.get("reload"):
            # a history starts from freshly executed modules, so that a replay reproduces whatever module- or
            # class-level state the calls before it may have left
            import rig.machine_control.regions
            import rig.machine_control.machine_controller
            importlib.reload(rig.machine_control.regions)
            importlib.reload(rig.machine_control.machine_controller)
        from rig.machine_control import machine_controller as mcm
        from rig.machine_control import regions as rg
        self.mcm, self.rg = mcm, rg
        self.machine = LoadMachine(cfg["chips"], cfg["buf"], cfg["sdram_sys"], cfg["vcpu_base"], [], cfg["pre"],
                                   self.k, sver=cfg.get("sver", "semver"), vcpu_bases=cfg.get("vcpu_bases", ()))
        self.fault_at = None
        self.net = simnet.Net(self.machine.handle,
                              lambda i, d: [] if self.fault_at is not None and i >= self.fault_at else None)
        self.paths, self.records, self.opened = {}, [], []
        self.real_compress = rg.compress_flood_fill_regions

        def compress(targets):
            out = list(self.real_compress(targets))
            self.records.append([canon_targets(targets), [[int(r), int(m)] for r, m in out]])
            return out

        def rec_open(path, *a, **kw):
            if path in self.paths:
                self.opened.append(self.paths[path])
            return open(path, *a, **kw)
        rg.compress_flood_fill_regions = compress
        mcm.open = rec_open
        self.stack = contextlib.ExitStack()
        self.stack.enter_context(simnet.installed(self.net))
        self.ctls = {}
        self.last_map = None
        self.kept = []           # (exception, canonical payload when it was raised)
        self.dir = tempfile.mkdtemp(prefix="s", dir=tmpdir())
        return self

    def __exit__(self, *a):
        self.stack.close()
        self.rg.compress_flood_fill_regions = self.real_compress
        del self.mcm.open
        shutil.rmtree(self.dir, ignore_errors=True)
        return False

    def controller(self, j, nn):
        if j not in self.ctls:
            if self.cfg.get("subclass"):
                base = self.mcm.MachineController

                class Controller(base):      # a user's subclass of rig's controller
                    pass
                mc = Controller("sim", n_tries=5, timeout=4.0)
            else:
                mc = simmachine.make_controller(self.net, timeout=4.0)
            if nn is not None:
                mc._nn_id = nn
            self.ctls[j] = mc
        return self.ctls[j]

    def build_map(self, step):
        """the application map as the caller's objects (file names, path and collection kinds), reusing and
        editing in place the objects passed to the previous call when the step says so"""
        import collections
        import pathlib
        kinds = step.get("kinds", {})
        fmt = FILE_NAMES[kinds.get("names", 0)]
        np_ints = kinds.get("ints") == "numpy"
        self.paths.clear()
        by_name = {}
        for a in step["apps"]:
            p = os.path.join(self.dir, fmt % a["name"])
            if not (step.get("missing_file") and a["name"] == step["apps"][0]["name"]):
                with open(p, "wb") as f:
                    f.write(bytes(a["image"]))
            elif os.path.exists(p):
                os.remove(p)
            if kinds.get("path") == "pathlib":
                p = pathlib.Path(p)
            self.paths[p] = a["name"]
            by_name[a["name"]] = p

        def chip(x, y):
            if np_ints:
                import numpy
                return (numpy.int64(x), numpy.int64(y))
            return (x, y)
        wanted = {by_name[a["name"]]: {chip(x, y): as_cores(cs, kinds.get("cores", "set"), np_ints)
                                      for x, y, cs in a["targets"]} for a in step["apps"]}
        if step.get("reuse") and self.last_map is not None:
            # (a) the caller edits the very objects it passed before and calls again
            m = self.last_map
            for p in list(m):
                if p not in wanted:
                    del m[p]
            for p, t in wanted.items():
                if p not in m:
                    m[p] = t
                    continue
                for c in list(m[p]):
                    if c not in t:
                        del m[p][c]
                for c, cs in t.items():
                    old = m[p].get(c)
                    if isinstance(old, set) and isinstance(cs, set):
                        old.intersection_update(cs)
                        old.update(cs)
                    elif isinstance(old, list) and isinstance(cs, list):
                        old[:] = cs
                    else:
                        m[p][c] = cs
                for c in t:                      # iteration order = the order of the edited map
                    m[p][c] = m[p].pop(c)
            for p in wanted:
                m[p] = m.pop(p)
            return m
        mk = kinds.get("map", "dict")
        if mk == "ordered":
            return collections.OrderedDict((p, collections.OrderedDict(t)) for p, t in wanted.items())
        if mk == "default":
            d = collections.defaultdict(dict)
            d.update(wanted)
            return d
        return wanted

    def call(self, step):
        import copy
        from rig.machine_control import scp_connection as sc
        from harness import common
        mcm, machine = self.mcm, self.machine
        machine.begin_call(step["missed"])
        del self.records[:]
        del self.opened[:]
        res = {"before": machine.cores_list()}
        mc = self.controller(step.get("ctl", 0), step.get("nn"))
        res["buf"] = mc.scp_data_length
        res["nn_before"] = mc._nn_id
        app_map = self.build_map(step)
        canon_before = canon_map(app_map)
        kw = dict(app_id=step["app_id"], n_tries=step["n_tries"], wait=step["wait"],
                  app_start_delay=step.get("delay", 0.0), use_count=step["use_count"])
        kinds = step.get("kinds", {})
        if kinds.get("flags") == "int":          # truthy / falsy ints where booleans are documented, bool where an int
            kw["wait"], kw["use_count"] = int(kw["wait"]), int(kw["use_count"])
            if kw["n_tries"] in (0, 1):
                kw["n_tries"] = bool(kw["n_tries"])
        if kinds.get("ints") == "numpy":
            import numpy
            kw["app_id"] = numpy.int64(kw["app_id"])
        if step.get("defaults"):                 # leave out what equals the documented default
            for name, default in (("n_tries", 2), ("wait", False), ("use_count", True), ("app_start_delay", 0.1)):
                if kw[name] == default:
                    del kw[name]
        if step.get("only_fill"):
            kw = dict(app_id=kw["app_id"], wait=step["wait"])
            if step.get("defaults") and step["wait"]:
                del kw["wait"]                   # flood_fill_aplx: wait defaults to True
        recorder = SleepRecorder()
        real_time = mcm.time
        mcm.time = recorder
        if step.get("fault") is not None:
            self.fault_at = self.net.n_sent + step["fault"]
        try:
            # the model terminates (attempts_bounded); a call takes well under a second: one that is still running
            # after 20 s of CPU time has not returned (5 s once that has happened 3 times)
            with common.cpu_limit(20 if _LIMIT["hangs"] < 3 else 5):
                try:
                    fn = mc.flood_fill_aplx if step.get("only_fill") else mc.load_application
                    call = step.get("call", "dict")
                    if call == "pair" and len(app_map) == 1:
                        (path, targets), = app_map.items()
                        fn(path, targets, **kw)
                    elif call == "context":
                        ctx_kw = {n: kw.pop(n) for n in ("app_id", "n_tries", "wait", "app_start_delay") if n in kw}
                        with mc(**ctx_kw):
                            fn(app_map, **kw)
                    else:
                        fn(app_map, **kw)
                    res["outcome"] = "ok"
                except mcm.SpiNNakerLoadingError as e:
                    res["outcome"] = {"loading_error": [
                        {"name": self.paths[p], "targets": [[int(x), int(y), sorted(int(c) for c in cs)]
                                                             for (x, y), cs in t.items()]}
                        for p, t in e.app_map.items()]}
                    try:
                        res["error_str"] = str(e)
                    except Exception as e2:      # the message of the documented error cannot be produced
                        res["error_str_exc"] = "%s %s" % (type(e2).__name__, e2)
                    # every other place where the error shows cores to the user: repr() and .args
                    try:
                        res["error_repr"] = repr(e)
                    except Exception as e2:
                        res["error_repr_exc"] = "%s %s" % (type(e2).__name__, e2)
                    res["error_args"] = [
                        sorted((int(x), int(y), int(c)) for t in a.values() for (x, y), cs in t.items() for c in cs)
                        for a in e.args if hasattr(a, "values") and all(hasattr(t, "items") for t in a.values())]
                    if step.get("after_error") == "edit":
                        # (b) the caller edits what it was handed back
                        for t in e.app_map.values():
                            for cs in t.values():
                                if isinstance(cs, set):
                                    cs.clear()
                            t.clear()
                    else:
                        # (c) the caller keeps it and looks at it again after later calls
                        self.kept.append((e, copy.deepcopy(res["outcome"])))
                except sc.SCPError as e:
                    res["outcome"] = {"error": "SCPError %r" % (e,)}
                except (ValueError, TypeError, KeyError, IndexError, OverflowError, AttributeError, struct.error,
                        IOError, RecursionError, MemoryError, AssertionError) as e:
                    res["outcome"] = {"error": "%s %s" % (type(e).__name__, e)}
        except common.ImplHang as e:
            _LIMIT["hangs"] += 1
            res["outcome"] = {"hang": str(e)}
        finally:
            mcm.time = real_time
            self.fault_at = None
        res["nn"] = mc._nn_id
        res["sleeps"] = recorder.sleeps
        res["args_mutated"] = canon_map(app_map) != canon_before
        self.last_map = app_map
        res["kept_changed"] = []
        for e, was in self.kept:
            now = {"loading_error": [{"name": None, "targets": [[int(x), int(y), sorted(int(c) for c in cs)]
                                                               for (x, y), cs in t.items()]}
                                     for p, t in e.app_map.items()]}
            if [a["targets"] for a in now["loading_error"]] != [a["targets"] for a in was["loading_error"]]:
                res["kept_changed"].append([was, now])
        res["trace"] = machine.log
        res["records"] = [list(r) for r in self.records]
        res["opened"] = list(self.opened)
        res["after"] = machine.cores_list()
        res["snapshots"] = [machine.cores_list(sn) for sn in machine.snapshots]
        return res


def run_impl(case, k):
    with Session(case, k) as s:
        return s.call(case)


# --------------------------------------------------------------------------
# comparison helpers
# --------------------------------------------------------------------------
def canon_trace(trace, k):
    """Sort the per-core (vcpu_base read, cpu_state read) pairs of one chip by address: the
    implementation walks Python sets of core numbers, whose order is not part of the property."""
    out, i = [], 0
    vb = k["svBase"] + k["offVcpuBase"]

    def is_pair(j):
        if j + 1 >= len(trace):
            return False
        a, b = trace[j][0], trace[j + 1][0]
        return (a["cmd"] == 2 and a["arg1"] == vb and b["cmd"] == 2 and b["arg2"] == 1
                and (a["x"], a["y"]) == (b["x"], b["y"]))
    while i < len(trace):
        if is_pair(i):
            chip = (trace[i][0]["x"], trace[i][0]["y"])
            run = []
            while is_pair(i) and (trace[i][0]["x"], trace[i][0]["y"]) == chip:
                run.append((trace[i], trace[i + 1]))
                i += 2
            run.sort(key=lambda pr: pr[1][0]["arg1"])
            for a, b in run:
                out += [a, b]
        else:
            out.append(trace[i])
            i += 1
    return out


def norm_entry(e):
    return [dict(e[0]), dict(e[1])]


def canon_outcome(o):
    if isinstance(o, dict) and "loading_error" in o:
        return {"loading_error": sorted(
            [[a["name"], sorted([x, y, sorted(cs)] for x, y, cs in a["targets"])] for a in o["loading_error"]])}
    return o


def split_fills(trace, k):
    """[(requests of one fill without the base-address reads)]"""
    fills, cur = [], None
    for req, _ in trace:
        if req["cmd"] == k["cmdNnp"] and req["arg1"] >> 24 == k["nnFfs"]:
            cur = [req]
            fills.append(cur)
        elif cur is not None and req["cmd"] in (k["cmdNnp"], k["cmdFfd"]):
            cur.append(req)
            if req["cmd"] == k["cmdNnp"] and req["arg1"] >> 24 == k["nnFfe"]:
                cur = None
        elif cur is not None and req["cmd"] == 2:
            continue
        else:
            cur = None
    return fills


def preclean(case):
    requested = {(x, y, p) for a in case["apps"] for x, y, cs in a["targets"] for p in cs}
    for x, y, p, st, app, _ in case["pre"]:
        if st == WAIT and (app == case["app_id"] or (x, y, p) in requested):
            return False
    return True


def in_domain(case):
    return all((len(a["image"]) + case["buf"] - 1) // case["buf"] <= 255 for a in case["apps"])


STEP_KEYS = ("apps", "app_id", "n_tries", "wait", "use_count", "missed", "call", "ctl", "nn", "kinds", "reuse",
             "defaults", "delay", "only_fill", "fault", "missing_file", "after_error", "missed_mode", "pre_mode", "twin")


def run_history(h, k):
    """[(payload for a replay, the step as a single case with the actual pre-state and nn-id, what happened)]"""
    units = []
    cfg = {key: v for key, v in h.items() if key not in ("history", "upto")}
    steps = h["history"][:h.get("upto", len(h["history"]) - 1) + 1]
    with Session(cfg, k) as s:
        for i, step in enumerate(steps):
            res = s.call(step)
            eff = dict(cfg, **step)
            eff["pre"], eff["nn"] = res["before"], res["nn_before"]
            eff.setdefault("missed_mode", "history")
            eff["pre_mode"] = "history" if i else eff.get("pre_mode", "history")
            eff["step"] = i
            units.append((dict(h, upto=i), eff, res))
    return units


def eval_cases(ctx, cases):
    k = load_consts()
    units = []
    for case in cases:
        if "history" in case:
            units += run_history(case, k)
        else:
            units.append((case, case, run_impl(case, k)))
    for i in range(0, len(units), 100):
        eval_units(ctx, units[i:i + 100], k)


_TRIPLE = None


def cores_in_message(text):
    """the cores `str(SpiNNakerLoadingError)` names: "Failed to load applications to cores (x, y, p), (x, y, p), ..."
    - every parenthesised triple of integers after the fixed prefix (file names are not part of the message)"""
    import re
    tail = text.split("cores", 1)[1] if "cores" in text else text
    return [(int(a), int(b), int(c)) for a, b, c in re.findall(r"\(\s*(-?\d+)\s*,\s*(-?\d+)\s*,\s*(-?\d+)\s*\)", tail)]


def cores_in_repr(text):
    """the cores `repr(SpiNNakerLoadingError)` shows: the map {file: {(x, y): {p, ...}}} as Python prints it
    (sets, frozensets, lists or tuples of ints or numpy ints)"""
    import re
    text = re.sub(r"np\.int64\((-?\d+)\)", r"\1", text)
    out = []
    for x, y, body in re.findall(r"\((\d+), (\d+)\): (?:frozenset\()?[\[({]([\d, ]*)[\])}]", text):
        out += [(int(x), int(y), int(p)) for p in re.findall(r"\d+", body)]
    return out


def named_as_unloaded(case, cores):
    """the cores some text names, as an `unloaded` map for the oracle postErrCore: each under the binary that
    requested it, cores nobody requested under a binary of their own"""
    by = {}
    for x, y, p in sorted(set(cores)):
        name = next((a["name"] for a in case["apps"] if any(
            (t[0], t[1]) == (x, y) and p in t[2] for t in a["targets"])), 10 ** 6)
        by.setdefault(name, {}).setdefault((x, y), []).append(p)
    return [{"name": n, "image": [], "targets": [[x, y, ps] for (x, y), ps in t.items()]} for n, t in by.items()]


def abnormal(case, res):
    """outcomes the model does not speak about: an injected transport fault / missing file, or no return"""
    o = res["outcome"]
    if isinstance(o, dict) and "hang" in o:
        return "hang"
    if isinstance(o, dict) and "error" in o:
        if case.get("fault") is not None and o["error"].startswith("SCPError"):
            return "fault"
        if case.get("missing_file") and o["error"].split()[0] in ("FileNotFoundError", "IOError", "OSError"):
            return "missing_file"
    return None


def eval_units(ctx, units, k):
    reqs, metas = [], []
    for payload, case, res in units:
        if res["buf"] != case["buf"]:
            raise Infra("simulated machine reported buffer %r, case says %r" % (res["buf"], case["buf"]))
        base = {"suite": "c09", "chips": case["chips"], "missed": case["missed"], "sdram_sys": case["sdram_sys"],
                "vcpu_base": case["vcpu_base"], "vcpu_bases": case.get("vcpu_bases", []), "cores": case["pre"]}
        apps_j = case["apps"]
        only_fill = bool(case.get("only_fill"))
        batch = []
        # a call that did not return, or returned after an absurd number of requests, is reported as such: its
        # trace is not replayed through the machine specification (tens of thousands of fills)
        huge = abnormal(case, res) == "hang" or len(res["trace"]) > 60000
        if not huge:
            batch.append(("machine", dict(base, op="machine", reqs=[r for r, _ in res["trace"]])))
        fills = split_fills(res["trace"], k)
        if abnormal(case, res) is None and not huge:
            # (the model gets n_tries capped at 40: beyond the missed script - at most 12 fills - every attempt
            # reaches every chip, so a run that needs more attempts differs from the implementation anyway)
            batch.append(("model", dict(base, op="load", compress=res["records"], buf=case["buf"], app_id=case["app_id"],
                                        n_tries=min(case["n_tries"], 40), wait=case["wait"], use_count=case["use_count"],
                                        apps=apps_j, nn=case["nn"], only_fill=only_fill)))
            # the controller of the `_c12` theorems: region compression by C12's model instead of the table
            batch.append(("model_c12", dict(base, op="load", buf=case["buf"], app_id=case["app_id"],
                                            n_tries=min(case["n_tries"], 40), wait=case["wait"], use_count=case["use_count"],
                                            apps=apps_j, nn=case["nn"], only_fill=only_fill)))
            for i, f in enumerate(fills):
                name = res["opened"][i] if i < len(res["opened"]) else None
                image = next((a["image"] for a in case["apps"] if a["name"] == name), [])
                batch.append(("wf", dict(suite="c09", op="wellformed", reqs=f, buf=case["buf"], image=image,
                                         app_id=case["app_id"],
                                         flags=k["flagWait"] if (case["wait"] or not only_fill) else 0)))
            for t, r in res["records"]:
                batch.append(("regions", dict(suite="c09", op="regions_ok", chips=case["chips"], targets=t, regions=r)))
            # every re-sent map = the still-unloaded part of the requested map (snapshot at its start packet)
            for i, (t, _) in enumerate(res["records"]):
                if not only_fill and i < len(res["opened"]) and i < len(res["snapshots"]):
                    app = next(a for a in case["apps"] if a["name"] == res["opened"][i])
                    first = i < len(res["opened"]) and res["opened"][:i].count(res["opened"][i]) == 0
                    batch.append(("resend", dict(suite="c09", op="resend_ok", chips=case["chips"], app=app, sent=t,
                                                 first=first, app_id=case["app_id"], cores=res["snapshots"][i])))
            normal = isinstance(res["outcome"], str) or "loading_error" in res["outcome"]
            missed_any = any(case["missed"][i] for i in range(min(len(fills), len(case["missed"]))))
            if normal and not (only_fill and missed_any):
                # flood_fill_aplx called directly promises the cores only when no chip missed the fill
                post = dict(suite="c09", op="post", chips=case["chips"], before=res["before"], after=res["after"],
                            apps=apps_j, app_id=case["app_id"], wait=case["wait"])
                if res["outcome"] != "ok":
                    post["unloaded"] = [dict(a, image=[]) for a in res["outcome"]["loading_error"]]
                batch.append(("post", post))
                if res["outcome"] != "ok":
                    # what the user is SHOWN must name exactly the cores that are not loaded too: the same oracle
                    # (postErrCore) on the cores named by str(error), by repr(error) and by error.args
                    for src, cores in (("str", cores_in_message(res["error_str"]) if "error_str" in res else None),
                                       ("repr", cores_in_repr(res["error_repr"]) if "error_repr" in res else None),
                                       ("args", [c for a in res.get("error_args", []) for c in a]
                                        if res.get("error_args") else None)):
                        in_map = {(x, y, p) for a in res["outcome"]["loading_error"] for x, y, ps in a["targets"] for p in ps}
                        # (a text naming the very set of error.app_map gets the verdict of error.app_map above)
                        if cores is not None and set(cores) != in_map:
                            batch.append(("post_" + src, dict(post, unloaded=named_as_unloaded(case, cores))))
            if normal:
                batch.append(("start_once", dict(suite="c09", op="start_once", app_id=case["app_id"],
                                                 started=(res["outcome"] == "ok" and not case["wait"] and not only_fill),
                                                 reqs=[r for r, _ in res["trace"]])))
        metas.append((payload, case, res, [b[0] for b in batch], len(fills)))
        reqs += [b[1] for b in batch]
    replies = ctx.lean(reqs)
    pos = 0
    judged = []
    for payload, case, res, kinds, n_fills in metas:
        rs = replies[pos:pos + len(kinds)]
        pos += len(kinds)
        judged.append((payload, case, res, kinds, rs, n_fills))
    # a post-condition violation is filed under a known stale-waiter finding only if the proved predicate
    # (staleMasks / staleHides, theorem load_sound_iff_preclean_needed) holds of the pre-state, the request and
    # the violating cores
    stale_reqs, stale_idx = [], {}
    for i, (payload, case, res, kinds, rs, n_fills) in enumerate(judged):
        for kind, r in zip(kinds, rs):
            if kind == "post" and "ok" in r and not r["ok"]:
                stale_idx[i] = len(stale_reqs)
                stale_reqs.append(dict(suite="c09", op="stale", chips=case["chips"], before=res["before"],
                                       apps=case["apps"], app_id=case["app_id"], wait=case["wait"],
                                       use_count=case["use_count"], missed=r["bad"]))
    stale = ctx.lean(stale_reqs) if stale_reqs else []
    for i, (payload, case, res, kinds, rs, n_fills) in enumerate(judged):
        judge(ctx, case, res, kinds, rs, n_fills, k, stale[stale_idx[i]] if i in stale_idx else None, payload)


def judge(ctx, case, res, kinds, rs, n_fills, k, stale=None, payload=None):
    payload = case if payload is None else payload
    for r in list(rs) + ([stale] if stale else []):
        if "proto_error" in r:
            raise Infra("lean driver: %s" % r["proto_error"])
    clean = preclean(case)
    dom = in_domain(case)
    outcome = res["outcome"]
    n_attempts = len(set(i // max(1, len(case["apps"])) for i in range(n_fills)))
    resent = len(res["opened"]) > len(set(res["opened"]))
    missed_any = any(case["missed"][i] for i in range(min(n_fills, len(case["missed"]))))
    nontrivial = (missed_any and resent) or outcome != "ok" or not clean
    ctx.case(case, nontrivial)    # counted: the step as a single case (actual pre-state and nn-id)
    ctx.traces += 1
    ctx.tag("missed_" + case["missed_mode"], "pre_" + case["pre_mode"],
            "mode_" + ("count" if case["use_count"] else "readback"),
            "wait" if case["wait"] else "start",
            "outcome_" + ("ok" if outcome == "ok" else "loading_error" if "loading_error" in outcome else "other_error"),
            "preclean" if clean else "not_preclean", "resent" if resent else "single_attempt")
    ctx.tag("buf_%s" % ("le_64" if case["buf"] <= 64 else "128_252" if case["buf"] < 256 else "256" if case["buf"] == 256
                        else "gt_256"),
            "sver_" + case.get("sver", "semver"), "call_" + case.get("call", "dict"))
    if any(len(a["image"]) == 0 for a in case["apps"]):
        ctx.tag("empty_binary")
    if any(len(a["image"]) > case["buf"] for a in case["apps"]):
        ctx.tag("multi_block")
    if not dom:
        ctx.tag("over_255_blocks")
    kinds_ = case.get("kinds", {})
    ctx.tag("cores_as_" + kinds_.get("cores", "set"), "map_as_" + kinds_.get("map", "dict"),
            "ints_" + kinds_.get("ints", "int"), "path_" + kinds_.get("path", "str"),
            "file_names_%d" % kinds_.get("names", 0), "flags_as_" + kinds_.get("flags", "bool"))
    if case.get("vcpu_bases"):
        ctx.tag("vcpu_base_differs_between_chips")
    if case.get("delay", 0.0):
        ctx.tag("start_delay_nonzero", "start_delay_slept_each_attempt" if res["sleeps"] and all(
            d == case["delay"] for d in res["sleeps"]) else "start_delay_other_sleeps")
    for flag in ("defaults", "only_fill", "reuse", "subclass", "reload"):
        if case.get(flag):
            ctx.tag("opt_" + flag)
    if "step" in case:
        ctx.tag("history_step", "history_step_%s" % min(case["step"], 3), "history_ctl_%d" % case.get("ctl", 0),
                "twin_" + case.get("twin", "none"))
        if res["nn"] < res["nn_before"]:
            ctx.tag("nn_id_wrapped")
    if len(case["chips"]) > 100:
        ctx.tag("machine_over_100_chips")
    if len(case["apps"]) > 20:
        ctx.tag("over_20_binaries")
    if case["n_tries"] > 2 ** 30:
        ctx.tag("n_tries_big")
    if len(case["apps"]) == 0:
        ctx.tag("empty_map")
    by = {}
    for kind, r in zip(kinds, rs):
        by.setdefault(kind, []).append(r)
    if "machine" not in by:
        ctx.tag("did_not_return" if abnormal(case, res) == "hang" else "trace_over_60000_requests")
        if abnormal(case, res) == "hang":
            # the model's retry loop terminates (theorem attempts_bounded)
            ctx.violation("did-not-return", "load_application %s (%d requests sent)" % (
                outcome["hang"], len(res["trace"])), payload)
        else:
            ctx.mismatch("c09.trace", "the call sent %d requests" % len(res["trace"]), payload)
        return
    # ---- (b) simulator vs Lean machine specification --------------------------------
    m = by["machine"][0]
    sim_replies = [e[1] for e in res["trace"]]
    outside = [i for i, a in enumerate(m["replies"]) if a.get("rc") == "unmodelled"]
    if outside:
        # the implementation sent a request the machine specification gives no meaning to (e.g. a read of an
        # address that is no system variable of that chip): whatever the simulator answered is not to be trusted;
        # the comparison with the model below reports the difference
        ctx.tag("request_outside_machine_spec")
    if [a for i, a in enumerate(m["replies"]) if i not in outside] != \
            [b for i, b in enumerate(sim_replies) if i not in outside]:
        i = next(i for i, (a, b) in enumerate(zip(m["replies"], sim_replies)) if a != b and i not in outside)
        raise Infra("simulated machine and Lean machine specification disagree on reply %d: spec %r sim %r (request %r)" % (
            i, m["replies"][i], sim_replies[i], res["trace"][i][0]))
    if sorted(m["cores"]) != sorted(res["after"]):
        raise Infra("simulated machine and Lean machine specification disagree on the final core states")
    # ---- results kept by the caller, arguments passed by the caller ------------------------
    if res.get("kept_changed"):
        ctx.violation("error-payload-changed", "the map of an earlier SpiNNakerLoadingError changed after it was raised: "
                      "%r" % (res["kept_changed"][:1],), payload)
    if res.get("args_mutated"):
        ctx.tag("args_mutated")
        ctx.mismatch("c09.args_mutated", "the application map passed by the caller was modified by the call", payload)
    if "error_str_exc" in res:
        ctx.tag("error_str_raises")
        ctx.mismatch("c09.error_str", "str() of the SpiNNakerLoadingError raises %s" % res["error_str_exc"], payload)
    # ---- outcomes outside the model: injected faults, no return ----------------------------
    ab = abnormal(case, res)
    if ab == "hang":
        # the model's retry loop terminates (theorem attempts_bounded)
        ctx.tag("did_not_return")
        ctx.violation("did-not-return", "load_application %s" % outcome["hang"], payload)
        return
    if ab is not None:
        # the transport (C06) / the file system failed as scripted: the documented exception of that layer; what
        # matters here is that the same controller and machine keep working in the following steps
        ctx.tag("abnormal_" + ab)
        return
    if case.get("fault") is not None:
        ctx.tag("fault_after_last_request")
    # ---- undocumented exceptions --------------------------------------------------
    if isinstance(outcome, dict) and "error" in outcome:
        ctx.violation("unexpected-error", "%s raised %s" % (
            "flood_fill_aplx" if case.get("only_fill") else "load_application", outcome["error"]), payload)
        return
    # ---- (c) oracles on the implementation's behaviour ------------------------------
    fills_req = split_fills(res["trace"], k)
    for i, r in enumerate(by.get("wf", [])):
        if not r["ok"]:
            key = "fill-malformed" if dom else "ffs-block-count-overflow"
            f = fills_req[i] if i < len(fills_req) else []
            announced = (f[0]["arg1"] >> 8) & 0xff if f else None
            blocks = [q for q in f if q["cmd"] == k["cmdFfd"]]
            detail = "start packet announces %r blocks, %d data blocks sent carrying %d bytes (longest %d) for a binary of %d bytes on a machine with a %d byte buffer" % (
                announced, len(blocks), sum(len(q["data"]) for q in blocks), max([len(q["data"]) for q in blocks] or [0]),
                len(next((a["image"] for a in case["apps"] if i < len(res["opened"]) and a["name"] == res["opened"][i]), [])),
                case["buf"])
            ctx.violation(key, "fill %d sent by flood_fill_aplx is not well formed (block count / numbering / size / "
                          "reassembly / id / core-select order): %s%s" % (
                              i, detail, "" if dom else "; the binary needs more than 255 blocks, the 8-bit count of the start packet overflows"),
                          payload)
            break
    for (t, rg_), r in zip(res["records"], by.get("regions", [])):
        if not r["ok"]:
            ctx.violation("regions-wrong", "core selections %r are not strictly increasing or do not select exactly %r" % (rg_, t), payload)
            break
    if clean:
        for r in by.get("resend", []):
            if not r["ok"]:
                ctx.violation("resend-inexact", "a flood fill was sent to a map that is not the still-unloaded part of the request", payload)
                break
    # whatever was on the machine before the call: a (re-)send never goes to a core that was not requested for that
    # binary nor, after the first attempt, to a core that holds its binary at that moment (Lean: resendOnlyOK on the
    # core states at the start packet) - "re-send only to the cores still missing"
    for i, r in enumerate(by.get("resend", [])):
        if not r.get("only", True):
            ctx.violation("resend-inexact", "fill %d was (re-)sent to cores that are not requested for its binary or "
                          "that already hold it (loaded by an earlier attempt or an earlier call)" % i, payload)
            break
    if not case.get("only_fill") and n_fills > (case["n_tries"] + 1) * len(case["apps"]):
        ctx.violation("too-many-attempts", "%d fills for %d binaries with n_tries=%d" % (n_fills, len(case["apps"]), case["n_tries"]), payload)
    if "post" in by and outcome != "ok":
        in_map = sorted((x, y, p) for a in outcome["loading_error"] for x, y, ps in a["targets"] for p in ps)
        chips_of = {}
        for a in outcome["loading_error"]:
            for x, y, ps in a["targets"]:
                if ps:
                    chips_of.setdefault((x, y), set()).add(a["name"])
        if any(len(v) > 1 for v in chips_of.values()):
            ctx.tag("error_names_several_binaries_on_one_chip")
        bad_map = set(map(tuple, by["post"][0].get("bad", [])))
        for src, shown in (("str", "str(error)"), ("repr", "repr(error)"), ("args", "error.args")):
            named = {"str": cores_in_message(res["error_str"]) if "error_str" in res else None,
                     "repr": cores_in_repr(res["error_repr"]) if "error_repr" in res else None,
                     "args": [tuple(c) for a in res["error_args"] for c in a] if res.get("error_args") else None}[src]
            if named is None:
                continue
            ctx.tag("error_%s_checked" % src)
            if len(named) != len(set(named)):
                ctx.tag("error_%s_names_a_core_twice" % src)
            if "post_" + src not in by:
                continue
            ctx.tag("error_%s_differs_from_app_map" % src)
            r = by["post_" + src][0]
            new_bad = sorted(set(map(tuple, r.get("bad", []))) - bad_map)
            if new_bad:
                # (cores that violate the post-condition for error.app_map as well are judged below, once)
                ctx.violation("error-message-inexact",
                              "SpiNNakerLoadingError raised; %s names the cores %r but error.app_map / the machine say %r: "
                              "cores %r are named without being unloaded requested cores, or are not loaded and not "
                              "named" % (shown, sorted(set(named))[:12], in_map[:12], new_bad[:8]), payload)
                break
    if "post" in by:
        r = by["post"][0]
        if not r["ok"]:
            if outcome == "ok":
                # theorem load_sound_iff_preclean_needed: unsound iff staleMasks(pre, request, violating cores)
                if stale["masks"]:
                    keys = {"readback-stale-waiter" if stale["self"] else "count-shortcut-stale-waiters"}
                else:
                    keys = {"load-unsound"}
            else:
                keys = {"readback-stale-waiter" if stale["hides"] else "error-inexact"}
            ctx.tag("post_violation_" + sorted(keys)[0])
            for key in sorted(keys):
                ctx.violation(key, "%s but cores %r do not satisfy the post-condition (requested cores hold their "
                              "binary under the app id and wait/run as asked, error names exactly the unloaded cores, "
                              "other cores untouched)" % (
                                  "load_application returned normally" if outcome == "ok" else "SpiNNakerLoadingError raised",
                                  r["bad"][:6]), payload)
    # the start signal: exactly one, the last request, only on a normal return with wait=False
    # (theorem start_signal_once; anything it changes on the cores is a violation of `post` above)
    if "start_once" in by and not by["start_once"][0]["ok"]:
        ctx.mismatch("c09.start_once", "the requests of the call do not contain exactly one start signal as the last "
                     "request (normal return, wait=False) / contain a signal packet (wait=True or error)", payload)
    # ---- (a) model correspondence ------------------------------------------------------
    it = [norm_entry(e) for e in canon_trace(res["trace"], k)]
    for kind, suite in (("model", "c09"), ("model_c12", "c09.c12")):
        mo = by[kind][0]
        mt = [norm_entry(e) for e in canon_trace([tuple(e) for e in mo["trace"]], k)]
        if it != mt:
            i = next((i for i, (a, b) in enumerate(zip(it, mt)) if a != b), min(len(it), len(mt)))
            ctx.mismatch(suite + ".trace", "request/reply %d differs (impl %d entries, model %d): impl=%r model=%r" % (
                i, len(it), len(mt), it[i:i + 1], mt[i:i + 1]), payload)
        elif canon_outcome(outcome) != canon_outcome(mo["outcome"]):
            ctx.mismatch(suite + ".outcome", "impl=%r model=%r" % (canon_outcome(outcome), canon_outcome(mo["outcome"])), payload)
        elif sorted(mo["cores"]) != sorted(res["after"]) or mo["nn"] != res["nn"]:
            ctx.mismatch(suite + ".state", "final core states / nn id differ: impl nn=%r model nn=%r" % (res["nn"], mo["nn"]), payload)
        else:
            continue
        break


# --------------------------------------------------------------------------
# send_signal / count_cores_in_state / wait_for_cores_to_reach_state
# (companion model RigModel/Model/C09Sig.lean, suite c09sig)
# --------------------------------------------------------------------------
def load_sig_tables():
    """the generated enumerations (read back from the file the translator wrote from the source)"""
    import re
    from harness import common
    t = {}
    for line in open(os.path.join(common.GEN, "LoadSig.lean")):
        m = re.match(r"def (\w+) : List \((\w+) × Nat\) := \[(.*)\]$", line.strip())
        if m:
            if m.group(2) == "String":
                t[m.group(1)] = [(a, int(b)) for a, b in re.findall(r'\("(\w+)", (\d+)\)', m.group(3))]
            else:
                t[m.group(1)] = [(int(a), int(b)) for a, b in re.findall(r"\((\d+), (\d+)\)", m.group(3))]
    return t


class WaitCap(Exception):
    """the scripted `time.sleep` was called as often as the model has fuel"""


class FakeTime(object):
    """stands in for the module `time` inside machine_controller during one call: scripted integer
    clock; every sleep lets the simulated machine move on by one step of the evolution script"""

    def __init__(self, machine, clock, evolve, cap):
        self.machine, self.clock, self.evolve, self.cap = machine, clock, evolve, cap
        self.reads = 0
        self.sleeps = []

    def time(self):
        if self.reads >= len(self.clock):
            raise Infra("clock script exhausted")
        v = self.clock[self.reads]
        self.reads += 1
        return v

    def sleep(self, d):
        k = len(self.sleeps)
        self.sleeps.append(d)
        for x, y, p, st, app in (self.evolve[k] if k < len(self.evolve) else []):
            self.machine.cores[(x, y, p)] = (st, app, self.machine.core(x, y, p)[2])
        if len(self.sleeps) >= self.cap:
            raise WaitCap()


def py_arg(spec, enum):
    """{"name": s} -> the str; {"value": n, "as": "int" | "member"} -> the int or the enum member"""
    if "name" in spec:
        return spec["name"]
    if spec.get("as") == "bool":
        return bool(spec["value"])
    return enum(spec["value"]) if spec.get("as") == "member" else spec["value"]


def lean_arg(spec):
    return spec["name"] if "name" in spec else spec["value"]


def gen_arg(rng, table, enum_name):
    names = [n for n, _ in table]
    vals = [v for _, v in table]
    r = rng.random()
    if r < 0.45:
        return {"name": rng.choice(names)}
    if r < 0.65:
        return {"value": rng.choice(vals), "as": "member"}
    if r < 0.82:
        return {"value": rng.choice(vals), "as": "int"}
    if r < 0.85:
        return {"value": rng.choice([0, 1]), "as": "bool"}      # True == 1 and False == 0 are members by value
    if r < 0.93:
        return {"name": rng.choice(["nosuch", "Wait", "waiting", "", "start_", "run "])}
    return {"value": rng.choice([v for v in (12, 13, 14, 16, 17, 31, 255, 256) if v not in vals]), "as": "int"}


def gen_sig_case(rng, t):
    chips = dedup(gen_chips(rng))[:10]
    app_id = rng.choice([16, 30, 66, 255, rng.randrange(1, 256)])
    other = app_id % 255 + 1
    st_vals = [v for _, v in t["appStates"]]
    all_cores = [(x, y, p) for (x, y) in chips for p in range(18)]
    pre = {}
    for core in rng.sample(all_cores, min(len(all_cores), rng.randrange(0, 12))):
        pre[core] = [core[0], core[1], core[2], rng.choice(st_vals + [WAIT, WAIT, RUN]),
                     rng.choice([app_id, app_id, app_id, other]), [rng.randrange(256) for _ in range(4)]]
    case = {"chips": chips, "sdram_sys": 0x60000000, "vcpu_base": 0xe5007000, "app_id": app_id,
            "pre": [pre[c] for c in sorted(pre)]}
    kind = rng.choice(["signal", "count", "count", "wait", "wait", "wait"])
    case["kind"] = kind
    case["conv"] = rng.choice(["pos", "pos", "kw", "ctx"])
    if kind == "signal":
        case["signal"] = gen_arg(rng, t["appSignals"], "AppSignal")
        if rng.random() < 0.35:
            case["signal"] = rng.choice([{"name": "start"}, {"value": 3, "as": "member"}, {"value": 3, "as": "int"}])
        return case

    def state_arg():
        if rng.random() < 0.5:
            a = gen_arg(rng, t["appStates"], "AppState")
            if rng.random() < 0.5:
                a = rng.choice([{"name": "wait"}, {"name": "run"}, {"value": WAIT, "as": "member"}])
            return a, None
        n = rng.choice([0, 1, 2, 2, 3, 4])
        l = [gen_arg(rng, t["appStates"], "AppState") for _ in range(n)]
        if rng.random() < 0.6:      # mostly valid lists
            l = [a for a in l if ("name" in a and a["name"] in dict(t["appStates"])) or
                 ("value" in a and a["value"] in st_vals)] or [{"name": "wait"}]
        return l, rng.choice(["list", "tuple", "gen"])
    case["state"], case["container"] = state_arg()
    if kind == "count":
        return case
    if case["container"] == "gen":
        # a generator is consumed by the first poll (later polls would sum nothing): the model's
        # iterable is re-iterable, as every caller's list / tuple / set of states is
        case["container"] = "tuple"
    # wait: target count, timeout, clock script, evolution of the machine during the sleeps
    n_now = sum(1 for c in pre.values() if c[4] == app_id)
    case["count"] = rng.choice([0, 1, 2, 3, n_now, n_now, n_now + 1, n_now + 2, 40, 2 ** 31, 2 ** 64 + 1])
    steps = rng.randrange(0, 6)
    evolve = []
    for _ in range(steps):
        ups = []
        for core in rng.sample(all_cores, min(len(all_cores), rng.choice([0, 1, 1, 2, 3]))):
            ups.append([core[0], core[1], core[2], rng.choice([WAIT, WAIT, WAIT, RUN, IDLE] + st_vals[:4]),
                        rng.choice([app_id, app_id, app_id, other])])
        evolve.append(ups)
    case["evolve"] = evolve
    case["fuel"] = rng.choice([4, 6, 9])
    if rng.random() < 0.7:
        tmo = rng.choice([0, 1, 2, 3, 5, 8])
        t0 = rng.randrange(0, 1000)
        clock, now = [t0], t0
        style = rng.choice(["unit", "unit", "jumps", "stalls"])
        for _ in range(case["fuel"] + 2):
            now += 1 if style == "unit" else rng.choice([0, 1, 2, 5]) if style == "jumps" else rng.choice([0, 0, 1])
            clock.append(now)
        case["timeout"], case["clock"] = tmo, clock
    else:
        case["timeout"], case["clock"] = None, []
    case["poll"] = rng.choice([0.1, 0.25, 1.0, 0, 2])
    return case


def run_sig_impl(case, k, t):
    from rig.machine_control import machine_controller as mcm
    from rig.machine_control import scp_connection as sc
    from rig.machine_control import consts
    machine = LoadMachine(case["chips"], 256, case["sdram_sys"], case["vcpu_base"], [], case["pre"], k)
    net = simnet.Net(machine.handle, lambda i, d: None)
    res = {"sleeps": []}

    def state_value():
        st = case["state"]
        if isinstance(st, list):
            vals = [py_arg(a, consts.AppState) for a in st]
            return {"list": list, "tuple": tuple, "gen": lambda v: (x for x in v)}[case["container"]](vals)
        return py_arg(st, consts.AppState)
    from harness import common
    conv = case.get("conv", "pos")

    def invoke(fn, names, *args):
        """positional / keyword / app_id through the controller's context"""
        if conv == "kw":
            return fn(**dict(zip(names, args)))
        if conv == "ctx":
            kw = dict(zip(names, args))
            with mc(app_id=kw.pop("app_id")):
                return fn(**kw)
        return fn(*args)
    with simnet.installed(net):
        mc = simmachine.make_controller(net, timeout=4.0)
        try:
          # polls and signals take milliseconds; the wait loop is cut by the scripted sleep (fuel)
          with common.cpu_limit(20 if _LIMIT["hangs"] < 3 else 5):
            if case["kind"] == "signal":
                invoke(mc.send_signal, ("signal", "app_id"), py_arg(case["signal"], consts.AppSignal), case["app_id"])
                res["result"] = "ok"
            elif case["kind"] == "count":
                res["result"] = {"count": int(invoke(mc.count_cores_in_state, ("state", "app_id"),
                                                     state_value(), case["app_id"]))}
            else:
                fake = FakeTime(machine, case["clock"], case["evolve"], case["fuel"])
                real = mcm.time
                mcm.time = fake
                try:
                    n = invoke(mc.wait_for_cores_to_reach_state,
                               ("state", "count", "app_id", "poll_interval", "timeout"),
                               state_value(), case["count"], case["app_id"], case["poll"], case["timeout"])
                    res["result"] = {"count": int(n)}
                except WaitCap:
                    res["result"] = "out_of_fuel"
                finally:
                    mcm.time = real
                    res["sleeps"] = fake.sleeps
                    res["clock_reads"] = fake.reads
        except common.ImplHang as e:
            _LIMIT["hangs"] += 1
            res["result"] = {"error": "DidNotReturn %s" % e}
        except ValueError:
            res["result"] = {"error": "ValueError"}
        except KeyError:
            res["result"] = {"error": "KeyError"}
        except sc.SCPError as e:
            res["result"] = {"error": "SCPError"}
        except (TypeError, IndexError, OverflowError, AttributeError) as e:
            res["result"] = {"error": "%s %s" % (type(e).__name__, e)}
    res["trace"] = machine.log
    res["after"] = machine.cores_list()
    return res


def same_reply(model, sim):
    """the specification models only count and start: `unmodelled` stands for any refusal of the simulator"""
    if model.get("rc") == "unmodelled":
        return sim.get("rc") != "ok"
    return model == sim


def eval_sig_cases(ctx, cases):
    k = load_consts()
    t = load_sig_tables()
    reqs, metas = [], []
    for case in cases:
        res = run_sig_impl(case, k, t)
        base = {"suite": "c09sig", "chips": case["chips"], "missed": [], "sdram_sys": case["sdram_sys"],
                "vcpu_base": case["vcpu_base"], "cores": case["pre"], "app_id": case["app_id"]}
        if case["kind"] == "signal":
            reqs.append(dict(base, op="signal", signal=lean_arg(case["signal"])))
        else:
            st = case["state"]
            st_j = [lean_arg(a) for a in st] if isinstance(st, list) else lean_arg(st)
            if case["kind"] == "count":
                reqs.append(dict(base, op="count", state=st_j))
            else:
                reqs.append(dict(base, op="wait", state=st_j, count=case["count"], timeout=case["timeout"],
                                 clock=case["clock"], evolve=case["evolve"], fuel=case["fuel"]))
        oracle = None
        if case["kind"] == "wait" and isinstance(res["result"], dict) and "count" in res["result"]:
            n_states = len(case["state"]) if isinstance(case["state"], list) else 1
            n_polls = len(res["sleeps"]) + 1
            counts = [e[1].get("arg1", 0) for e in res["trace"]]
            polls = [sum(counts[i * n_states:(i + 1) * n_states]) for i in range(n_polls)]
            oracle = dict(suite="c09sig", op="wait_ok", clock=case["clock"], timeout=case["timeout"],
                          count=case["count"], polls=polls, ret=res["result"]["count"])
            reqs.append(oracle)
        metas.append((case, res, oracle is not None))
    replies = ctx.lean(reqs)
    pos = 0
    for case, res, has_oracle in metas:
        mo = replies[pos]
        orc = replies[pos + 1] if has_oracle else None
        pos += 2 if has_oracle else 1
        for r in (mo, orc):
            if r is not None and "proto_error" in r:
                raise Infra("lean driver: %s" % r["proto_error"])
        judge_sig(ctx, case, res, mo, orc)


def judge_sig(ctx, case, res, mo, orc):
    result = res["result"]
    kind = case["kind"]
    nontrivial = (kind == "wait" and len(res["sleeps"]) > 0) or (kind == "count" and isinstance(case["state"], list)) \
        or (isinstance(result, dict) and "error" in result) or (kind == "signal" and result == "ok")
    ctx.case(case, nontrivial)
    ctx.traces += 1
    rtag = "ok" if result == "ok" else "out_of_fuel" if result == "out_of_fuel" else \
        "count" if "count" in result else result["error"].split()[0]
    ctx.tag("sig_" + kind, "sig_" + kind + "_" + rtag, "sig_conv_" + case.get("conv", "pos"))
    arg = case.get("signal") if kind == "signal" else case.get("state")
    for a_ in (arg if isinstance(arg, list) else [arg]):
        ctx.tag("sig_arg_" + ("name" if "name" in a_ else a_.get("as", "int")))
    if kind == "wait" and case["count"] > 2 ** 30:
        ctx.tag("wait_count_big")
    if kind == "wait":
        ctx.tag("wait_timeout" if case["timeout"] is not None else "wait_no_timeout",
                "wait_sleeps_%s" % (min(len(res["sleeps"]), 3)))
        if isinstance(result, dict) and "count" in result:
            ctx.tag("wait_reached" if result["count"] >= case["count"] else "wait_timed_out")
    it = [norm_entry(e) for e in res["trace"]]
    mt = [norm_entry(e) for e in mo["trace"]]
    # an SCPError is expected exactly when the machine specification does not model the request
    refused = bool(mt) and mt[-1][1].get("rc") == "unmodelled"
    if isinstance(result, dict) and result.get("error") == "SCPError" and refused and kind == "signal":
        result = "ok"
    if len(it) != len(mt) or any(a[0] != b[0] or not same_reply(b[1], a[1]) for a, b in zip(it, mt)):
        i = next((i for i, (a, b) in enumerate(zip(it, mt)) if a[0] != b[0] or not same_reply(b[1], a[1])),
                 min(len(it), len(mt)))
        ctx.mismatch("c09sig.trace", "%s: request/reply %d differs (impl %d entries, model %d): impl=%r model=%r" % (
            kind, i, len(it), len(mt), it[i:i + 1], mt[i:i + 1]), case)
    elif result != mo["result"]:
        ctx.mismatch("c09sig.result", "%s: impl=%r model=%r" % (kind, result, mo["result"]), case)
    elif kind == "wait" and (len(res["sleeps"]) != mo["sleeps"] or any(d != case["poll"] for d in res["sleeps"])):
        ctx.mismatch("c09sig.sleeps", "impl slept %r, model %d times for %r" % (res["sleeps"], mo["sleeps"], case["poll"]), case)
    elif kind != "count" and sorted(mo["cores"]) != sorted(res["after"]):
        ctx.mismatch("c09sig.state", "%s: final core states differ" % kind, case)
    elif orc is not None and not orc["ok"]:
        # the Lean specification predicate `waitOK` on the implementation's own polls and return value
        ctx.mismatch("c09sig.wait_spec", "wait_for_cores_to_reach_state returned %r: not the last count, or the loop "
                     "did not stop at the first poll that reached the count / passed the deadline" % (result,), case)


def sig_fixed_cases(t):
    """every member of AppSignal / AppState by name, as member and as int; the three loop exits"""
    base = {"chips": [[0, 0], [1, 0]], "sdram_sys": 0x60000000, "vcpu_base": 0xe5007000, "app_id": 30,
            "pre": [[0, 0, 1, WAIT, 30, [1, 2, 3, 4]], [1, 0, 2, WAIT, 30, [1, 2, 3, 4]], [1, 0, 3, RUN, 30, [5, 6, 7, 8]],
                    [0, 0, 4, WAIT, 31, [1, 2, 3, 4]]]}
    out = []
    for name, v in t["appSignals"]:
        for spec in ({"name": name}, {"value": v, "as": "member"}, {"value": v, "as": "int"}):
            out.append(dict(base, kind="signal", signal=spec))
    for name, v in t["appStates"]:
        for spec in ({"name": name}, {"value": v, "as": "member"}, {"value": v, "as": "int"}):
            out.append(dict(base, kind="count", state=spec, container=None))
    out.append(dict(base, kind="count", state=[{"name": n} for n, _ in t["appStates"]], container="list"))
    out.append(dict(base, kind="count", state=[{"name": "wait"}, {"name": "nosuch"}, {"name": "run"}], container="tuple"))
    wait = dict(base, kind="wait", state={"name": "wait"}, container=None, poll=0.1, fuel=6,
                evolve=[[], [[0, 0, 7, WAIT, 30]], [[0, 0, 8, WAIT, 30]]])
    out.append(dict(wait, count=2, timeout=None, clock=[]))                       # reached at once
    out.append(dict(wait, count=4, timeout=None, clock=[]))                       # reached after three sleeps
    out.append(dict(wait, count=9, timeout=2, clock=[10, 11, 12, 13, 14, 15, 16, 17]))   # deadline passes
    out.append(dict(wait, count=9, timeout=None, clock=[]))                       # never: out of fuel
    out.append(dict(wait, count=9, timeout=1000, clock=[10] * 8))                 # clock stalls: out of fuel
    return out


def run_sig(ctx):
    t = load_sig_tables()
    cases = sig_fixed_cases(t)
    n = ctx.scale(150, 2400)
    if ctx.extended:
        n *= 4
    for _ in range(n):
        cases.append(gen_sig_case(ctx.rng, t))
    for i in range(0, len(cases), 200):
        eval_sig_cases(ctx, cases[i:i + 200])

# --------------------------------------------------------------------------
# histories: several calls on one machine through one or two controllers; scale
# --------------------------------------------------------------------------
def step_of(case):
    return {key: case[key] for key in STEP_KEYS if key in case}


def gen_missed(rng, chips, n_fills):
    mode = rng.choice(["none", "none", "random", "random", "all-then-none", "all"])
    out = []
    for i in range(min(n_fills, 12)):
        if mode == "random":
            out.append([c for c in chips if rng.random() < 0.3])
        elif mode == "all" or (mode == "all-then-none" and i == 0):
            out.append(list(chips))
        else:
            out.append([])
    return out, mode


def gen_twin(rng, prev, chips, buf):
    """the previous call again, equal in all but one aspect"""
    import copy
    step = copy.deepcopy(prev)
    for key in ("fault", "missing_file", "nn"):
        step.pop(key, None)
    aspects = ["same", "wait", "mode", "app_id", "n_tries", "kinds", "call", "delay", "only_fill"]
    if step["apps"]:
        aspects += ["core", "core", "chip", "image", "image", "grow", "grow", "grow"]
    aspect = rng.choice(aspects)
    apps = step["apps"]
    used = {(x, y, p) for a in apps for x, y, cs in a["targets"] for p in cs}
    if aspect == "wait":
        step["wait"] = not step["wait"]
    elif aspect == "mode":
        step["use_count"] = not step["use_count"]
    elif aspect == "app_id":
        step["app_id"] = step["app_id"] % 255 + 1
    elif aspect == "n_tries":
        step["n_tries"] = rng.choice([n for n in (0, 1, 2, 3) if n != step["n_tries"]])
    elif aspect == "kinds":
        step["kinds"] = gen_kinds(rng)
    elif aspect == "call":
        step["call"] = rng.choice([c for c in ("dict", "context") + (("pair",) if len(apps) == 1 else ())
                                   if c != step.get("call")] or ["dict"])
    elif aspect == "delay":
        step["delay"] = rng.choice([d for d in (0.0, 0.1, 0.5) if d != step.get("delay", 0.0)])
    elif aspect == "only_fill":
        step["only_fill"] = not step.get("only_fill", False)
    elif aspect == "core":
        a = rng.choice(apps)
        free = [(x, y, p) for (x, y) in map(tuple, chips) for p in range(18) if (x, y, p) not in used]
        full = [t for t in a["targets"] if t[2]]
        if free and (not full or rng.random() < 0.5):
            x, y, p = rng.choice(free)
            t = next((t for t in a["targets"] if (t[0], t[1]) == (x, y)), None)
            if t is None:
                a["targets"].append([x, y, [p]])
            else:
                t[2] = sorted(t[2] + [p])
        elif full:
            t = rng.choice(full)
            t[2].remove(rng.choice(t[2]))
    elif aspect == "grow":
        # the same map again (same binaries, same app id) with more cores on chips it already uses, some of which
        # then miss fills: what the earlier call loaded and left waiting is loaded, the new cores are not
        grown = []
        for a in apps:
            for t in a["targets"]:
                free = [p for p in range(18) if (t[0], t[1], p) not in used]
                if free and len(grown) < 3 and rng.random() < 0.6:
                    add = rng.sample(free, min(len(free), rng.randrange(1, 3)))
                    used.update((t[0], t[1], p) for p in add)
                    t[2] = sorted(t[2] + add)
                    grown.append([t[0], t[1]])
        if rng.random() < 0.6:
            prev["wait"] = True                      # (the earlier call of the pair leaves its cores waiting)
        step["grown"] = grown
    elif aspect == "chip":
        a = rng.choice(apps)
        if a["targets"]:
            a["targets"].remove(rng.choice(a["targets"]))
    elif aspect == "image":
        a = rng.choice(apps)
        if a["image"] and rng.random() < 0.5:
            a["image"] = [(b + 1) % 256 for b in a["image"]]          # same length, other contents, same file name
        else:
            a["image"] = gen_image(rng, buf, False)
    n_fills = (min(step["n_tries"], 3) + 1) * len(apps)
    step["missed"], step["missed_mode"] = gen_missed(rng, chips, n_fills)
    if step.pop("grown", None) and rng.random() < 0.7:
        lost = [c for c in dedup(grown) if rng.random() < 0.7] or grown[:1]
        every = rng.random() < 0.5
        step["missed"] = [lost if every or i < len(apps) else [] for i in range(min(n_fills, 12))]
        step["missed_mode"] = "grown-chips"
        if rng.random() < 0.5:
            step["use_count"] = False
    step["twin"] = aspect
    return step


def gen_history(rng, long_run=False):
    if long_run:
        # more than 130 fills through one controller (the nn-id passes 126 and wraps) on a small machine
        chips = [[0, 0], [1, 0], [0, 1]]
        first = gen_case(rng, chips=chips, buf=rng.choice([4, 8, 16]), n_apps=4)
    else:
        first = gen_case(rng)
        if len(first["chips"]) > 16:
            first = gen_case(rng, chips=first["chips"][:16])
    chips, buf = first["chips"], first["buf"]
    h = {key: first[key] for key in ("chips", "buf", "sdram_sys", "vcpu_base", "vcpu_bases", "sver", "pre", "subclass")}
    h["reload"] = True
    steps = [step_of(first)]
    steps[0]["pre_mode"] = first["pre_mode"]
    n = 35 if long_run else rng.choice([2, 3, 3, 4, 5, 6])
    for i in range(1, n):
        r = rng.random()
        if long_run:
            step = step_of(gen_case(rng, chips=chips, buf=buf, n_apps=4))
            step["twin"] = "other"
            if rng.random() < 0.8:
                step["n_tries"], step["missed"], step["missed_mode"] = 1, [], "none"
        elif r < 0.6:
            step = gen_twin(rng, steps[-1], chips, buf)
        else:
            step = step_of(gen_case(rng, chips=chips, buf=buf))
            step["twin"] = "other"
        if not long_run or rng.random() < 0.5:
            if rng.random() < 0.7:
                step["app_id"] = steps[0]["app_id"]
        step["ctl"] = rng.choice([0, 0, 1])
        if step["ctl"] == 1 and not any(st.get("ctl") == 1 for st in steps):
            step["nn"] = rng.choice([0, 60, 125, 126])
        else:
            step.pop("nn", None)
        step["reuse"] = rng.random() < 0.4
        step["after_error"] = rng.choice(["keep", "keep", "edit"])
        if not long_run:
            r = rng.random()
            if r < 0.12:
                step["fault"] = rng.choice([0, 1, 2, 3, 5, 8, 13, 21, 40])     # the transport dies at that datagram
            elif r < 0.16 and step["apps"]:
                step["missing_file"] = True
        steps.append(step)
    h["history"] = steps
    return h


def many_binaries_case(rng):
    """one map with more binaries than the fill id has values (126): 136 fills in one call"""
    chips = [[x, y] for x in range(4) for y in range(2)]
    cores = [(x, y, p) for x, y in chips for p in range(1, 18)]
    rng.shuffle(cores)
    buf = rng.choice([4, 8])
    apps = [{"name": i, "image": [rng.randrange(256) for _ in range(rng.choice([4, 8, 12]))],
             "targets": [[cores[i][0], cores[i][1], [cores[i][2]]]]} for i in range(136)]
    case = gen_case(rng, chips=chips, buf=buf, n_apps=1)
    case.update(apps=apps, n_tries=1, call="dict", pre=[], pre_mode="none", missed_mode="random",
                missed=[[c for c in chips if rng.random() < 0.05] for _ in range(272)])
    return case


def scale_cases(rng, n):
    """a handful of cases far beyond the usual size: the longest machines the 8-bit chip coordinates allow
    (256 x 1, 1 x 256, 2 x 200), more binaries than fill ids"""
    out = [many_binaries_case(rng)]
    shapes = [[[x, 0] for x in range(256)], [[0, y] for y in range(256)],
              [[x, y] for x in range(2) for y in range(200)], [[x, y] for x in range(16) for y in range(16)]]
    rng.shuffle(shapes)
    for chips in shapes[:n]:
        case = gen_case(rng, chips=chips, buf=rng.choice([64, 256]), n_apps=rng.choice([1, 2]))
        for a in case["apps"]:
            a["image"] = a["image"][:512]
        case["n_tries"] = min(case["n_tries"], 1)
        case["missed"] = case["missed"][:(case["n_tries"] + 1) * len(case["apps"])]
        out.append(case)
    return out


def run(ctx):
    ctx.extra["rule"] = RULE
    ctx.extra["trusted_base"] = [
        "Lean machine specification Rig.C09.stepP (what SC&MP does with FFS/FFCS/FFD/FFE, count and start signals, "
        "vcpu reads), written from the docstrings of machine_controller.py / regions.py; the Python simulator is "
        "checked against it on every trace",
        "whole-fill miss abstraction: a chip either sees every packet of a fill or none"]
    ctx.assumptions += [
        "image length and buffer size multiples of 4, buffer at most 1024 bytes (8-bit word count per data block), at most "
        "255 blocks per binary (beyond: known finding)",
        "requested chips are chips of the machine, cores < 18, binaries target disjoint cores",
        "PreClean for the soundness/exactness theorems: no core waits under the app id, no requested core waits",
        "compress_flood_fill_regions meets its contract (C12): proved for C12's model (compress_contract_discharged), "
        "checked per call on the implementation's pairs by the Lean predicate regionsOK; the controller model with C12's "
        "compress must reproduce the implementation's trace",
        "each requested core is listed once (dict / set semantics of the application map) for the count clause of staleMasks",
        "wait_for_cores_to_reach_state: integer clock and machine evolution are environment inputs; iterable of states re-iterable",
        "SCP commands themselves are delivered (C06); signals (count, start) are reliable"]
    try:
        cases = [stale_count_case(), stale_readback_case(), overflow_case(),
                 stale_more_case(1), stale_more_case(2), stale_more_case(3), stale_more_case(5)]
        cases += [big_buffer_case(b, uc) for b in (128, 260, 512, 1024) for uc in (True, False)]
        cases += [shared_chip_error_case(uc, n) for n in (2, 3, 4) for uc in (True, False)]
        n = ctx.scale(150, 2200)
        if ctx.extended:
            n *= 4
        for i in range(n):
            cases.append(gen_case(ctx.rng, overflow=(i % 97 == 50)))
        # histories: 2-6 calls on one machine through one or two controllers (twins, edited maps, faults), one
        # (thorough: three) of more than 130 fills; a handful of cases far beyond the usual size
        nh = ctx.scale(32, 450) * (4 if ctx.extended else 1)
        cases += [gen_history(ctx.rng) for _ in range(nh)]
        cases += [gen_history(ctx.rng, long_run=True) for _ in range(ctx.scale(1, 3))]
        cases += scale_cases(ctx.rng, ctx.scale(1, 4))
        if not ctx.quick:
            cases += exhaustive_missed()
        for i in range(0, len(cases), 50):
            eval_cases(ctx, cases[i:i + 50])
        run_sig(ctx)
    finally:
        if _TMP[0]:
            shutil.rmtree(_TMP[0], ignore_errors=True)
            _TMP[0] = None


def exhaustive_missed():
    """every sequence of missed sets for 2 chips x 3 attempts (and 3 chips x 2 attempts), both modes"""
    import itertools
    out = []
    for chips, attempts in (([[0, 0], [1, 0]], 3), ([[0, 0], [1, 0], [4, 4]], 2)):
        subsets = [list(s) for r in range(len(chips) + 1) for s in itertools.combinations(chips, r)]
        for seq in itertools.product(subsets, repeat=attempts):
            for use_count in (False, True):
                out.append({"chips": chips, "buf": 8, "sdram_sys": 0x60000000, "vcpu_base": 0xe5007000,
                            "apps": [{"name": 0, "image": list(range(20)),
                                      "targets": [[c[0], c[1], [1, 2]] for c in chips]}],
                            "app_id": 30, "n_tries": attempts - 1, "wait": use_count, "use_count": use_count, "nn": 125,
                            "missed": [list(map(list, s)) for s in seq], "pre": [],
                            "missed_mode": "exhaustive", "pre_mode": "none"})
    return out


def replay(ctx, payload):
    ctx.extra["rule"] = RULE
    try:
        if "kind" in payload["case"]:
            eval_sig_cases(ctx, [payload["case"]])
        else:
            eval_cases(ctx, [payload["case"]])
    finally:
        if _TMP[0]:
            shutil.rmtree(_TMP[0], ignore_errors=True)
            _TMP[0] = None
THEOREMS += ['gen_send_ffs', 'gen_send_ffcs', 'gen_send_ffe', 'gen_send_ffd']   # translator tie, second round (Props/C09Gen.lean)
THEOREMS += ['gen_send_signal', 'gen_count_cores_in_state']   # translator tie, third round (Props/C09Gen.lean)
