"""C01 - multicast packets reach exactly the cores of their net's sinks (end to end).

The real pipeline (place -> allocate -> route -> routing_tree_to_tables -> minimise_tables, chained by
hand or through either wrapper) is run on generated problems; the Lean network semantics
`Rig.C01.deliver` is executed on the implementation's FINAL tables and the real machine description
and its verdict `deliveredB` (the predicate the theorems are about) is the oracle.  Inside every
pipeline run the stage models are tied to the inputs that actually occur: the implementation's trees
go through the C10 model (`treeTables`) and the C01 bridge (`tables04 . treeTables . toC10`), the
implementation's tables go through the C04 model (`minimiseTables`), and the stage predicates that
are the hypotheses of `pipeline_delivery` (C03 `validTree`, C10 `TablesSpec`, C04 `routeEquivBrute`)
are evaluated on the implementation's intermediate results."""
import random as _random
import time

from . import c03, c04, c10

CLAIM = dict(
    text=("Machine-checked proof (Lean 4) of the network semantics of SpiNNaker multicast routing: `deliver` (first-match "
          "lookup, default routing, core / link fan-out, device links, dead hops, circulation) returns exactly the leaves "
          "of a valid routing tree when the tables agree with the tree (deliver_of_tree, induction over the tree); the "
          "result is invariant under per-chip RouteEquiv when every arrival direction is listed in the matching entry's "
          "sources (deliver_congr: discharges 'merged entry downstream of a default-routed chip'); composition with the "
          "stage conclusions of C03 (ValidTree), C10 (tables_exact) and C04 (RouteEquiv of minimised tables) for nets with "
          "pairwise non-intersecting key/masks (pipeline_delivery). CAPSTONE, proved end to end for the composed MODEL "
          "pipeline (model_pipeline_delivers, Props/C01Pipe.lean): `modelPipeline` chains the stage models as rig's "
          "hand-chained pipeline / place_and_route_wrapper does - a C02 placer (sequential with any orders, random, "
          "annealer; any placement function whose result is Feasible: afterPlace_delivers), C05 allocate, C03 routeNet per "
          "net (fixed code), C10 treeTables, C04 minimiseTables (any method list, any targets, or none) - through explicit "
          "bridge functions between the stage models' data types; for every problem in the documented domain and every "
          "oracle input (placer orders / draws / proposals, destination-set order, RNG tape, broken-link order, radius), IF "
          "every stage returns THEN for every net, in order, and every key matching its key/mask the packet injected at "
          "the source chip is delivered on the FINAL tables exactly once to every allocated core of every sink, leaves "
          "exactly once on every endpoint link, reaches nothing else and raises no flag. Every stage conclusion is "
          "discharged by the stage's theorem (seqPlace/randPlace/saPlace_sound, alloc_sound, routeNet_valid, tables_exact, "
          "minimiseTables_equiv + minimiseTable_equiv); the only hypotheses are the named domain restrictions. The "
          "expected deliveries are spelled out over placement / allocation / constraints (expected_cores, expected_exits); "
          "a concrete problem is run through modelPipeline in the kernel (ex_runs: final tables differ from the unminimised "
          "ones) and satisfies every hypothesis (ex_domain, ex_placerDomain). WRAPPERS, proved from the SystemInfo onwards "
          "(wrapper_pipeline_delivers, Props/C01Wrap.lean): `wrapperPipeline` models place_and_route_wrapper as the "
          "COMPOSITION of C14's models of build_machine / build_core_constraints / build_routing_table_target_lengths with "
          "`modelPipeline`, through an explicit bridge between C14's machine / reservation types and the stage models' "
          "(machine02, deadLinks03, Reservation.toPC, targetsOf); for every SystemInfo in the documented domain (distinct "
          "chips inside the extent, <= 18 cores per chip, one state per core) and every application in the domain, IF the "
          "wrapper model returns THEN every packet of every net is delivered exactly to the allocated cores of its sinks on "
          "the FINAL tables without any flag - on a machine whose working chips and links are exactly those the SystemInfo "
          "reports (machine_is_sysinfo: C14 build_machine_exact carried over the bridge) - AND every allocated core is a "
          "core the SystemInfo has on that chip and reports idle (AllocIdle: C14 reservations_partition + C05 alloc_sound: a "
          "core reserved by build_core_constraints or beyond num_cores is never allocated; allocIdleB_iff: the decided form the "
          "harness evaluates IS AllocIdle); every description that get_system_info returns on a machine served as C14's machine "
          "specification says is in that domain (sidomain_of_probe), so the statement holds from the machine's memory "
          "onwards (probed_wrapper_delivers; allocIdle_machine_state: an allocated core is a working, non-busy core of the "
          "MACHINE STATE); wrapper_only_failure: the wrapper model fails only with the placer's error or the documented "
          "failures of afterPlace_only_failure; the deprecated wrapper() "
          "(reserve_monitor / align_sdram in every combination, tables by build_routing_tables) is deprecatedPipeline with "
          "deprecated_pipeline_delivers; the hypotheses are non-vacuous and the wrapper model is run in the kernel "
          "(exw_runs, exw_sidomain, exw_domain, exw_placerDomain). Tied to the code on every run: (a) the real "
          "pipeline (7 placers x radius x method chain x target) runs on generated graphs/machines through every public "
          "entry: hand-chained (Machine built by hand or by build_machine / build_core_constraints from a SystemInfo with "
          "busy cores; route() given core_resource positionally, by keyword or - default identifier only - not at all; "
          "tables by routing_tree_to_tables + minimise_tables or by the deprecated build_routing_tables with and without "
          "default-route omission), place_and_route_wrapper (SystemInfo incl. busy cores, custom minimise methods as list "
          "or tuple, vertices_applications) and the deprecated wrapper() (reserve_monitor / align_sdram on and off) - each "
          "with rig's DEFAULT and with APPLICATION-DEFINED core_resource / sdram_resource / sram_resource identifiers "
          "(strings, tuples, fresh objects; any subset custom), the stages handed over as custom callables (transparent "
          "pass-through: the stage receives exactly what the wrapper passes) with their keyword arguments, and the "
          "placers' optional arguments (sequential vertex_order list / iterator and chip_order incl. non-existent "
          "coordinates, breadth_first chip_order, hilbert breadth_first=False, annealing effort, kernels); Lean `deliver` "
          "is executed on the final tables the entry point RETURNED for every net (base key + fillings of the don't-care "
          "bits) and its verdict compared with the deliveries expected from the returned placements, the returned "
          "allocations UNDER THE CORES IDENTIFIER THE CALLER NAMED, and the endpoint constraints; whenever machine and "
          "constraints came from a SystemInfo (place_and_route_wrapper, or build_machine + build_core_constraints by hand; "
          "all seven placers) the Lean predicate `allocBad` (= AllocIdle, allocIdleB_iff) is evaluated on the returned "
          "placements / allocations: a core handed to a vertex that the SystemInfo reports busy or does not have is the "
          "finding `allocated-core-not-idle`; stage "
          "correspondences (C10, C04 models and the C01 type bridges) and stage hypotheses are re-checked inside every "
          "pipeline run; (b) the Lean `modelPipeline` itself is run on generated problems with the oracle inputs recorded "
          "from the hand-chained implementation with the sequential placer and compared stage by stage - placements "
          "(incl. dict order), allocations, unminimised tables (incl. chip order), FINAL tables (exact per-chip equality of "
          "the entries), device links, and the failing stage when the implementation raises a documented error; (b2) the "
          "Lean `wrapperPipeline` / `deprecatedPipeline` are run against the REAL place_and_route_wrapper / wrapper() on "
          "generated SystemInfo objects (busy cores in any state, per-chip core counts / memory / router entries, dead "
          "chips and links, application-defined resource identifiers) with the sequential placer handed over as custom "
          "`place=` callable and recording pass-through `allocate=` / `route=`: the Machine and the constraint list the "
          "wrapper PASSES TO EACH OF THE THREE STAGES (canonical form, constraint order kept), the core_resource given to "
          "route, the target lengths, and the placements / allocations / unminimised / FINAL tables it RETURNS are compared "
          "exactly with the model's, as is the failing stage; the Lean predicate `allocBad` (= AllocIdle) is evaluated on "
          "the placements and allocations the wrapper returned (finding `allocated-core-not-idle`) and Lean `deliver` on "
          "the returned tables; (c) "
          "SEQUENCES of 2-4 complete pipeline runs in ONE process (different applications and key assignments on the same "
          "or on different machines) whose later key assignments are RELATED to the earlier runs: one key field for the "
          "whole sequence, hierarchical key/masks of different generality (single keys next to blocks of 2-8 keys, blocks "
          "left partly unused), nets keyed with exactly the (key, mask) pairs that ordered covering PRODUCED in an earlier "
          "run (entries of an earlier minimised table that are not original entries), and beside such a block single-key "
          "nets of another route group whose common cover dips into the block; ordered covering really runs (targets None "
          "/ small, methods default / oc); every run is judged by the same Lean delivery oracle on ALL keys its nets match; "
          "a failing run is re-run alone in a fresh interpreter - if it fails alone it is an ordinary finding, if it "
          "passes alone the finding is history-dependent (state the library kept between calls) and the replay is the "
          "sequence, confirmed in a fresh interpreter and reduced to the runs needed; (d) HISTORIES of 3-7 calls by ONE "
          "caller in one process, the rig modules re-imported at the start of each history (so the replay of a history in a "
          "new process sees what the run saw): the same call repeated with the same objects; TWINS (equal in all but one "
          "aspect: a net, a sink, the fault map, a vertex's cores, a busy core, the key assignment, one option) in both "
          "orders; two applications / machines alternately, each with its own objects; the caller EDITING IN PLACE every "
          "mutable object it passed (vertices_resources and its inner dicts, the nets list, Net.source / sinks / weight, "
          "net_keys, the constraint lists, Machine attributes and its sets / dicts, the SystemInfo) into a twin and calling "
          "again; the caller SCRIBBLING on everything it was handed back (tables, entries' source sets, routing trees' "
          "children, allocations and their inner dicts, placements) before calling again; the caller KEEPING earlier "
          "results and looking at them again after later calls (a kept result that changed is re-judged by the delivery "
          "oracle as it is now); stage callables that FAIL once (place / allocate / route / a minimisation method) followed "
          "by continued use of the same objects; every run of a history is judged by the Lean delivery oracle, a failing "
          "run is re-run alone in a fresh interpreter, the replay of a history-dependent finding is the history; (e) "
          "ARGUMENT KINDS and ENVIRONMENT in streams (a), (b), (d): vertices as int, big int, str with format characters, "
          "tuple (len 0-3), namedtuple, frozenset, plain object, mixed; resource identifiers as str / tuple / object with "
          "format characters; instances of subclasses of Machine, Net, the four constraint classes and RoutingTableEntry; "
          "list subclass for sinks, tuple for same-chip groups, frozenset for dead chips / links, OrderedDict / defaultdict "
          "for net_keys / tables / target lengths; SDRAM quantities around 2**31 .. 2**100 (capacity, reservation, "
          "allocation positions), net weight 2**100, radius True / 1000 / omitted; optional arguments omitted when at "
          "their default, stages and minimise_tables called by keyword; busy cores in every non-idle AppState, SDRAM / SRAM "
          "/ cores / router entries / links differing between the chips of one machine; (f) SCALE: per run 3 (12) cases far "
          "beyond the usual size - machines 1xN / Nx1 / 2xN with N = 1500..4000 as mesh or torus (trees deeper than the "
          "interpreter's recursion limit), the same with dead links near one end so that the dead-link repair handles "
          "subtrees as deep as the machine is long, 420 vertices with nets of 257 / 300 sinks, 257-400 nets through one "
          "chip - and the three empty cases (no vertices, no nets, nets without sinks), judged by the delivery oracle; (g) "
          "every call of the implementation runs under a CPU limit (~100x the largest ordinary call: 10 s, 60 s with the "
          "Python annealer, 120 s for scale cases; 3 / 10 s once two calls did not return): a pipeline that does not return "
          "is the finding `did-not-return` where the stage models are proved to terminate (seqPlace_terminates, "
          "alloc_only_failure, route_only_failure, tables_total, minimiseTable_total), a broken correspondence inside the "
          "annealer / RCM / random placer (no termination theorem)."),
    design="3/C01",
    note=("PROVED: everything about the model pipeline stated above, for all inputs in the domain. Domain restrictions "
          "of the capstone, all named hypotheses (Rig.C01Pipe.Domain / PlacerDomain) and all kept by the generators "
          "(checked per case: tag pipe_in_domain): vertices_resources is a dictionary of dictionaries with non-negative "
          "requirements; alignments >= 1; the core resource has capacity <= 18 on every chip (cores18); a "
          "RouteEndpointConstraint names a link route 0..5 (endpointIsLink), its vertex is pinned by a LocationConstraint "
          "and the link is a dead link of the machine model there - a device is not a chip (endpointDead); nets' key/masks "
          "pairwise non-intersecting (keysDisjoint); for the placers: non-negative chip resources, same-chip groups "
          "not pinned to two chips, reservations fit when there is no vertex, oracle orders list every vertex. "
          "VALIDATED ONLY (differential, every run): that the stage models and the bridge functions are what the Python "
          "code does (stage harnesses C02-C05, C10, C04 + the model-pipeline stream here, sequential placer only for the "
          "whole chain); the hardware rules written in `visit` are trusted. FAILURES: afterPlace_only_failure proves "
          "that after a feasible placement the model pipeline fails only with the allocator's error, "
          "MachineHasDisconnectedSubregion (and only on a machine that is not strongly connected), "
          "MinimisationFailedError, or an impossible oracle / a net naming an unplaced vertex; routing_tree_to_tables never "
          "raises MultisourceRouteError in the domain (tables_total_of_valid). NOT PROVED: that the model pipeline returns "
          "(delivery is conditional on every stage returning ok; the placers' and the allocator's own failure clauses are "
          "those of C02 / C05 and are not re-composed here); "
          "nothing about rig_c_sa (opaque C kernel: judged by the oracle only). The wrappers' vertices_applications / "
          "build_application_map result is independent of delivery and not modelled; the step from the machine's memory to "
          "the SystemInfo is C14's get_system_info_exact / probe_to_machine_exact (SIDomain is what those theorems "
          "establish for every probed machine); wrapper_pipeline_delivers keeps C02's Consistent / EmptyOK / oracle-order "
          "hypotheses stated on the derived constraint list (WPlacerDomain; non-negative chip resources are proved, EmptyOK is "
          "vacuous as soon as there is a vertex: emptyOK_of_vertices). The "
          "wrapper stream runs the whole chain with the sequential placer only (the other placers through the wrappers: "
          "oracle stream (a)). `allocated-core-not-idle` is reported as a violation of THIS property: a packet of a net whose "
          "sink was given a busy or non-existent core is delivered to a core that is not the sink's. A packet returning to a chip already on its path counts as "
          "circulating. CHECKLIST ITEMS NOT APPLICABLE / LEFT AT THE DEFAULT (and why): `nets` and `constraints` as "
          "tuples - documented as lists, rig copies them with [:] and assigns items (tuples fail as soon as a "
          "SameChipConstraint exists); Net(sinks=tuple) - documented: a non-list is ONE vertex; one-shot iterators for "
          "nets / constraints - every stage iterates them again (vertex_order / chip_order iterators are used); numpy ints, "
          "bytes / bytearray / memoryview - no byte string and no place where rig itself passes numpy ints in scope; keys "
          "and masks beyond 32 bits - the property is about 32-bit keys; route(allocations=) left out (default {}) - every "
          "sink then legitimately gets no core route, the property presupposes the allocations were given; "
          "has_wrap_around_links(minimum_working), ner_net / a_star / copy_and_disconnect_tree arguments, minimise_table, "
          "ordered_covering(aliases, no_raise), remove_default_routes.minimise(check_for_aliases) - reached only through "
          "route() / minimise_tables() with the values those pass (C03 / C04 vary them directly); lazily consumed results "
          "(5d) - the pipeline returns dicts and lists, RoutingTree.traverse is C10's; anything counted in 8 or 16 bits - "
          "nothing in scope is (keys 32 bit, routes 24 bit, router entries 1024: more than 1024 entries on a chip is the "
          "documented MinimisationFailedError, exercised by the many-nets scale case through targets); resource amounts "
          "beyond 2**31 with the C annealing kernel - rig_c_sa keeps them in 32-bit ints and raises OverflowError "
          "(reported, kept out of the generator: not this property); an on_temperature_change callback that raises - the "
          "callback faults are injected at the stage callables. NOT DEMANDED (tagged only): that repeating a call gives the "
          "same placement; that a failed call leaves the caller's Machine untouched (the next run with the same objects is "
          "judged like any other)."),
    technique="Lean 4 theorems over a hand-written model + differential correspondence + Lean spec as oracle")

THEOREMS = ["deliveredB_iff", "delivered_no_flag", "deliver_of_tree", "deliver_of_tree_root", "deliver_congr",
            "covered_of_tree", "deliver_minimised", "pipeline_delivery", "ex_hyps", "placement_bridge",
            "allocation_bridge",
            # capstone (Props/C01Pipe.lean)
            "afterPlace_delivers", "afterPlace_placement", "runPlacer_feasible", "model_pipeline_delivers",
            "model_pipeline_no_flag", "expected_cores", "expected_exits", "ex_runs", "ex_domain", "ex_placerDomain",
            "tables_total_of_valid", "afterPlace_only_failure",
            # wrappers (Props/C01Wrap.lean)
            "domain_of_sysinfo", "placerDomain_of_sysinfo", "machine_is_sysinfo", "alloc_idle",
            "wrapper_pipeline_delivers", "wrapper_pipeline_no_flag", "domain_deprecated", "deprecated_pipeline_delivers",
            "exw_runs", "exw_sidomain", "exw_domain", "exw_placerDomain", "allocIdleB_iff",
            "sidomain_of_probe", "probed_wrapper_delivers", "allocIdle_machine_state", "wrapper_only_failure", "emptyOK_of_vertices"]

RULE = ("pipelines on machines 1x1..8x8 (quick) / ..24x24 (thorough), torus / mesh / partly wrapped, dead chips, links dead "
        "in one or both directions, per-chip core-count exceptions, busy cores (monitor + random) as SystemInfo core "
        "states or reservations; 1-40 vertices with 0-4 cores or no core resource, device vertices (location + endpoint "
        "constraint on a dead link), nets with fan-out 0-12, self loops, repeated sinks, weights; keys = id field + "
        "fixed bits + don't-care bits inside a universe of <= 14 active bit positions; placer in {sa-python, sa-c, "
        "hilbert, rcm, breadth_first, sequential, rand} x radius {0,1,2,20} x methods {default, rd, oc, none} x target "
        "{None, 0, small, exact, large} x api {hand-chained (Machine by hand | build_machine + build_core_constraints), "
        "place_and_route_wrapper(SystemInfo), deprecated wrapper} x resource identifiers (each of core / sdram / sram: rig's "
        "default, or a custom string / tuple / object; 35% all default) x placer arguments (4 variants per placer: "
        "vertex_order / chip_order reversed or shuffled, iterator, extra non-existent chip, breadth_first flag, effort) x "
        "route() core_resource passed positionally / by keyword / omitted (default id only) x tables by "
        "routing_tree_to_tables+minimise_tables / build_routing_tables(omit_default_routes True|False) x deprecated "
        "reserve_monitor, align_sdram on/off x vertices_applications empty / non-empty x methods list / tuple; stage "
        "callables given to the wrappers are transparent pass-through recorders. "
        "A case is non-trivial when the pipeline completed and some final table differs from the unminimised one or "
        "some tree was repaired around dead links; distinct = distinct canonical JSON of the problem. Model-pipeline "
        "stream: the same problem generator with placer = sequential, api = hand-chained, every radius / method chain / "
        "target, router draws through the recording FakeRandom; 250 (quick) / 3000 (thorough) problems, every fourth on a "
        "machine with 15-40% dead links. Wrapper-model stream: the same problem generator, placer = sequential, api = "
        "place_and_route_wrapper (3 of 4) / deprecated wrapper (1 of 4, reserve_monitor / align_sdram on and off), every radius "
        "and method chain, targets = the SystemInfo's free router entries (1023 / 0 / 2 / 5 / 12, per-chip exceptions), resource "
        "identifiers default or custom; 100 (quick) / 1000 (thorough) problems, every fourth on a machine with 15-40% dead "
        "links. Sequence stream: 220 (quick) / 2000 (thorough) sequences of 2-4 pipeline runs on "
        "machines 2x1..5x1 / 4x4, placer in {sequential, hilbert, rcm, breadth_first, rand, sa-python}, api in "
        "{hand-chained, build_machine, place_and_route_wrapper with 1-5 free router entries}, methods {default, oc}, target "
        "{None, small}; one 3-6 bit key field per sequence, 2-14 nets per run in 1-4 route groups (half of them forking "
        "at one source chip), keys = non-intersecting blocks of 1-8 keys + 0-2 partly used blocks + 1-3 key/masks taken "
        "from the merges of earlier runs (60%: with a straddling pair of single keys beside them); with probability 0.5 "
        "a run re-uses the previous application and machine under a new key assignment; all keys of every net are "
        "injected. History stream: 30 (quick) / 300 (thorough) histories, problems from the ordinary generator on machines "
        "1x1..6x4 cut to 12 nets, 40% through the SystemInfo entry points, kinds {repeat, twins x2, edit-passed x2 (walk of "
        "4-7 runs between the application and two twins), scribble, keep, alternate, fault}, twin aspects {net-drop, "
        "sink-add, sink-drop, dead-link x3 (one link, or 15% of all links), cores, option, swap-keys, busy-core}. Scale "
        "stream: 3 (quick) / 12 (thorough) cases + the 3 empty cases. Argument kinds / environment: drawn independently "
        "per problem (vertex kind 9 ways, subclasses 30%, collection variant 4 ways, big SDRAM 6 of 10 sizes 40%, non-idle "
        "states 50%, per-chip memory 40%, omitted defaults 40%, big weight 15%, radius from {0, 1, 2, 20, True, 1000, "
        "omitted})")

PLACERS = ["sa-python", "sa-c", "hilbert", "rcm", "breadth_first", "sequential", "rand"]
RADII = [0, 1, 2, 20, True, 1000, None]      # True: a bool is an int; None: the argument is omitted (default 20)


def radius_value(r):
    """the radius the router uses"""
    return 20 if r is None else int(r)

METHODS = {"default": ["rd", "oc"], "rd": ["rd"], "oc": ["oc"], "none": []}
TARGETS = [None, 0, "small", "exact", "large"]
APIS = ["manual", "manual", "manual-sysinfo", "wrapper", "deprecated"]
DOCUMENTED = ("InsufficientResourceError", "InvalidConstraintError", "MachineHasDisconnectedSubregion",
              "MinimisationFailedError")
VECS = c03.VECS
M32 = 0xffffffff


# --------------------------------------------------------------------------------------------
# problem generation (pure JSON)
# --------------------------------------------------------------------------------------------
def gen_keys(rng, n):
    """n pairwise non-intersecting (key, mask) pairs with don't-care bits, all inside <= 14 active bit positions"""
    b = max(1, (max(n, 1) - 1).bit_length())
    extra = rng.choice([0, 1, 2, 3, 4])
    nact = min(14, b + extra)
    pos = sorted(rng.sample(range(32), nact))
    if rng.random() < 0.5:
        lo = rng.randrange(0, 32 - nact + 1)
        pos = list(range(lo, lo + nact))          # contiguous field, as applications lay keys out
    idpos = pos[:b] if rng.random() < 0.5 else pos[-b:]
    other = [p for p in pos if p not in idpos]
    # bits outside the universe: the same for every net - masked with one common value, or don't care
    common_mask = 0
    common_key = 0
    for p in range(32):
        if p not in pos and rng.random() < 0.5:
            common_mask |= 1 << p
            if rng.random() < 0.5:
                common_key |= 1 << p
    ids = list(range(1 << b))
    if rng.random() < 0.5:
        rng.shuffle(ids)
    out = []
    for i in range(n):
        key, mask = common_key, common_mask
        for j, p in enumerate(idpos):
            mask |= 1 << p
            if ids[i] >> j & 1:
                key |= 1 << p
        for p in other:
            r = rng.random()
            if r < 0.5:
                mask |= 1 << p
                if rng.random() < 0.5:
                    key |= 1 << p
        out.append([key, mask])
    return out


def gen_faulty_machine(rng, sizes):
    """machines in which the dead-link repair of the router has real work: 15-40% dead directed links"""
    w, h = rng.choice([s for s in sizes if s[0] * s[1] >= 6] or sizes)
    p = rng.choice([0.15, 0.25, 0.3, 0.4])
    dl = set()
    for x in range(w):
        for y in range(h):
            for l, (dx, dy) in enumerate(VECS):
                if rng.random() < p:
                    dl.add((x, y, l))
                    if rng.random() < 0.4:
                        dl.add(((x + dx) % w, (y + dy) % h, (l + 3) % 6))
    chips = [(x, y) for x in range(w) for y in range(h)]
    dead = rng.sample(chips, rng.choice([0, 1, 1, 2]))
    return dict(w=w, h=h, dead_chips=sorted(map(list, dead)), dead_links=sorted(map(list, dl)))


def gen_problem(rng, sizes, cfg=None, faulty=False):
    mach = gen_faulty_machine(rng, sizes) if faulty else c03.gen_machine(rng, sizes)
    w, h = mach["w"], mach["h"]
    dead = set(map(tuple, mach["dead_chips"]))
    live = [(x, y) for x in range(w) for y in range(h) if (x, y) not in dead]
    dead_links = set(map(tuple, mach["dead_links"]))
    ncores = rng.choice([18, 18, 17, 8, 4])
    exc = []
    for c in live:
        if rng.random() < 0.15:
            exc.append([c[0], c[1], max(1, ncores - rng.choice([1, 2, 5]))])
    cores_at = {c: ncores for c in live}
    for x, y, k in exc:
        cores_at[(x, y)] = k
    busy = {}
    mon = rng.random() < 0.85
    for c in live:
        b = set([0]) if mon else set()
        if rng.random() < 0.3:
            for _ in range(rng.choice([1, 2, 3])):
                b.add(rng.randrange(cores_at[c]))
        busy[c] = sorted(b)
    free_total = sum(cores_at[c] - len(busy[c]) for c in live)
    # vertices
    nv = rng.choice([1, 2, 3, 4, 6, 8, 10, 14, 20, 30, 40])
    vr = []
    need = 0
    for v in range(nv):
        r = rng.random()
        k = None if r < 0.08 else (0 if r < 0.14 else rng.choice([1, 1, 1, 2, 2, 3, 4]))
        if faulty:
            k = 1
        if k and need + k > 0.5 * free_total:
            k = 1 if need + 1 <= 0.7 * free_total else 0
        need += k or 0
        vr.append([v, k, rng.choice([0, 0, 4, 100, 1000])])
    # devices: zero-core vertices pinned to a chip with an endpoint link that is dead
    devices = []
    for _ in range(rng.choice([0, 0, 0, 1, 1, 2, 3])):
        c = rng.choice(live)
        cand = [l for l in range(6) if (c[0], c[1], l) in dead_links]
        if cand and rng.random() < 0.7:
            l = rng.choice(cand)
        else:
            l = rng.randrange(6)
            dead_links.add((c[0], c[1], l))
        if any(d[1] == c[0] and d[2] == c[1] and d[3] == l for d in devices):
            continue
        v = len(vr)
        vr.append([v, rng.choice([None, None, 0]), 0])
        devices.append([v, c[0], c[1], l])
    nvt = len(vr)
    # nets
    nn = rng.choice([1, 1, 2, 3, nvt, nvt, 2 * nvt, 60])
    nn = max(1, min(nn, 60))
    nets = []
    for _ in range(nn):
        src = rng.randrange(nvt)
        fan = rng.choice([0, 1, 1, 2, 2, 3, 4, 6, 8, 12])
        if faulty:
            fan = rng.choice([3, 4, 6, 8, 12])
        sinks = []
        for _ in range(fan):
            r = rng.random()
            if r < 0.08 and sinks:
                sinks.append(rng.choice(sinks))
            elif r < 0.14:
                sinks.append(src)
            elif r < 0.3 and devices:
                sinks.append(rng.choice(devices)[0])
            else:
                sinks.append(rng.randrange(nvt))
        nets.append([src, sinks, rng.choice([1, 1, 2, 0.5, 0])])
    if rng.random() < 0.3 and len(nets) > 1:
        # nets with the same source and sinks (different keys): adjacent ids, the minimiser merges them
        for _ in range(rng.randrange(1, 6)):
            s, k, wt = rng.choice(nets)
            nets.append([s, list(k), wt])
        nets = nets[:60]
    keys = gen_keys(rng, len(nets))
    # extra constraints
    cs = []
    pinned = set(d[0] for d in devices)
    for _ in range(rng.choice([0, 0, 1, 2, 3])):
        v = rng.randrange(nv)
        if v not in pinned:
            pinned.add(v)
            c = rng.choice(live)
            if (vr[v][1] or 0) + 1 + len(busy[c]) > cores_at[c] and rng.random() < 0.9:
                continue
            cs.append({"t": "loc", "v": v, "c": list(c)})
    if nv >= 2 and rng.random() < 0.25:
        a, b2 = rng.sample(range(nv), 2)
        if a not in pinned and b2 not in pinned:
            cs.append({"t": "same", "vs": [a, b2]})
    rtr = rng.choice([1023, 1023, 1023, 1023, 1023, 0, 2, 5, 12])
    prob = dict(w=w, h=h, dead_chips=mach["dead_chips"], dead_links=sorted(map(list, dead_links)),
                ncores=ncores, exc=exc, busy=[[c[0], c[1], busy[c]] for c in live if busy[c]],
                sdram=rng.choice([5000, 100000]), rtr=rtr,
                rtr_exc=[[c[0], c[1], rng.choice([0, 1, 3, 1023])] for c in live if rng.random() < 0.05],
                vr=vr, devices=devices, nets=[[s, k, wt, keys[i][0], keys[i][1]] for i, (s, k, wt) in enumerate(nets)],
                cs=cs, seed=rng.randrange(1 << 30),
                c03_rseed=rng.randrange(1 << 30) if rng.random() < 0.5 else None)
    prob["cfg"] = cfg or gen_cfg(rng)
    return prob


def gen_res_ids(rng):
    """the resource identifiers the caller names: None = rig's default sentinel (Cores / SDRAM / SRAM), otherwise an
    application-defined identifier [kind, name] (a string, a fresh object, or a tuple)"""
    if rng.random() < 0.35:
        return dict(cores=None, sdram=None, sram=None)

    def one(name):
        return None if rng.random() < 0.35 else [rng.choice(["str", "obj", "tuple"]), name]
    return dict(cores=one("my-cores"), sdram=one("my-sdram"), sram=one("my-sram"))


def gen_extras(rng):
    """the 'unusual but legal' arguments of the pipeline stages and wrappers"""
    return dict(res=gen_res_ids(rng),
                reserve_monitor=rng.random() < 0.6, align_sdram=rng.random() < 0.6,     # deprecated wrapper()
                pvar=rng.randrange(4),                   # placer arguments: orders / breadth_first flag / effort
                apps=rng.random() < 0.5,                 # non-empty vertices_applications
                route_call=rng.choice(["pos", "kw", "omit"]),        # how the hand-chained caller names core_resource
                tables_api=rng.choice(["rt2t", "rt2t", "rt2t", "brt", "brt-keep"]),   # deprecated build_routing_tables
                methods_tuple=rng.random() < 0.5, kwargs_style=rng.choice(["dict", "none"]),
                **gen_kinds(rng))


VKINDS = ["int", "int", "str", "tuple", "namedtuple", "frozenset", "obj", "bigint", "mixed"]


def gen_kinds(rng):
    """the KINDS of the arguments (checklist: every argument in every kind the API legally accepts) and the
    environment parameters every earlier generator fixed"""
    return dict(
        vkind=rng.choice(VKINDS),                  # what a vertex is: any hashable
        # what a key / mask is: int, or a signed NumPy scalar / IntEnum member with the same value (keys are often computed with
        # NumPy: fixed-width scalars overflow where Python ints do not, e.g. in `key << 32`).  NumPy UNSIGNED scalars are outside
        # the domain: with them the unchanged minimisers raise OverflowError (`~mask` / negative Python ints against uint32 /
        # uint64 under NumPy 2); keys are documented as ints.
        keykind=rng.choice(["int"] * 7 + ["np_int64", "np_int64", "intenum"]),
        subclass=rng.random() < 0.3,               # instances of subclasses of rig's Machine / Net / constraints / entries
        coll=rng.randrange(4),                     # tuples / frozensets / OrderedDict / defaultdict where a collection goes
        big=rng.choice([None, None, None, None, 31, 32, 53, 63, 64, 100]),   # SDRAM quantities around 2**big
        states=rng.random() < 0.5,                 # busy cores in every non-idle AppState, not only `run`
        memvar=rng.random() < 0.4,                 # SDRAM / SRAM differ between the chips of one machine
        omit=rng.random() < 0.4,                   # optional arguments at their default are not passed at all
        big_weight=rng.random() < 0.15)


def gen_cfg(rng, i=None):
    cfg = dict(placer=PLACERS[i % len(PLACERS)] if i is not None else rng.choice(PLACERS),
               radius=rng.choice(RADII), methods=rng.choice(["default", "default", "rd", "oc", "none"]),
               target=rng.choice(TARGETS + [None, None, "large", "large"]), target_dict=rng.random() < 0.5,
               api=rng.choice(APIS))
    cfg.update(gen_extras(rng))
    if cfg["placer"] == "sa-c":
        # the C kernel keeps resource amounts in 32-bit ints (OverflowError beyond; reported, outside this property)
        cfg["big"] = None
    return cfg


class ResId(object):
    """an application-defined resource identifier (hashable by identity, like rig's own sentinels)"""

    def __init__(self, name):
        self.name = name

    def __repr__(self):
        return "<ResId %s>" % self.name


def res_ids(prob):
    """-> (core_resource, sdram_resource, sram_resource) as python objects (fresh per call for kind obj)"""
    from rig.place_and_route import Cores, SDRAM, SRAM
    spec = prob["cfg"].get("res") or {}
    out = []
    for fld, dflt in (("cores", Cores), ("sdram", SDRAM), ("sram", SRAM)):
        r = spec.get(fld)
        if r is None:
            out.append(dflt)
        elif r[0] == "str":
            out.append(str(r[1]) + " %s {} {0}")       # format characters: identifiers end up in error messages
        elif r[0] == "tuple":
            out.append(("resource", str(r[1]), "%d"))
        else:
            out.append(ResId(r[1]))
    return tuple(out)


# --------------------------------------------------------------------------------------------
# python objects
# --------------------------------------------------------------------------------------------
class VObj(object):
    """a vertex that is a plain object (hashable by identity)"""

    def __init__(self, n):
        self.n = n

    def __repr__(self):
        return "<vertex %d>" % self.n


def vertex_objects(prob):
    """int vertex of the problem description -> the hashable object the caller uses as that vertex"""
    import collections
    kind = prob["cfg"].get("vkind") or "int"
    VT = collections.namedtuple("VT", "index label")
    kinds = ["str", "tuple", "namedtuple", "frozenset", "obj", "bigint", "int"]
    out = {}
    for v, _, _ in prob["vr"]:
        k = kinds[v % len(kinds)] if kind == "mixed" else kind
        if k == "str":
            out[v] = "v%d %%s {} {0} %%" % v
        elif k == "tuple":
            out[v] = [(), (v,), ("v", v), ("a", v, "{}%s")][v % 4] if v else ()
            if v and out[v] == ():
                out[v] = (v, v)
        elif k == "namedtuple":
            out[v] = VT(v, "x")
        elif k == "frozenset":
            out[v] = frozenset([v, "v"])
        elif k == "obj":
            out[v] = VObj(v)
        elif k == "bigint":
            out[v] = v + [1 << 31, 1 << 32, (1 << 53) + 1, 1 << 63, 1 << 64, 1 << 100][v % 6]
        else:
            out[v] = v
    return out


_SUBCLASSES = {}


def subclasses():
    """trivial subclasses of rig's own classes (re-made when the rig modules were reloaded)"""
    from rig.place_and_route import Machine
    from rig.place_and_route.constraints import (LocationConstraint, SameChipConstraint, ReserveResourceConstraint,
                                                 RouteEndpointConstraint)
    from rig.netlist import Net
    from rig.routing_table import RoutingTableEntry
    if _SUBCLASSES.get("base") is not Machine:
        _SUBCLASSES.clear()
        _SUBCLASSES["base"] = Machine
        for name, base in (("Machine", Machine), ("Net", Net), ("Loc", LocationConstraint), ("Same", SameChipConstraint),
                           ("Res", ReserveResourceConstraint), ("Ep", RouteEndpointConstraint),
                           ("RTE", RoutingTableEntry)):
            _SUBCLASSES[name] = type("My" + base.__name__, (base,), {"__slots__": ()} if name == "RTE" else {})
    return _SUBCLASSES


class SinkList(list):
    """a list subclass (Net copies `sinks` when it is a list)"""


def chip_memory(prob):
    """(x, y) -> (sdram, sram) of the chip; with `memvar` the chips of one machine differ"""
    base = prob["sdram"]
    big = prob["cfg"].get("big")
    if big:
        base += (1 << big) + (1 if big == 53 else 0)
    out = {}
    r = _random.Random(prob["seed"] ^ 0x2545f)
    for c in sorted(cores_map(prob)):
        if prob["cfg"].get("memvar") and r.random() < 0.5:
            out[c] = (base + r.choice([-prob["sdram"] // 2, 1000000, 4, 0]), r.choice([0, 5, 1000, 1 << 20]))
        else:
            out[c] = (base, 1000)
    return out


def busy_map(prob):
    return {(x, y): list(b) for x, y, b in prob["busy"]}


def cores_map(prob):
    dead = set(map(tuple, prob["dead_chips"]))
    m = {(x, y): prob["ncores"] for x in range(prob["w"]) for y in range(prob["h"]) if (x, y) not in dead}
    for x, y, k in prob["exc"]:
        m[(x, y)] = k
    return m


def build_sysinfo(prob):
    from rig.machine_control.machine_controller import SystemInfo, ChipInfo
    from rig.machine_control.consts import AppState
    from rig.links import Links
    dl = set(map(tuple, prob["dead_links"]))
    busy = busy_map(prob)
    rtr = {(x, y): k for x, y, k in prob["rtr_exc"]}
    chips = {}
    mem = chip_memory(prob)
    nonidle = [st for st in AppState if st != AppState.idle]
    r = _random.Random(prob["seed"] ^ 0x51f15)
    for (x, y), k in cores_map(prob).items():
        states = [(r.choice(nonidle) if prob["cfg"].get("states") else AppState.run)
                  if i in busy.get((x, y), ()) else AppState.idle for i in range(k)]
        chips[(x, y)] = ChipInfo(num_cores=k, core_states=states,
                                 working_links=set(Links(l) for l in range(6) if (x, y, l) not in dl),
                                 largest_free_sdram_block=mem[(x, y)][0], largest_free_sram_block=mem[(x, y)][1],
                                 largest_free_rtr_mc_block=rtr.get((x, y), prob["rtr"]),
                                 ethernet_up=(x, y) == (0, 0), ip_address="127.0.0.1", local_ethernet_chip=(0, 0))
    return SystemInfo(prob["w"], prob["h"], chips)


def runs_of(cores):
    out = []
    for c in sorted(cores):
        if out and out[-1][1] == c:
            out[-1][1] = c + 1
        else:
            out.append([c, c + 1])
    return out


def build(prob, reuse=None):
    """-> dict of python objects for the implementation; `reuse` = objects of an earlier build whose resource
    identifiers and vertex objects are to be used again (the same caller maps a second application)"""
    from rig.place_and_route import Machine
    from rig.place_and_route.constraints import (LocationConstraint, SameChipConstraint, ReserveResourceConstraint,
                                                 RouteEndpointConstraint)
    from rig.routing_table import Routes
    from rig.links import Links
    from rig.netlist import Net
    import collections
    cfg = prob["cfg"]
    api = cfg["api"]
    coll = cfg.get("coll") or 0
    if cfg.get("subclass"):
        sub = subclasses()
        Machine, Net = sub["Machine"], sub["Net"]
        LocationConstraint, SameChipConstraint = sub["Loc"], sub["Same"]
        ReserveResourceConstraint, RouteEndpointConstraint = sub["Res"], sub["Ep"]
    # the identifiers the caller names (default or application-defined)
    Cores, SDRAM, SRAM = ids = reuse["ids"] if reuse else res_ids(prob)
    V = vertex_objects(prob)
    if reuse:
        for v in V:
            if v in reuse["V"]:
                V[v] = reuse["V"][v]
    vr = collections.OrderedDict()
    for v, k, sd in prob["vr"]:
        d = {}
        if k is not None:
            d[Cores] = k
        if sd:
            d[SDRAM] = sd
        vr[V[v]] = d
    wbig = (1 << 100) if cfg.get("big_weight") else None
    nets = [Net(V[s], (SinkList if coll == 1 else list)(V[x] for x in k), wbig if (wbig and wt) else wt)
            for s, k, wt, _, _ in prob["nets"]]
    kk = cfg.get("keykind", "int")
    if kk.startswith("np_"):
        import numpy
        mkk = getattr(numpy, kk[3:])
    elif kk == "intenum":
        import enum
        mkk = lambda v: enum.IntEnum("K", {"k%d" % v: v})["k%d" % v]
    else:
        mkk = int
    net_keys = (collections.OrderedDict if coll == 2 else dict)((n, (mkk(p[3]), mkk(p[4]))) for n, p in zip(nets, prob["nets"]))
    cs = []
    for v, x, y, l in prob["devices"]:
        cs.append(LocationConstraint(V[v], (x, y)))
        cs.append(RouteEndpointConstraint(V[v], Routes(l)))
    for c in prob["cs"]:
        if c["t"] == "loc":
            cs.append(LocationConstraint(V[c["v"]], tuple(c["c"])))
        else:
            cs.append(SameChipConstraint((tuple if coll == 3 else list)(V[x] for x in c["vs"])))
    o = dict(vr=vr, nets=nets, net_keys=net_keys, user_cs=cs, sysinfo=build_sysinfo(prob), ids=ids, V=V,
             Vinv={obj: v for v, obj in V.items()},
             apps=({V[v]: "app%d.aplx" % (v % 3) for v, _, _ in prob["vr"]} if cfg.get("apps") else {}))
    if api in ("manual", "deprecated"):
        cm = cores_map(prob)
        mem = chip_memory(prob)
        dflt = mem[min(mem)] if mem else (prob["sdram"], 1000)
        big = cfg.get("big")
        o["machine"] = Machine(prob["w"], prob["h"],
                               chip_resources={Cores: prob["ncores"], SDRAM: dflt[0], SRAM: dflt[1]},
                               chip_resource_exceptions={c: {Cores: k, SDRAM: mem[c][0], SRAM: mem[c][1]}
                                                         for c, k in cm.items() if k != prob["ncores"] or mem[c] != dflt},
                               dead_chips=(frozenset if coll == 3 else set)(map(tuple, prob["dead_chips"])),
                               dead_links=(frozenset if coll == 3 else set)(
                                   (x, y, Links(l)) for x, y, l in prob["dead_links"]))
        res = []
        busy = busy_map(prob)
        # the deprecated wrapper reserves core 0 itself (unless told not to: reserve_monitor=False)
        skip0 = api == "deprecated" and prob["cfg"].get("reserve_monitor", True)
        glob0 = skip0 or (all(0 in busy.get(c, ()) for c in cm) and bool(cm))
        if glob0 and not skip0:
            res.append(ReserveResourceConstraint(Cores, slice(0, 1)))
        for c, b in busy.items():
            for a, e in runs_of([i for i in b if not (glob0 and i == 0)]):
                res.append(ReserveResourceConstraint(Cores, slice(a, e), c))
        if big:
            # everything below 2**big is in use: the allocator works with positions beyond it
            res.append(ReserveResourceConstraint(SDRAM, slice(0, (1 << big) + (1 if big == 53 else 0))))
        o["cs"] = res + cs
    return o


def placer_call(name, seed, prob=None, V=None):
    """-> (function, kwargs); `pvar` of the configuration selects the optional arguments of the placer"""
    from rig.place_and_route.place import sequential, breadth_first, hilbert, rcm, rand
    from rig.place_and_route.place.sa import algorithm as sa
    pvar = (prob["cfg"].get("pvar") or 0) if prob is not None else 0
    r = _random.Random(seed ^ 0x3c6e)

    def chip_order():
        # every working chip exactly once; dead / non-existent coordinates are allowed and skipped
        cs = [(x, y) for x in range(prob["w"]) for y in range(prob["h"])]
        if pvar == 1:
            cs.reverse()
        else:
            r.shuffle(cs)
            cs.insert(r.randrange(len(cs) + 1), (prob["w"] + 2, 0))
        return cs
    if name == "sequential":
        kw = {}
        if pvar in (1, 3):
            vo = [V[v] if V else v for v, _, _ in prob["vr"]]
            if pvar == 1:
                vo.reverse()
            else:
                r.shuffle(vo)
            kw["vertex_order"] = vo if pvar == 1 else iter(vo)
        if pvar in (1, 2):
            kw["chip_order"] = chip_order()
        return sequential.place, kw
    if name == "breadth_first":
        return breadth_first.place, ({"chip_order": chip_order()} if pvar in (1, 2) else {})
    if name == "hilbert":
        return hilbert.place, ({"breadth_first": False} if pvar in (1, 3) else {})
    if name == "rcm":
        return rcm.place, {}
    if name == "rand":
        return rand.place, {"random": _random.Random(seed)}
    temps = [0]

    def on_temp(*a):
        temps[0] += 1
        if temps[0] >= 3:
            return False
    kw = {"random": _random.Random(seed), "effort": 0.1 if pvar < 2 else 0.3, "on_temperature_change": on_temp}
    if name == "sa-python":
        from rig.place_and_route.place.sa.python_kernel import PythonKernel
        kw.update(kernel=PythonKernel, kernel_kwargs={"no_warn": True})
    else:
        from rig.place_and_route.place.sa.c_kernel import CKernel
        kw.update(kernel=CKernel)
    return sa.place, kw


def impl_methods(names):
    return c04.impl_methods(names)


def target_for(cfg, n):
    t = cfg["target"]
    if t is None or isinstance(t, int):
        return t
    return {"small": max(1, n // 2), "exact": n, "large": n + 10}[t]


class InjectedFault(Exception):
    """raised by a stage callable of the harness (a caller's callback may fail)"""


_HANGS = [0]


def cpu_budget(prob):
    """CPU seconds one pipeline run may use: ~100x what the largest ordinary case needs; 3 s (annealer: 10 s) once
    two calls have not returned in this run"""
    # ordinary cases: <= 0.13 s (the Python annealer: <= 1.7 s); scale cases: <= 1 s
    slow = prob["cfg"].get("placer") == "sa-python"
    if _HANGS[0] >= 2:
        return 10 if slow else 3
    return 120 if prob.get("scale") else (60 if slow else 10)


def run_pipeline(prob, o=None, fail_at=None):
    """run the real pipeline; -> dict(status, placements, allocations, routes, tables0, tables1, targets, methods)
    `o`: python objects to use (a caller calling again with the objects it already has); `fail_at`: the stage whose
    callable raises InjectedFault (once) instead of running.

    The caller's view of the public interface is exercised as a user may legally use it: the three resource
    identifiers are rig's defaults or application-defined objects (passed to the wrappers / to build_machine,
    build_core_constraints, Machine, route), the stage functions are handed to the wrappers as custom callables
    (transparent pass-through recorders: whatever the wrapper passes is what the stage receives), with their
    optional keyword arguments, and the deprecated entry points are used with their optional flags."""
    import rig.place_and_route as pr
    from rig.place_and_route.utils import build_machine, build_core_constraints, build_routing_tables
    from rig.routing_table import routing_tree_to_tables, minimise_tables, remove_default_routes
    from rig.routing_table.utils import build_routing_table_target_lengths
    import rig.geometry as geometry
    from rig.place_and_route.route import utils as rutils
    import warnings
    import collections
    from . import common
    cfg = prob["cfg"]
    if o is None:
        o = build(prob)
    core_id, sdram_id, sram_id = o["ids"]
    custom = {"cores": core_id is not pr.Cores, "sdram": sdram_id is not pr.SDRAM, "sram": sram_id is not pr.SRAM}
    coll = cfg.get("coll") or 0
    omit = bool(cfg.get("omit"))
    _random.seed(prob["seed"])          # geometry.py / route/utils.py draw from the global generator
    orig_random = (geometry.random, rutils.random)
    if prob.get("c03_rseed") is not None:
        # the tie-provoking stand-in of the C03 harness (module attribute, no source change)
        geometry.random = rutils.random = c03.FakeRandom(prob["c03_rseed"], [])
    place, pkw = placer_call(cfg["placer"], prob["seed"] ^ 0x5bd1, prob, o["V"])
    rec = {}

    # custom stage callables: transparent pass-through (no assumption on how the wrapper calls them)
    def rec_place(*a, **kw):
        if fail_at == "place":
            raise InjectedFault("place")
        rec["placements"] = place(*a, **kw)
        return rec["placements"]

    def rec_alloc(*a, **kw):
        if fail_at == "allocate":
            raise InjectedFault("allocate")
        rec["allocations"] = pr.allocate(*a, **kw)
        return rec["allocations"]

    def rec_route(*a, **kw):
        if fail_at == "route":
            raise InjectedFault("route")
        rec["routes"] = pr.route(*a, **kw)
        return rec["routes"]
    out = dict(o=o, methods=METHODS[cfg["methods"]])
    meths = impl_methods(out["methods"])
    if fail_at == "minimise" and meths:
        first = meths[0]

        def failing_method(table, target_length):
            raise InjectedFault("minimise")
        meths = [failing_method] + list(meths[1:])
    if cfg.get("methods_tuple"):
        meths = tuple(meths)
    rkw = {} if cfg["radius"] is None else {"radius": cfg["radius"]}
    user_cs = o["user_cs"]
    # keyword arguments of the wrappers that are only named when they differ from the default / when asked to
    wkw = {}
    if custom["cores"] or cfg.get("kwargs_style") == "dict":
        wkw["core_resource"] = core_id
    if custom["sdram"] or cfg.get("kwargs_style") == "dict":
        wkw["sdram_resource"] = sdram_id
    try:
        with warnings.catch_warnings(), common.cpu_limit(cpu_budget(prob)):
            warnings.simplefilter("ignore")
            if cfg["api"] == "wrapper":
                out["stage"] = "wrapper"
                if custom["sram"] or cfg.get("kwargs_style") == "dict":
                    wkw["sram_resource"] = sram_id
                if cfg.get("kwargs_style") == "dict":
                    wkw["allocate_kwargs"] = {}
                if not (omit and out["methods"] == ["rd", "oc"] and fail_at != "minimise"):
                    wkw["minimise_tables_methods"] = meths
                if not (omit and not rkw):
                    wkw["route_kwargs"] = rkw
                if omit and not user_cs:
                    # `constraints` left at its default
                    _, _, _, final = pr.place_and_route_wrapper(
                        o["vr"], o["apps"], o["nets"], o["net_keys"], o["sysinfo"],
                        place=rec_place, place_kwargs=pkw, allocate=rec_alloc, route=rec_route, **wkw)
                else:
                    _, _, _, final = pr.place_and_route_wrapper(
                        o["vr"], o["apps"], o["nets"], o["net_keys"], o["sysinfo"], user_cs,
                        place=rec_place, place_kwargs=pkw, allocate=rec_alloc, route=rec_route, **wkw)
                out["targets"] = build_routing_table_target_lengths(o["sysinfo"])
                out["tables0"] = routing_tree_to_tables(rec["routes"], o["net_keys"])
            elif cfg["api"] == "deprecated":
                out["stage"] = "wrapper"
                out["methods"] = ["rd-only"]
                if not cfg.get("reserve_monitor", True):
                    wkw["reserve_monitor"] = False
                if not cfg.get("align_sdram", True):
                    wkw["align_sdram"] = False
                _, _, _, final = pr.wrapper(o["vr"], o["apps"], o["nets"], o["net_keys"], o["machine"], o["cs"],
                                            place=rec_place, place_kwargs=pkw, allocate=rec_alloc, route=rec_route,
                                            route_kwargs=rkw, **wkw)
                out["targets"] = None
                out["tables0"] = routing_tree_to_tables(rec["routes"], o["net_keys"])
            else:
                if cfg["api"] == "manual-sysinfo":
                    if any(custom.values()) or cfg.get("kwargs_style") == "dict":
                        machine = build_machine(o["sysinfo"], core_resource=core_id, sdram_resource=sdram_id,
                                                sram_resource=sram_id)
                        cs = build_core_constraints(o["sysinfo"], core_id) + o["user_cs"]
                    else:
                        machine = build_machine(o["sysinfo"])
                        cs = build_core_constraints(o["sysinfo"]) + o["user_cs"]
                else:
                    machine, cs = o["machine"], o["cs"]
                allkw = cfg.get("kwargs_style") == "dict" and omit
                out["stage"] = "place"
                if allkw:
                    rec_place(vertices_resources=o["vr"], nets=o["nets"], machine=machine, constraints=cs, **pkw)
                else:
                    rec_place(o["vr"], o["nets"], machine, cs, **pkw)
                out["stage"] = "allocate"
                if allkw:
                    rec_alloc(vertices_resources=o["vr"], nets=o["nets"], machine=machine, constraints=cs,
                              placements=rec["placements"])
                else:
                    rec_alloc(o["vr"], o["nets"], machine, cs, rec["placements"])
                out["stage"] = "route"
                how = cfg.get("route_call", "pos")
                if allkw:
                    rec_route(vertices_resources=o["vr"], nets=o["nets"], machine=machine, constraints=cs,
                              placements=rec["placements"], allocations=rec["allocations"], core_resource=core_id, **rkw)
                elif how == "omit" and not custom["cores"]:
                    rec_route(o["vr"], o["nets"], machine, cs, rec["placements"], rec["allocations"], **rkw)
                elif how == "kw":
                    rec_route(o["vr"], o["nets"], machine, cs, rec["placements"], allocations=rec["allocations"],
                              core_resource=core_id, **rkw)
                else:
                    rec_route(o["vr"], o["nets"], machine, cs, rec["placements"], rec["allocations"], core_id, **rkw)
                out["stage"] = "tables"
                out["tables0"] = routing_tree_to_tables(rec["routes"], o["net_keys"])
                out["stage"] = "minimise"
                tapi = cfg.get("tables_api", "rt2t")
                if tapi == "brt":
                    # the deprecated table builder, default routes omitted
                    final = build_routing_tables(rec["routes"], o["net_keys"])
                    out["methods"] = ["rd-only"]
                    out["targets"] = None
                elif tapi == "brt-keep":
                    final = build_routing_tables(rec["routes"], o["net_keys"], omit_default_routes=False)
                    out["targets"] = "skip"
                elif cfg["methods"] == "none" and cfg["target"] is None:
                    final = dict(out["tables0"])
                    out["targets"] = "skip"
                else:
                    if cfg["target_dict"] or not (cfg["target"] is None or isinstance(cfg["target"], int)):
                        out["targets"] = {c: target_for(cfg, len(t)) for c, t in out["tables0"].items()}
                    else:
                        out["targets"] = cfg["target"]
                    tabs = out["tables0"]
                    if cfg.get("subclass"):
                        # the caller's tables hold instances of a subclass of RoutingTableEntry
                        RTE = subclasses()["RTE"]
                        tabs = {c: [RTE(*e) for e in t] for c, t in tabs.items()}
                    if coll == 2:
                        tabs = collections.OrderedDict(tabs)
                    tg = out["targets"]
                    if isinstance(tg, dict) and coll == 1:
                        d = collections.defaultdict(lambda: None)
                        d.update(tg)
                        tg = d
                    if omit and out["methods"] == ["rd", "oc"] and fail_at != "minimise":
                        final = minimise_tables(tabs, tg)          # `methods` left at its default
                    elif cfg.get("kwargs_style") == "dict":
                        final = minimise_tables(routing_tables=tabs, target_lengths=tg, methods=meths)
                    else:
                        final = minimise_tables(tabs, tg, meths)
        out["status"] = "ok"
        out["tables1"] = final
    except (ImportError, SyntaxError):
        raise
    except common.ImplHang as e:
        _HANGS[0] += 1
        out["status"] = "DidNotReturn"
        out["error"] = e
        out["traceback"] = str(e)
    except Exception as e:      # noqa
        name = type(e).__name__
        out["status"] = name
        out["error"] = e
        if name not in DOCUMENTED:
            import traceback
            out["traceback"] = traceback.format_exc()[-1500:]
    finally:
        geometry.random, rutils.random = orig_random
    out.update(rec)
    return out


# --------------------------------------------------------------------------------------------
# canonical forms for the Lean side
# --------------------------------------------------------------------------------------------
def tree_c10(node):
    """RoutingTree -> C10 JSON {"c": [x, y], "k": [[route|None, subtree|None], ...]} (children in order)"""
    from rig.place_and_route.routing_tree import RoutingTree
    ks = []
    for r, ch in node.children:
        ks.append([None if r is None else int(r), tree_c10(ch) if isinstance(ch, RoutingTree) else None])
    return {"c": [node.chip[0], node.chip[1]], "k": ks}


def int_leaves(tree, vinv):
    """the vertices on the leaves of a nested tree (c03.nest) back to the problem's vertex numbers"""
    x, y, subs, leaves = tree
    return [x, y, [[d, int_leaves(t, vinv)] for d, t in subs], [[r, vinv[v]] for r, v in leaves]]


def tree_c03(node, budget):
    """RoutingTree -> C03 JSON [x, y, [[dir, tree]...], [[route|None, vertex]...]]"""
    return c03.nest(node, budget)


def count_nodes(node, seen=None):
    from rig.place_and_route.routing_tree import RoutingTree
    n = 1
    for r, ch in node.children:
        if isinstance(ch, RoutingTree):
            n += count_nodes(ch)
    return n


OUTSIDE_KEY_SPACE = [0]      # entries of the implementation's tables with a key / mask outside 0 .. 2**32 - 1 (this run)


def tables_c04(tables):
    """the implementation's tables as plain data.  A router entry is a 32-bit key and a 32-bit mask: an entry whose key or
    mask lies outside 0 .. 2**32 - 1 cannot be loaded and matches no packet, so it is left out here (counted, tagged) and the
    delivery oracle then says concretely which packets are no longer delivered.  Never happens on the unchanged tree."""
    out = {}
    for c, t in tables.items():
        es = []
        for e in c04.from_impl(t):
            k, m = int(e[1]), int(e[2])
            if 0 <= k <= M32 and 0 <= m <= M32:
                es.append([e[0], k, m, e[3]])
            else:
                OUTSIDE_KEY_SPACE[0] += 1
        out[c] = es
    return out


def x_fillings(rng, key, mask, n):
    free = ~mask & M32
    ks = [key & mask]
    if n == "all" and bin(free).count("1") <= 7:
        # every key the key/mask matches
        bits = [1 << i for i in range(32) if free >> i & 1]
        return [(key & mask) | sum(b for j, b in enumerate(bits) if i >> j & 1) for i in range(1 << len(bits))]
    if n == "all":
        n = 8
    if free:
        ks.append((key & mask) | free)
        for _ in range(n):
            ks.append((key & mask) | (rng.getrandbits(32) & free))
    seen, out = set(), []
    for k in ks:
        if k not in seen:
            seen.add(k)
            out.append(k)
    return out


def expected(prob, out):
    """per net: (source chip, cores [[x,y,p]], exits [[x,y,l]]) from placements/allocations/constraints only"""
    Cores = out["o"]["ids"][0]        # the cores resource identifier the caller named
    dev = {d[0]: d for d in prob["devices"]}
    V = out["o"]["V"]
    pl = {v: out["placements"][obj] for v, obj in V.items() if obj in out["placements"]}
    al = {v: out["allocations"][obj] for v, obj in V.items() if obj in out["allocations"]}
    res = []
    for s, sinks, wt, key, mask in prob["nets"]:
        cores, exits = set(), set()
        for v in sinks:
            x, y = pl[v]
            if v in dev:
                exits.add((x, y, dev[v][3]))
            else:
                sl = al.get(v, {}).get(Cores)
                if sl is not None:
                    for p in range(sl.start, sl.stop):
                        cores.add((x, y, p))
        res.append((list(pl[s]), sorted(map(list, cores)), sorted(map(list, exits))))
    return res


def mach_json(prob):
    return dict(w=prob["w"], h=prob["h"], dead_chips=prob["dead_chips"], dead_links=prob["dead_links"])


# --------------------------------------------------------------------------------------------
# judging one pipeline run
# --------------------------------------------------------------------------------------------
def lean_requests(prob, out, rng):
    """-> (requests, index) ; index entries are tags describing each request"""
    reqs, idx = [], []
    mj = mach_json(prob)
    nets = out["o"]["nets"]
    routes = out["routes"]
    exp = expected(prob, out)
    # 1. the oracle: deliver on the final tables
    t1 = out["_t1"] = tables_c04(out["tables1"])
    queries = []
    qmeta = []
    for i, (n, p) in enumerate(zip(nets, prob["nets"])):
        for k in x_fillings(rng, p[3], p[4], prob.get("fill", 3)):
            queries.append({"src": exp[i][0], "key": k, "cores": exp[i][1], "exits": exp[i][2]})
            qmeta.append((i, k))
    reqs.append(dict(mj, suite="c01", op="deliver", tables=[[c[0], c[1], t] for c, t in t1.items()],
                     dev=[[d[1], d[2], d[3]] for d in prob["devices"]], queries=queries))
    idx.append(("deliver", qmeta))
    # 1b. same packets on the unminimised tables (localises a failure to the minimiser)
    t0 = out["_t0"] = tables_c04(out["tables0"])
    reqs.append(dict(mj, suite="c01", op="deliver", tables=[[c[0], c[1], t] for c, t in t0.items()],
                     dev=[[d[1], d[2], d[3]] for d in prob["devices"]], queries=queries))
    idx.append(("deliver0", qmeta))
    if prob.get("scale") or prob.get("light"):
        # far beyond the usual size / inside a history: the delivery oracle only (the stage ties are exercised by
        # the ordinary stream)
        return reqs, idx
    # 1c. allocated cores are idle cores of the SystemInfo (`Rig.C01Wrap.allocBad`, the decided form of `AllocIdle` of
    # wrapper_pipeline_delivers / alloc_idle) whenever machine and constraints were derived from a SystemInfo
    if prob["cfg"]["api"] in ("wrapper", "manual-sysinfo"):
        reqs.append(alloc_idle_request(prob, out))
        idx.append(("alloc_idle", None))
    # 2. C10 model on the implementation's trees
    c10nets = [{"key": p[3], "mask": p[4], "tree": tree_c10(routes[n])} for n, p in zip(nets, prob["nets"])]
    impl0 = {"ok": [[list(c), [c10.canon_entry(e) for e in es]] for c, es in out["tables0"].items()]}
    reqs.append({"suite": "c10", "op": "tables", "nets": c10nets})
    idx.append(("c10.tables", impl0))
    reqs.append({"suite": "c10", "op": "tables_spec", "nets": c10nets, "result": impl0})
    idx.append(("c10.spec", None))
    # 2b. the C01 bridge C03 tree -> C10 tree -> C10 tables -> C04 entries
    c03nets = []
    for n, p in zip(nets, prob["nets"]):
        c03nets.append({"key": p[3], "mask": p[4],
                        "tree": int_leaves(tree_c03(routes[n], [count_nodes(routes[n]) + 2]), out["o"]["Vinv"])})
    reqs.append({"suite": "c01", "op": "tables_of_trees", "nets": c03nets})
    idx.append(("c01.bridge", t0))
    # 3. C04 model on the implementation's tables
    chips = list(out["tables0"].keys())
    if out["targets"] != "skip":
        if out["methods"] == ["rd-only"]:
            for ci, c in enumerate(chips):
                reqs.append({"suite": "c04", "op": "rd", "table": t0[c], "target": None, "check": True})
                idx.append(("c04.rd", c))
        else:
            tg = out["targets"]
            reqs.append({"suite": "c04", "op": "mts", "methods": out["methods"],
                         "chips": [{"chip": ci, "table": t0[c], "target": tg.get(c) if isinstance(tg, dict) else tg}
                                   for ci, c in enumerate(chips)]})
            idx.append(("c04.mts", chips))
    # 4. stage hypotheses of pipeline_delivery on the implementation's intermediate results
    V = out["o"]["V"]
    for i, (n, p) in enumerate(zip(nets, prob["nets"])):
        pl = {v: out["placements"][obj] for v, obj in V.items() if obj in out["placements"]}
        sinks = []
        for v in p[1]:
            x, y = pl[v]
            dv = [d for d in prob["devices"] if d[0] == v]
            if dv:
                sinks.append([v, x, y, 2, dv[0][3], 0])
            else:
                sl = out["allocations"].get(V[v], {}).get(out["o"]["ids"][0])
                sinks.append([v, x, y, 0, 0, 0] if sl is None else [v, x, y, 1, sl.start, sl.stop])
        reqs.append(dict(mj, suite="c03", op="valid_tree", sinks=sinks, source=list(pl[p[0]]),
                         tree=c03nets[i]["tree"]))
        idx.append(("c03.valid", i))
    for c in chips:
        reqs.append({"suite": "c04", "op": "equiv", "a": t0[c], "b": t1.get(c, [])})
        idx.append(("c04.equiv", c))
    return reqs, idx


def judge(prob, out, replies, idx):
    """-> (findings, tags, nontrivial); findings = [(kind, key, what)] with kind in {violation, mismatch}"""
    findings, tags = [], []
    t0 = out["_t0"] if "_t0" in out else tables_c04(out["tables0"])
    t1 = out["_t1"] if "_t1" in out else tables_c04(out["tables1"])
    bad0 = set()
    for (what, meta), r in zip(idx, replies):
        if "proto_error" in r if isinstance(r, dict) else False:
            if what == "c04.equiv":
                tags.append("equiv-skipped")
                continue
            findings.append(("mismatch", "c01.proto-" + what, str(r)[:300]))
            continue
        if what == "deliver0":
            for (i, k), q in zip(meta, r):
                if not q["ok"]:
                    bad0.add((i, k))
    for (what, meta), r in zip(idx, replies):
        if isinstance(r, dict) and "proto_error" in r:
            continue
        if what == "deliver":
            for (i, k), q in zip(meta, r):
                if not q["ok"]:
                    stage = "before minimisation already" if (i, k) in bad0 else "after minimisation only"
                    for why in q["why"]:
                        findings.append(("violation", why,
                                         "net %d (source vertex %d) key %#010x: %s (%s); events %s" % (
                                             i, prob["nets"][i][0], k, why, stage, str(q["evs"])[:400])))
        elif what == "alloc_idle":
            if not r["holds"]:
                v, x, y, p = r["bad"][0]
                findings.append(("violation", "allocated-core-not-idle",
                                 "vertex %d was allocated core %d of chip (%d, %d) although machine and constraints were "
                                 "derived from a SystemInfo that reports that core absent or not idle (packets of nets with this "
                                 "sink are delivered to a core that is not the sink's; %d such cores)" % (v, p, x, y, len(r["bad"]))))
        elif what == "c10.tables":
            if c10.norm_tables(meta) != c10.norm_tables(r):
                findings.append(("mismatch", "c01.c10-tables", "routing_tree_to_tables differs from the C10 model on "
                                 "the pipeline's trees: impl=%s model=%s" % (str(meta)[:200], str(r)[:200])))
        elif what == "c10.spec":
            if not r["holds"]:
                findings.append(("mismatch", "c01.hyp-tables-exact", "TablesSpec fails on the pipeline's tables"))
        elif what == "c01.bridge":
            got = {(x, y): sorted(es) for x, y, es in r.get("ok", [])} if "ok" in r else None
            want = {c: sorted(es) for c, es in meta.items()}
            if got != want:
                findings.append(("mismatch", "c01.bridge", "tables04(treeTables(toC10 trees)) differs from the "
                                 "implementation's tables: %s vs %s" % (str(got)[:200], str(want)[:200])))
        elif what == "c04.mts":
            if "ok" not in r:
                findings.append(("mismatch", "c01.c04-mts", "minimise_tables succeeded, C04 model: %s" % (str(r)[:200],)))
            else:
                got = {meta[ci]: t for ci, t in r["ok"]}
                if got != t1:
                    bad = [c for c in set(got) | set(t1) if got.get(c) != t1.get(c)]
                    findings.append(("mismatch", "c01.c04-mts", "minimise_tables differs from the C04 model at chips %s: "
                                     "impl=%s model=%s" % (bad[:3], str(t1.get(bad[0]))[:200], str(got.get(bad[0]))[:200])))
        elif what == "c04.rd":
            if r.get("ok", None) != t1.get(meta, []):
                findings.append(("mismatch", "c01.c04-rd", "build_routing_tables differs from the C04 model at chip %s" % (meta,)))
        elif what == "c03.valid":
            if not r["valid"]:
                findings.append(("mismatch", "c01.hyp-validtree", "net %d: validTree fails (%s)" % (meta, r["why"])))
            if r.get("stubs"):
                tags.append("tree-with-stub")
        elif what == "c04.equiv":
            if not r.get("equiv", False):
                findings.append(("mismatch", "c01.hyp-route-equiv", "chip %s: key %#x routed differently after "
                                 "minimisation" % (meta, r.get("key", 0))))
    changed = t0 != t1
    return findings, tags, changed


def minfailed_model_check(prob, out):
    """MinimisationFailedError: the C04 model must fail too, at the same chip (hand-chained / new wrapper)"""
    t0 = tables_c04(out["tables0"])
    chips = list(out["tables0"].keys())
    tg = out["targets"]
    req = {"suite": "c04", "op": "mts", "methods": out["methods"],
           "chips": [{"chip": ci, "table": t0[c], "target": tg.get(c) if isinstance(tg, dict) else tg}
                     for ci, c in enumerate(chips)]}
    e = out["error"]
    want = {"err": "MinimisationFailed", "target": e.target_length, "final": e.final_length,
            "chip": chips.index(e.chip) if e.chip in chips else -1}
    return req, want


def eval_problems(ctx, probs, register=True, runner=None, after=None):
    """run pipelines, one Lean batch for all; returns list of (prob, status, findings).  `runner(prob)` replaces the
    plain call of the pipeline (histories: the caller's objects live on between calls); `after(prob, out)` runs once
    the Lean requests for this run have been written down (what the caller does with the results afterwards)"""
    runs = []
    reqs, spans = [], []
    for prob in probs:
        t = time.time()
        out = (runner or run_pipeline)(prob)
        out["wall"] = time.time() - t
        r, idx = [], []
        extra = None
        if out["status"] == "ok":
            r, idx = lean_requests(prob, out, _random.Random(prob["seed"] ^ 0x77))
        elif out["status"] == "MinimisationFailedError" and "tables0" in out and out.get("targets") not in (None, "skip"):
            req, want = minfailed_model_check(prob, out)
            r, idx = [req], [("minfailed", want)]
        spans.append((len(reqs), len(reqs) + len(r), idx))
        reqs += r
        runs.append(out)
        if after is not None:
            after(prob, out)
    replies = ctx.lean(reqs) if reqs else []
    results = []
    for prob, out, (a, b, idx) in zip(probs, runs, spans):
        findings, tags, nontriv = [], [], False
        st = out["status"]
        if st == "ok":
            findings, tags, changed = judge(prob, out, replies[a:b], idx)
            repaired = "tree-with-stub" in tags
            nontriv = changed or repaired
            tags.append("tables-changed" if changed else "tables-unchanged")
            if prob["devices"]:
                tags.append("with-devices")
        elif st == "MinimisationFailedError":
            if idx:
                r = replies[a]
                if r != idx[0][1]:
                    findings.append(("mismatch", "c01.c04-minfailed",
                                     "MinimisationFailedError %r but the C04 model says %s" % (idx[0][1], str(r)[:200])))
        elif st == "DidNotReturn":
            # the models of the sequential family, allocate, route, routing_tree_to_tables and the minimisers are
            # proved to terminate (seqPlace_terminates, alloc_only_failure, route_only_failure, tables_total,
            # minimiseTable_total): an implementation call that does not return there is a finding; the annealer's
            # schedule, the RCM order functions and the random placer's draws are not covered by a theorem
            in_place = "placements" not in out
            what = "the pipeline did not return (%s) at stage %s%s" % (
                out.get("traceback"), out.get("stage"), ", inside the placer" if in_place else "")
            if in_place and prob["cfg"]["placer"] in ("sa-python", "sa-c", "rcm", "rand"):
                findings.append(("mismatch", "c01.did-not-return-unproved-placer", what))
            else:
                findings.append(("violation", "did-not-return", what))
        elif st == "InjectedFault":
            tags.append("injected_fault_at_" + str(out["error"]))
        elif st not in DOCUMENTED:
            findings.append(("mismatch", "c01.pipeline-exception",
                             "pipeline raised undocumented %s at stage %s: %s" % (st, out.get("stage"), out.get("traceback", "")[-600:])))
        results.append((prob, st, findings, tags, nontriv, out))
        if register:
            register_result(ctx, prob, st, findings, tags, nontriv, out)
    return results


def register_result(ctx, prob, st, findings, tags, nontriv, out):
    cfg = prob["cfg"]
    ctx.traces += 1
    ctx.tag("status_" + st, "placer_" + cfg["placer"], "api_" + cfg["api"], "radius_%s" % (cfg["radius"],),
            "methods_" + cfg["methods"], "target_%s" % (cfg["target"],), *tags)
    res = cfg.get("res") or {}
    ctx.tag("core_resource_" + ("default" if res.get("cores") is None else "custom_" + res["cores"][0]),
            "sdram_resource_" + ("default" if res.get("sdram") is None else "custom"),
            "sram_resource_" + ("default" if res.get("sram") is None else "custom"),
            "api_%s_cores_%s" % (cfg["api"], "default" if res.get("cores") is None else "custom"),
            "placer_args_%s_%d" % (cfg["placer"], cfg.get("pvar") or 0))
    if cfg["api"] == "deprecated":
        ctx.tag("deprecated_reserve_monitor_%s" % cfg.get("reserve_monitor", True),
                "deprecated_align_sdram_%s" % cfg.get("align_sdram", True))
    if cfg["api"] in ("manual", "manual-sysinfo"):
        ctx.tag("manual_route_call_" + cfg.get("route_call", "pos"), "manual_tables_api_" + cfg.get("tables_api", "rt2t"))
    if cfg.get("apps"):
        ctx.tag("with_vertices_applications")
    ctx.tag("vertex_kind_" + (cfg.get("vkind") or "int"), "collections_variant_%d" % (cfg.get("coll") or 0),
            "sdram_around_2^%s" % cfg.get("big") if cfg.get("big") else "sdram_ordinary")
    for flag in ("subclass", "states", "memvar", "omit", "big_weight"):
        if cfg.get(flag):
            ctx.tag("option_" + flag)
    if cfg.get("omit") and cfg.get("kwargs_style") == "dict" and cfg["api"] in ("manual", "manual-sysinfo"):
        ctx.tag("stages_called_by_keyword")
    if st != "ok":
        ctx.tag("fail_%s_at_%s" % (st, out.get("stage")))
    viol = {}
    for kind, key, what in findings:
        if kind == "violation":
            viol.setdefault(key, what)
        else:
            ctx.mismatch(key, what, prob)
    done = getattr(ctx, "_c01_shrunk", None)
    if done is None:
        done = ctx._c01_shrunk = {}
    for key, what in viol.items():
        if key in done:
            # one shrunk replay per finding class is enough; later instances are recorded as they are
            ctx.violation(key, what, prob)
            continue
        small = shrink(ctx, prob, key, budget_s=12.0)
        done[key] = True
        ctx.violation(key, what if small is prob else what + " [shrunk case: see replay]", small)
    ctx.case(prob, nontriv)


# --------------------------------------------------------------------------------------------
# shrinking
# --------------------------------------------------------------------------------------------
def fails_with(ctx, prob, key):
    try:
        res = eval_problems(ctx, [prob], register=False)
    except Exception:
        return False
    return any(k == "violation" and kk == key for k, kk, _ in res[0][2])


def shrink(ctx, prob, key, budget_s=40.0):
    import copy
    t_end = time.time() + budget_s
    cur = prob
    progress = True
    while progress and time.time() < t_end:
        progress = False
        # drop nets, largest chunks first
        n = len(cur["nets"])
        chunk = max(1, n // 2)
        while chunk >= 1 and time.time() < t_end:
            i = 0
            while i < len(cur["nets"]) and len(cur["nets"]) > 1 and time.time() < t_end:
                cand = copy.deepcopy(cur)
                del cand["nets"][i:i + chunk]
                if cand["nets"] and fails_with(ctx, cand, key):
                    cur = cand
                    progress = True
                else:
                    i += chunk
            chunk //= 2
        # drop sinks
        for i in range(len(cur["nets"])):
            j = 0
            while j < len(cur["nets"][i][1]) and time.time() < t_end:
                cand = copy.deepcopy(cur)
                del cand["nets"][i][1][j]
                if fails_with(ctx, cand, key):
                    cur = cand
                    progress = True
                else:
                    j += 1
        # drop extra constraints, busy cores, exceptions
        for fld in ("cs", "busy", "exc", "rtr_exc"):
            j = 0
            while j < len(cur[fld]) and time.time() < t_end:
                cand = copy.deepcopy(cur)
                del cand[fld][j]
                if fails_with(ctx, cand, key):
                    cur = cand
                    progress = True
                else:
                    j += 1
    return cur


# --------------------------------------------------------------------------------------------
# the composed MODEL pipeline (Lean `Rig.C01Pipe.modelPipeline`, the subject of
# `model_pipeline_delivers`) against the hand-chained implementation with the sequential placer
# --------------------------------------------------------------------------------------------
RES_INDEX = ("Cores", "SDRAM", "SRAM")          # resource numbering of the model problem


def pipe_cfg(rng):
    return dict(placer="sequential", radius=rng.choice([0, 1, 2, 20, True, None]), methods=rng.choice(["default", "default", "rd", "oc", "none"]),
                target=rng.choice([None, None, None, "large", "large", "exact", "small", 0]), target_dict=rng.random() < 0.5,
                api="manual", res=gen_res_ids(rng),
                **{k: v for k, v in gen_kinds(rng).items() if k in ("vkind", "subclass", "coll", "big", "memvar", "big_weight")})


def gen_pipe_problem(rng, sizes, faulty=False):
    prob = gen_problem(rng, sizes, pipe_cfg(rng), faulty=faulty)
    if prob.get("c03_rseed") is None:
        prob["c03_rseed"] = rng.randrange(1 << 30)      # the draws of the router are recorded through FakeRandom
    prob["pipe"] = True
    return prob


def in_domain(prob):
    """the generator stays inside `Rig.C01Pipe.Domain` (checked, not assumed): cores <= 18, endpoint routes are links,
    every device vertex is pinned and its link is a dead link, key/masks pairwise non-intersecting, dictionaries"""
    dl = set(map(tuple, prob["dead_links"]))
    if prob["ncores"] > 18 or any(k > 18 for _, _, k in prob["exc"]):
        return False
    if len(set(v for v, _, _ in prob["vr"])) != len(prob["vr"]):
        return False
    for v, x, y, l in prob["devices"]:
        if not (0 <= l < 6) or (x, y, l) not in dl:
            return False
    ks = [(n[3], n[4]) for n in prob["nets"]]
    for i in range(len(ks)):
        for j in range(i):
            if (ks[i][0] & ks[j][1]) == (ks[j][0] & ks[i][1]):
                return False
    return True


def run_manual_recorded(prob):
    """hand-chained place (sequential) -> allocate -> route -> routing_tree_to_tables -> minimise_tables on the real
    code, with recorders (module attributes wrapped from outside) for what `route()` draws from sets and the RNG"""
    import rig.place_and_route as pr
    from rig.place_and_route.place import sequential
    from rig.place_and_route.route import ner
    from rig.place_and_route.route import utils as rutils
    from rig.routing_table import routing_tree_to_tables, minimise_tables
    import rig.geometry as geometry
    cfg = prob["cfg"]
    o = build(prob)
    Cores = o["ids"][0]
    tape = []
    fake = c03.FakeRandom(prob["c03_rseed"], tape)
    orig = (geometry.random, rutils.random, ner.ner_net, ner.copy_and_disconnect_tree)
    per_net = []

    def w_ner_net(source, destinations, width, height, wrap_around=False, radius=10):
        dl = list(destinations)
        per_net.append(dict(dests=[list(d) for d in dl], start=len(tape), order=[]))
        return orig[2](source, dl, width, height, wrap_around, radius)

    def w_copy(root, m):
        new_root, lookup, broken = orig[3](root, m)
        per_net[-1]["order"] = [[p[0], p[1], c[0], c[1]] for p, c in broken]
        return new_root, lookup, broken
    out = dict(o=o, methods=METHODS[cfg["methods"]], per_net=per_net, tape=tape)
    geometry.random = rutils.random = fake
    ner.ner_net, ner.copy_and_disconnect_tree = w_ner_net, w_copy
    from . import common
    lim = common.cpu_limit(cpu_budget(prob))
    try:
        lim.__enter__()
        out["stage"] = "place"
        out["placements"] = sequential.place(o["vr"], o["nets"], o["machine"], o["cs"])
        out["stage"] = "allocate"
        out["allocations"] = pr.allocate(o["vr"], o["nets"], o["machine"], o["cs"], out["placements"])
        out["stage"] = "route"
        out["routes"] = pr.route(o["vr"], o["nets"], o["machine"], o["cs"], out["placements"], out["allocations"], Cores,
                                 **({} if cfg["radius"] is None else {"radius": cfg["radius"]}))
        out["stage"] = "tables"
        out["tables0"] = routing_tree_to_tables(out["routes"], o["net_keys"])
        out["stage"] = "minimise"
        if cfg["methods"] == "none" and cfg["target"] is None:
            out["targets"] = "skip"
            out["tables1"] = dict(out["tables0"])
        else:
            if cfg["target_dict"] or not (cfg["target"] is None or isinstance(cfg["target"], int)):
                out["targets"] = {c: target_for(cfg, len(t)) for c, t in out["tables0"].items()}
            else:
                out["targets"] = cfg["target"]
            out["tables1"] = minimise_tables(out["tables0"], out["targets"], impl_methods(out["methods"]))
        out["status"] = "ok"
    except (ImportError, SyntaxError):
        raise
    except common.ImplHang as e:
        _HANGS[0] += 1
        out["status"] = "DidNotReturn"
        out["error"] = e
        out["traceback"] = str(e)
    except Exception as e:      # noqa
        out["status"] = type(e).__name__
        out["error"] = e
        if out["status"] not in DOCUMENTED:
            import traceback
            out["traceback"] = traceback.format_exc()[-1500:]
    finally:
        lim.__exit__()
        geometry.random, rutils.random, ner.ner_net, ner.copy_and_disconnect_tree = orig
    return out


def pipe_request(prob, out):
    """the `pipeline` request of the Lean driver: the problem in rig's vocabulary + the recorded oracle inputs"""
    from rig.place_and_route.constraints import (LocationConstraint, SameChipConstraint, ReserveResourceConstraint,
                                                 RouteEndpointConstraint)
    o = out["o"]
    Cores, SDRAM, SRAM = o["ids"]
    ridx = {Cores: 0, SDRAM: 1, SRAM: 2}
    Vinv = o["Vinv"]
    vr = [[Vinv[v], [[ridx[r], int(a)] for r, a in d.items()]] for v, d in o["vr"].items()]
    m = o["machine"]
    vec = lambda d: [int(d[Cores]), int(d[SDRAM]), int(d[SRAM])]
    cs = []
    for c in o["cs"]:
        if isinstance(c, ReserveResourceConstraint):
            cs.append({"t": "res", "r": ridx[c.resource], "start": c.reservation.start, "stop": c.reservation.stop,
                       "c": None if c.location is None else list(c.location)})
        elif isinstance(c, LocationConstraint):
            cs.append({"t": "loc", "v": Vinv[c.vertex], "c": list(c.location)})
        elif isinstance(c, RouteEndpointConstraint):
            cs.append({"t": "ep", "v": Vinv[c.vertex], "route": int(c.route)})
        elif isinstance(c, SameChipConstraint):
            cs.append({"t": "same", "vs": [Vinv[v] for v in c.vertices]})
    per = out["per_net"]
    tape = out["tape"]
    oracle = []
    for i, pn in enumerate(per):
        end = per[i + 1]["start"] if i + 1 < len(per) else len(tape)
        oracle.append({"dests": pn["dests"], "tape": tape[pn["start"]:end], "order": pn["order"]})
    while len(oracle) < len(prob["nets"]):
        oracle.append({"dests": [], "tape": [], "order": []})      # nets the implementation never reached
    tg = out.get("targets")
    if tg == "skip" or "targets" not in out and prob["cfg"]["methods"] == "none" and prob["cfg"]["target"] is None:
        mini = None
    else:
        if "targets" not in out:        # the implementation failed before minimisation
            tg = None
        mini = {"methods": out["methods"],
                "targets": {"default": None if isinstance(tg, dict) else tg,
                            "chips": [[c[0], c[1], t] for c, t in tg.items()] if isinstance(tg, dict) else []}}
    return {"suite": "c01pipe", "op": "pipeline", "vr": vr, "nres": 3,
            "w": m.width, "h": m.height, "res": vec(m.chip_resources),
            "exc": [[list(c), vec(d)] for c, d in m.chip_resource_exceptions.items()],
            "dead": sorted(map(list, m.dead_chips)), "dead_links": [[x, y, int(l)] for x, y, l in sorted(m.dead_links)],
            "cs": cs, "nets": [[n[0], list(n[1]), n[3], n[4]] for n in prob["nets"]], "core_res": 0,
            "placer": {"t": "seq", "vo": None, "co": None}, "radius": radius_value(prob["cfg"]["radius"]),
            "oracle": oracle, "minimise": mini}


def pipe_expected_error(out):
    """what the model pipeline must answer when the implementation failed at a stage"""
    st, stage = out["status"], out.get("stage")
    if st == "InsufficientResourceError" and stage == "place":
        return {"err": "place", "what": "InsufficientResourceError"}
    if st == "InvalidConstraintError" and stage == "place":
        return {"err": "place", "what": "InvalidConstraintError"}
    if st == "InsufficientResourceError" and stage == "allocate":
        return {"err": "allocate"}
    if st == "MachineHasDisconnectedSubregion":
        return {"err": "route", "what": "Disconnected"}
    if st == "MinimisationFailedError":
        return {"err": "minimise"}
    return None


def eval_pipe_problems(ctx, probs):
    """model pipeline = implementation, stage by stage up to the FINAL tables (exact per-chip equality)"""
    runs, reqs = [], []
    for prob in probs:
        out = run_manual_recorded(prob)
        runs.append(out)
        reqs.append(pipe_request(prob, out))
    replies = ctx.lean(reqs) if reqs else []
    for prob, out, r in zip(probs, runs, replies):
        ctx.traces += 1
        st = out["status"]
        ridx = {rid: i for i, rid in enumerate(out["o"]["ids"])}
        tags = ["pipe_status_" + st, "pipe_in_domain" if in_domain(prob) else "pipe_OUT_OF_DOMAIN"]
        diff = None
        if isinstance(r, dict) and "proto_error" in r:
            diff = ("proto", r["proto_error"], "")
        elif st == "ok":
            if "ok" not in r:
                diff = ("outcome", str(r)[:200], "ok")
            else:
                mo = r["ok"]
                pl = [[v, [c[0], c[1]]] for v, c in mo["placement"]]
                Vinv = out["o"]["Vinv"]
                ipl = [[Vinv[v], list(c)] for v, c in out["placements"].items()]
                al = {v: sorted(map(tuple, va)) for v, va in mo["alloc"]}
                ial = {Vinv[v]: sorted((ridx[r_], sl.start, sl.stop) for r_, sl in va.items())
                       for v, va in out["allocations"].items()}
                t0 = tables_c04(out["tables0"])
                t1 = tables_c04(out["tables1"])
                m0 = {(x, y): t for x, y, t in mo["tables0"]}
                m1 = {(x, y): t for x, y, t in mo["tables"]}
                dev = sorted(map(tuple, mo["dev"]))
                idev = sorted(set((d[1], d[2], d[3]) for d in prob["devices"]))
                if sorted(pl) != sorted(ipl):
                    diff = ("place", pl, ipl)
                elif pl != ipl:
                    diff = ("place-order", pl, ipl)
                elif al != ial:
                    diff = ("allocate", al, ial)
                elif m0 != t0:
                    bad = [c for c in set(m0) | set(t0) if m0.get(c) != t0.get(c)]
                    diff = ("tables", (bad[:3], m0.get(bad[0])), t0.get(bad[0]))
                elif [list(c) for c in out["tables0"].keys()] != mo["chips0"]:
                    diff = ("tables-chip-order", mo["chips0"], list(out["tables0"].keys()))
                elif m1 != t1:
                    bad = [c for c in set(m1) | set(t1) if m1.get(c) != t1.get(c)]
                    diff = ("final-tables", (bad[:3], m1.get(bad[0])), t1.get(bad[0]))
                elif dev != idev:
                    diff = ("device-links", dev, idev)
                if t0 != t1:
                    tags.append("pipe_tables_changed")
                if any(pn["order"] for pn in out["per_net"]):
                    tags.append("pipe_repaired")
        elif st == "DidNotReturn":
            ctx.violation("did-not-return", "hand-chained pipeline (sequential placer) did not return at stage %s: %s; "
                          "every stage of the model pipeline is proved to terminate" % (out.get("stage"), out.get("traceback")),
                          prob)
        else:
            want = pipe_expected_error(out)
            if want is None:
                diff = ("pipeline-exception", "-", "%s at %s: %s" % (st, out.get("stage"), out.get("traceback", "")[-500:]))
            elif "ok" in r or any(r.get(k) != v for k, v in want.items()):
                diff = ("outcome", str(r)[:200], "%s at stage %s" % (st, out.get("stage")))
            tags.append("pipe_fail_at_" + str(out.get("stage")))
        if diff:
            ctx.mismatch("c01pipe." + diff[0], "model pipeline and hand-chained implementation (sequential placer) differ at "
                         "%s: model=%s impl=%s" % (diff[0], str(diff[1])[:300], str(diff[2])[:300]), prob)
            tags.append("pipe_mismatch_" + diff[0])
        ctx.tag(*tags)
        ctx.case(prob, st == "ok" and ("pipe_tables_changed" in tags or "pipe_repaired" in tags))


# --------------------------------------------------------------------------------------------
# the WRAPPER models (subject of `wrapper_pipeline_delivers` / `deprecated_pipeline_delivers`, Props/C01Wrap.lean):
# the real place_and_route_wrapper / wrapper() with the sequential placer handed over as custom `place=` callable
# against `Rig.C01Wrap.wrapperPipeline` / `deprecatedPipeline` - what the wrapper DERIVES from the SystemInfo and
# PASSES to every stage (Machine, constraints, target lengths) and what it RETURNS (placements, allocations, final
# tables) are compared exactly; the Lean predicates `allocBad` (AllocIdle) and `deliver` judge the implementation's
# own results
# --------------------------------------------------------------------------------------------
STAGE_ARGS = ["vertices_resources", "nets", "machine", "constraints", "placements", "allocations", "core_resource"]


def wrap_cfg(rng, i):
    cfg = dict(placer="sequential", radius=rng.choice([0, 1, 2, 20, True, None]),
               methods=rng.choice(["default", "default", "rd", "oc", "none"]), target=None, target_dict=False,
               api="deprecated" if i % 4 == 2 else "wrapper", res=gen_res_ids(rng),
               reserve_monitor=rng.random() < 0.6, align_sdram=rng.random() < 0.6, apps=rng.random() < 0.5,
               **{k: v for k, v in gen_kinds(rng).items() if k in ("vkind", "subclass", "coll", "big", "memvar", "big_weight",
                                                                   "states")})
    return cfg


def gen_wrap_problem(rng, sizes, i, faulty=False):
    prob = gen_problem(rng, sizes, wrap_cfg(rng, i), faulty=faulty)
    if prob.get("c03_rseed") is None:
        prob["c03_rseed"] = rng.randrange(1 << 30)
    prob["wrap"] = True
    return prob


def constraint_json(c, ridx, Vinv):
    """a constraint object as the Lean side writes it (`Rig.C01Wrap.jPC`)"""
    from rig.place_and_route.constraints import (LocationConstraint, SameChipConstraint, ReserveResourceConstraint,
                                                 RouteEndpointConstraint, AlignResourceConstraint)
    if isinstance(c, ReserveResourceConstraint):
        return {"t": "res", "r": ridx.get(c.resource, -1), "start": c.reservation.start, "stop": c.reservation.stop,
                "c": None if c.location is None else [int(c.location[0]), int(c.location[1])]}
    if isinstance(c, AlignResourceConstraint):
        return {"t": "align", "r": ridx.get(c.resource, -1), "a": c.alignment}
    if isinstance(c, LocationConstraint):
        return {"t": "loc", "v": Vinv[c.vertex], "c": [int(c.location[0]), int(c.location[1])]}
    if isinstance(c, RouteEndpointConstraint):
        return {"t": "ep", "v": Vinv[c.vertex], "route": int(c.route)}
    if isinstance(c, SameChipConstraint):
        return {"t": "same", "vs": [Vinv[v] for v in c.vertices]}
    return {"t": "unknown", "repr": repr(c)[:80]}


def stage_view(a, kw, ids, Vinv):
    """what a stage callable received: canonical Machine and constraint list (by parameter name or position)"""
    from . import c14
    got = dict(zip(STAGE_ARGS, a))
    got.update(kw)
    ridx = {ids[0]: 0, ids[1]: 1, ids[2]: 2}
    mj, ok_shape = c14.machine_json(got["machine"], ids)
    mj["ok_shape"] = ok_shape
    view = {"machine": mj, "constraints": [constraint_json(c, ridx, Vinv) for c in got["constraints"]]}
    if "core_resource" in got:
        view["core_resource"] = ridx.get(got["core_resource"], -1)
    return view


def run_wrapper_recorded(prob):
    """the real place_and_route_wrapper (api wrapper) / deprecated wrapper() with recording pass-through stage
    callables (place = sequential.place) and recorders for what `route()` draws from sets and the RNG"""
    import rig.place_and_route as pr
    from rig.place_and_route.place import sequential
    from rig.place_and_route.route import ner
    from rig.place_and_route.route import utils as rutils
    from rig.routing_table import routing_tree_to_tables
    from rig.routing_table.utils import build_routing_table_target_lengths
    import rig.geometry as geometry
    import warnings
    from . import common
    cfg = prob["cfg"]
    o = build(prob)
    ids = o["ids"]
    tape = []
    fake = c03.FakeRandom(prob["c03_rseed"], tape)
    orig = (geometry.random, rutils.random, ner.ner_net, ner.copy_and_disconnect_tree)
    per_net = []
    seen = {}

    def w_ner_net(source, destinations, width, height, wrap_around=False, radius=10):
        dl = list(destinations)
        per_net.append(dict(dests=[list(d) for d in dl], start=len(tape), order=[]))
        return orig[2](source, dl, width, height, wrap_around, radius)

    def w_copy(root, m):
        new_root, lookup, broken = orig[3](root, m)
        per_net[-1]["order"] = [[p[0], p[1], c[0], c[1]] for p, c in broken]
        return new_root, lookup, broken
    deprecated = cfg["api"] == "deprecated"
    out = dict(o=o, methods=["rd-only"] if deprecated else METHODS[cfg["methods"]], per_net=per_net, tape=tape, seen=seen)

    def rec_place(*a, **kw):
        out["stage"] = "place"
        seen["place"] = stage_view(a, kw, ids, o["Vinv"])
        out["placements"] = sequential.place(*a, **kw)
        return out["placements"]

    def rec_alloc(*a, **kw):
        out["stage"] = "allocate"
        seen["allocate"] = stage_view(a, kw, ids, o["Vinv"])
        out["allocations"] = pr.allocate(*a, **kw)
        return out["allocations"]

    def rec_route(*a, **kw):
        out["stage"] = "route"
        seen["route"] = stage_view(a, kw, ids, o["Vinv"])
        out["routes"] = pr.route(*a, **kw)
        out["stage"] = "minimise"
        return out["routes"]
    rkw = {} if cfg["radius"] is None else {"radius": cfg["radius"]}
    geometry.random = rutils.random = fake
    ner.ner_net, ner.copy_and_disconnect_tree = w_ner_net, w_copy
    lim = common.cpu_limit(cpu_budget(prob))
    try:
        lim.__enter__()
        with warnings.catch_warnings():
            warnings.simplefilter("ignore")
            out["stage"] = "derive"
            if deprecated:
                kw = {}
                if not cfg.get("reserve_monitor", True):
                    kw["reserve_monitor"] = False
                if not cfg.get("align_sdram", True):
                    kw["align_sdram"] = False
                res = pr.wrapper(o["vr"], o["apps"], o["nets"], o["net_keys"], o["machine"], o["cs"],
                                 place=rec_place, allocate=rec_alloc, route=rec_route, route_kwargs=rkw,
                                 core_resource=ids[0], sdram_resource=ids[1], **kw)
                out["targets"] = None
            else:
                res = pr.place_and_route_wrapper(o["vr"], o["apps"], o["nets"], o["net_keys"], o["sysinfo"], o["user_cs"],
                                                 place=rec_place, allocate=rec_alloc, route=rec_route, route_kwargs=rkw,
                                                 minimise_tables_methods=impl_methods(out["methods"]),
                                                 core_resource=ids[0], sdram_resource=ids[1], sram_resource=ids[2])
                out["targets"] = build_routing_table_target_lengths(o["sysinfo"])
            out["returned"] = res
            out["tables1"] = res[3]
            out["tables0"] = routing_tree_to_tables(out["routes"], o["net_keys"])
        out["status"] = "ok"
    except (ImportError, SyntaxError):
        raise
    except common.ImplHang as e:
        _HANGS[0] += 1
        out["status"] = "DidNotReturn"
        out["error"] = e
        out["traceback"] = str(e)
    except Exception as e:      # noqa
        out["status"] = type(e).__name__
        out["error"] = e
        if out["status"] not in DOCUMENTED:
            import traceback
            out["traceback"] = traceback.format_exc()[-1500:]
    finally:
        lim.__exit__()
        geometry.random, rutils.random, ner.ner_net, ner.copy_and_disconnect_tree = orig
    return out


def wrap_request(prob, out):
    """the `wrapper` / `deprecated` request of the Lean driver"""
    from . import c14
    base = pipe_request(prob, out) if prob["cfg"]["api"] == "deprecated" else None
    o = out["o"]
    ridx = {o["ids"][0]: 0, o["ids"][1]: 1, o["ids"][2]: 2}
    if base is not None:
        base.update(suite="c01wrap", op="deprecated", sdram_res=1,
                    reserve_monitor=bool(prob["cfg"].get("reserve_monitor", True)),
                    align_sdram=bool(prob["cfg"].get("align_sdram", True)))
        return base
    Vinv = o["Vinv"]
    vr = [[Vinv[v], [[ridx[r], int(a)] for r, a in d.items()]] for v, d in o["vr"].items()]
    per, tape = out["per_net"], out["tape"]
    oracle = []
    for i, pn in enumerate(per):
        end = per[i + 1]["start"] if i + 1 < len(per) else len(tape)
        oracle.append({"dests": pn["dests"], "tape": tape[pn["start"]:end], "order": pn["order"]})
    while len(oracle) < len(prob["nets"]):
        oracle.append({"dests": [], "tape": [], "order": []})
    return {"suite": "c01wrap", "op": "wrapper", "sysinfo": c14.si_json(o["sysinfo"]), "vr": vr,
            "cs": [constraint_json(c, ridx, Vinv) for c in o["user_cs"]],
            "nets": [[n[0], list(n[1]), n[3], n[4]] for n in prob["nets"]],
            "placer": {"t": "seq", "vo": None, "co": None}, "radius": radius_value(prob["cfg"]["radius"]),
            "oracle": oracle, "methods": out["methods"]}


def canon_machine(mj):
    """what a Machine MEANS (a harmless re-choice of the defaults / exceptions is not a difference): extent, the
    resources of every working chip, the dead links"""
    dead = set((x, y) for x, y in mj["dead_chips"])
    exc = {(e[0], e[1]): list(e[2:5]) for e in mj["exceptions"]}
    dflt = [mj["cores"], mj["sdram"], mj["sram"]]
    chips = [[x, y] + exc.get((x, y), dflt) for x in range(mj["width"]) for y in range(mj["height"]) if (x, y) not in dead]
    return {"width": mj["width"], "height": mj["height"], "chips": chips,
            "dead_links": sorted(map(list, mj["dead_links"])), "ok_shape": mj.get("ok_shape", True)}


def alloc_idle_request(prob, out):
    """`AllocIdle` (Rig.C01Wrap.allocBad) on the placements / allocations the wrapper RETURNED"""
    from . import c14
    o = out["o"]
    Vinv = o["Vinv"]
    pl, al = out["returned"][:2] if "returned" in out else (out["placements"], out["allocations"])
    return {"suite": "c01wrap", "op": "alloc_idle", "sysinfo": c14.si_json(o["sysinfo"]),
            "placement": [[Vinv[v], [int(c[0]), int(c[1])]] for v, c in pl.items()],
            "alloc": [[Vinv[v], [[0, int(sl.start), int(sl.stop)] for r, sl in va.items() if r is o["ids"][0] or r == o["ids"][0]]]
                      for v, va in al.items()]}


def eval_wrap_problems(ctx, probs):
    """wrapper models = the real wrappers: derived Machine / constraints / targets as passed to EVERY stage, placements,
    allocations, unminimised and FINAL tables; oracles: Lean `deliver` on the returned tables, Lean `allocBad` on the
    returned placements / allocations"""
    runs, reqs, spans = [], [], []
    for prob in probs:
        out = run_wrapper_recorded(prob)
        runs.append(out)
        r = [wrap_request(prob, out)]
        idx = []
        if out["status"] == "ok":
            if prob["cfg"]["api"] == "wrapper":
                r.append(alloc_idle_request(prob, out))
            light = dict(prob, light=True)
            r2, idx = lean_requests(light, out, _random.Random(prob["seed"] ^ 0x77))
            r += r2
        spans.append((len(reqs), len(reqs) + len(r), idx))
        reqs += r
    replies = ctx.lean(reqs) if reqs else []
    for prob, out, (a, b, idx) in zip(probs, runs, spans):
        ctx.traces += 1
        r = replies[a]
        st = out["status"]
        api = prob["cfg"]["api"]
        deprecated = api == "deprecated"
        tags = ["wrap_api_" + api, "wrap_status_" + st, "wrap_in_domain" if in_domain(prob) else "wrap_OUT_OF_DOMAIN"]
        diffs = []
        viol = []
        if isinstance(r, dict) and "proto_error" in r:
            diffs.append(("proto", r["proto_error"], ""))
        else:
            seen = out["seen"]
            # what the wrapper derived and passed to every stage it reached
            want_cs = r.get("constraints")
            for stage in ("place", "allocate", "route"):
                if stage not in seen:
                    continue
                if seen[stage]["constraints"] != want_cs:
                    diffs.append(("constraints-at-" + stage, want_cs, seen[stage]["constraints"]))
                if not deprecated:
                    gm = seen[stage]["machine"]
                    wm = canon_machine(r["machine"])
                    if canon_machine(gm) != wm:
                        diffs.append(("machine-at-" + stage, wm, gm))
                if stage == "route" and seen[stage].get("core_resource", 0) != 0:
                    diffs.append(("core-resource-at-route", 0, seen[stage].get("core_resource")))
            if not deprecated and out.get("targets") is not None:
                tg = sorted([int(c[0]), int(c[1]), int(t)] for c, t in out["targets"].items())
                if tg != sorted(r["targets"]):
                    diffs.append(("target-lengths", sorted(r["targets"])[:20], tg[:20]))
            if st == "ok":
                if "ok" not in r:
                    diffs.append(("outcome", str(r.get("error"))[:200], "ok"))
                else:
                    mo = r["ok"]
                    ridx = {rid: i for i, rid in enumerate(out["o"]["ids"])}
                    Vinv = out["o"]["Vinv"]
                    rpl, ral, _, rtab = out["returned"]
                    pl = [[v, [c[0], c[1]]] for v, c in mo["placement"]]
                    ipl = [[Vinv[v], list(c)] for v, c in rpl.items()]
                    al = {v: sorted(map(tuple, va)) for v, va in mo["alloc"]}
                    ial = {Vinv[v]: sorted((ridx[r_], sl.start, sl.stop) for r_, sl in va.items()) for v, va in ral.items()}
                    t0 = tables_c04(out["tables0"])
                    t1 = tables_c04(rtab)
                    m0 = {(x, y): t for x, y, t in mo["tables0"]}
                    m1 = {(x, y): t for x, y, t in mo["tables"]}
                    if rpl is not out["placements"] or ral is not out["allocations"]:
                        diffs.append(("returned-objects", "the stages' results", "other objects"))
                    if pl != ipl:
                        diffs.append(("place", pl, ipl))
                    elif al != ial:
                        diffs.append(("allocate", al, ial))
                    elif m0 != t0:
                        bad = [c for c in set(m0) | set(t0) if m0.get(c) != t0.get(c)]
                        diffs.append(("tables", (bad[:3], m0.get(bad[0])), t0.get(bad[0])))
                    elif m1 != t1:
                        bad = [c for c in set(m1) | set(t1) if m1.get(c) != t1.get(c)]
                        diffs.append(("final-tables", (bad[:3], m1.get(bad[0])), t1.get(bad[0])))
                    if not deprecated and not r.get("alloc_idle", True):
                        diffs.append(("model-alloc-idle", "false", "proved true"))
                    if t0 != t1:
                        tags.append("wrap_tables_changed")
                    if any(pn["order"] for pn in out["per_net"]):
                        tags.append("wrap_repaired")
                # oracles on the implementation's own results
                k = a + 1
                if not deprecated:
                    ai = replies[k]
                    k += 1
                    if isinstance(ai, dict) and "proto_error" in ai:
                        diffs.append(("proto-alloc-idle", ai["proto_error"], ""))
                    elif not ai["holds"]:
                        v, x, y, p = ai["bad"][0]
                        viol.append(("allocated-core-not-idle",
                                     "place_and_route_wrapper allocated core %d of chip (%d, %d) to vertex %d although the "
                                     "SystemInfo reports that core %s (packets of nets with this sink are delivered to a core "
                                     "that is not the sink's; %d such cores)" % (
                                         p, x, y, v, "busy" if (x, y, p) in set(
                                             (bx, by, bp) for bx, by, b in prob["busy"] for bp in b) else "absent or not idle",
                                         len(ai["bad"]))))
                        tags.append("wrap_alloc_not_idle")
                findings, jt, _ = judge(prob, out, replies[k:b], idx)
                for kind, key, what in findings:
                    if kind == "violation":
                        viol.append((key, what))
                    else:
                        diffs.append((key, "-", what))
            elif st == "DidNotReturn":
                viol.append(("did-not-return", "%s (sequential placer) did not return at stage %s: %s; every stage of the "
                             "model pipeline is proved to terminate" % (api, out.get("stage"), out.get("traceback"))))
            else:
                want = pipe_expected_error(out)
                e = r.get("error") if isinstance(r, dict) else None
                if want is None:
                    diffs.append(("pipeline-exception", "-", "%s at %s: %s" % (st, out.get("stage"), out.get("traceback", "")[-500:])))
                elif e is None or any(e.get(k_) != v_ for k_, v_ in want.items()):
                    diffs.append(("outcome", str(r)[:200], "%s at stage %s" % (st, out.get("stage"))))
                tags.append("wrap_fail_at_" + str(out.get("stage")))
        for d in diffs[:3]:
            ctx.mismatch("c01wrap." + d[0], "model wrapper (%s) and implementation (sequential placer) differ at %s: model=%s "
                         "impl=%s" % (api, d[0], str(d[1])[:300], str(d[2])[:300]), prob)
            tags.append("wrap_mismatch_" + d[0])
        seenv = set()
        for key, what in viol:
            if key not in seenv:
                seenv.add(key)
                ctx.violation(key, what + " [wrapper stream: api %s, sequential placer]" % api, prob)
        ctx.tag(*tags)
        ctx.case(prob, st == "ok" and ("wrap_tables_changed" in tags or "wrap_repaired" in tags))


# --------------------------------------------------------------------------------------------
# SEQUENCES of complete pipeline runs in one process with RELATED key assignments
# (state kept by the library between calls - e.g. a mutable default argument of the minimiser - shows
# only when a later application's key/masks meet what an earlier run left behind)
# --------------------------------------------------------------------------------------------
SEQ_SIZES = [(2, 1), (2, 1), (1, 2), (2, 2), (2, 2), (3, 2), (3, 3), (4, 4), (5, 1)]
SEQ_PLACERS = ["sequential", "hilbert", "rcm", "breadth_first", "rand", "sa-python"]


def gen_universe(rng):
    """a key field of 3..6 adjacent bit positions; every other bit is masked with one common value"""
    b = rng.choice([3, 4, 4, 5, 5, 6])
    lo = rng.randrange(0, 33 - b)
    field = ((1 << b) - 1) << lo
    return dict(b=b, lo=lo, common=rng.getrandbits(32) & ~field & M32)


def cube_km(u, val, care):
    """(value, care bits) inside the field -> 32-bit (key, mask)"""
    field = ((1 << u["b"]) - 1) << u["lo"]
    mask = (~field & M32) | (care << u["lo"])
    return ((u["common"] | (val << u["lo"])) & mask, mask)


def km_intersect(a, b):
    return (a[0] & b[1]) == (b[0] & a[1])


def in_universe(u, km):
    """the key/mask differs from the common value only inside the field (and masks every bit outside)"""
    field = ((1 << u["b"]) - 1) << u["lo"]
    return (km[1] | field) == M32 and (km[0] & ~field & M32) == (u["common"] & km[1])


def gen_cubes(rng, u, n, forced=(), avoid=()):
    """n pairwise non-intersecting key/masks of DIFFERENT generality inside the field (hierarchical key space: some
    nets own one key, some a block of 2, 4, 8 keys), the `forced` ones first; blocks of the field stay unused; the
    others also stay clear of the key/masks in `avoid`"""
    out = []
    for km in forced:
        if in_universe(u, km) and not any(km_intersect(km, o) for o in out):
            out.append(tuple(km))
    nf = len(out)
    b = u["b"]
    tries = 0
    while len(out) < n and tries < 40 * n:
        tries += 1
        nx = rng.choice([0, 0, 0, 0, 1, 1, 2, 3]) if b > 3 else rng.choice([0, 0, 0, 1])
        xs = rng.sample(range(b), min(nx, b - 1))
        care = ((1 << b) - 1) & ~sum(1 << x for x in xs)
        km = cube_km(u, rng.getrandbits(b) & care, care)
        if not any(km_intersect(km, o) for o in out) and not any(km_intersect(km, o) for o in avoid):
            out.append(km)
    return out


def field_bits(u, word):
    return [i for i in range(u["lo"], u["lo"] + u["b"]) if word >> i & 1]


def straddling_pair(rng, u, km, holes):
    """two single keys just outside the block `km` (each differs from a key h of the block in one of the block's
    masked field bits) whose common cover {h, h^c1, h^c2, h^c1^c2} dips into the block at h - taken from `holes` (keys
    of the block no entry of the earlier run occupied) when there are any.  Orthogonal to the block, legal."""
    care = field_bits(u, km[1])
    if len(care) < 2:
        return None
    c1, c2 = rng.sample(care, 2)
    if holes and rng.random() < 0.85:
        h = rng.choice(holes)
    else:
        free = ~km[1] & M32
        h = km[0] | (rng.getrandbits(32) & free)
    e1, e2 = (h ^ (1 << c1), M32), (h ^ (1 << c2), M32)
    cover = (h & ~((1 << c1) | (1 << c2)) & M32, M32 & ~((1 << c1) | (1 << c2)))
    return e1, e2, cover


def merges_of(out):
    """the (key, mask) pairs ordered covering produced in a run: entries of a minimised table that are not entries of
    the table before minimisation; -> [((key, mask), holes)] where holes are the keys of the merged block that no
    original entry of that chip's table matched (at most 64 are listed)"""
    if out.get("status") != "ok":
        return []
    t0, t1 = tables_c04(out["tables0"]), tables_c04(out["tables1"])
    ms, seen = [], set()
    for c, t in t1.items():
        orig = [(e[1], e[2]) for e in t0.get(c, [])]
        for e in t:
            km = (e[1], e[2])
            if km in orig or km in seen:
                continue
            seen.add(km)
            holes = []
            if bin(~km[1] & M32).count("1") <= 6:
                for k in x_fillings(None, km[0], km[1], "all"):
                    if not any(k & m == kk for kk, m in orig):
                        holes.append(k)
            ms.append((km, holes))
    return ms


def seq_cfg(rng):
    cfg = gen_cfg(rng)
    cfg["placer"] = rng.choice(SEQ_PLACERS)
    cfg["api"] = rng.choice(["manual", "manual", "manual", "manual-sysinfo", "wrapper"])
    cfg["methods"] = rng.choice(["default", "default", "oc"])          # ordered covering must really run
    cfg["target"] = rng.choice([None, None, None, "small"])
    cfg["tables_api"] = "rt2t"
    return cfg


def gen_seq_problem(rng, prev, universe, forced):
    """one application of a sequence: a fresh problem (or the previous application on the previous machine with a
    new key assignment), few route groups (nets sharing source and sinks, so that entries share routes and merge),
    keys = hierarchical blocks of the universe, the first nets keyed with `forced` (merges an earlier run produced)"""
    import copy
    if prev is not None and rng.random() < 0.5:
        prob = copy.deepcopy(prev)
        prob["cfg"] = seq_cfg(rng)
        prob["seed"] = rng.randrange(1 << 30)
        groups = [list(g) for g in prob.get("seq_groups", [])]
        if rng.random() < 0.5:
            rng.shuffle(groups)
    else:
        prob = gen_problem(rng, SEQ_SIZES, seq_cfg(rng), faulty=False)
        groups = []
        for n in prob["nets"]:
            if n[1] and [n[0], n[1]] not in groups:
                groups.append([n[0], list(n[1])])
        if not groups:
            groups = [[prob["nets"][0][0], list(prob["nets"][0][1])]]
        rng.shuffle(groups)
        groups = groups[:rng.choice([2, 2, 2, 3, 4])]
    if len(groups) >= 2 and rng.random() < 0.5 and groups[0][1] != groups[1][1]:
        # two route groups that fork at the same source chip (one table holds entries of both)
        groups[1] = [groups[0][0], list(groups[1][1])]
    if prob["cfg"]["api"] == "wrapper":
        prob["rtr"] = rng.choice([1, 2, 3, 5, 1023])       # the wrapper takes its targets from the SystemInfo
        prob["rtr_exc"] = []
    nn = min(1 << universe["b"], rng.choice([0, 0, 3, 4, 5, 6, 8, 10, 14]))
    prob.pop("seq_tags", None)
    # nets keyed with merges of an earlier run; next to such a block, with probability 0.6, two single-key nets of
    # another route group whose common cover dips into the block
    fixed, role, avoid = [], [], []
    for km, holes in forced:
        km = tuple(km)
        if not in_universe(universe, km) or any(km_intersect(km, o) for o in fixed):
            continue
        fixed.append(km)
        role.append(0)
        sp = straddling_pair(rng, universe, km, holes) if rng.random() < 0.6 else None
        if sp and not any(km_intersect(e, o) for e in sp[:2] for o in fixed) and in_universe(universe, sp[0]) \
                and in_universe(universe, sp[1]):
            fixed += [sp[0], sp[1]]
            role += [1, 1]
            avoid.append(sp[2])
            prob.setdefault("seq_tags", []).append(
                "seq_pair_beside_earlier_merge" + ("_with_unused_keys" if holes else "") +
                ("_4plus" if bin(~km[1] & M32).count("1") >= 2 else ""))
    # partially used blocks: 2..(size-1) of the single keys of a 4- or 8-key block, all in one route group, the
    # other keys of the block unused (an application that does not use every value of a key field) - ordered
    # covering merges them into the block's key/mask although they do not fill it
    for _ in range(rng.choice([0, 1, 1, 2])):
        b = universe["b"]
        xs = rng.sample(range(b), min(rng.choice([2, 2, 3]), b - 1))
        care = ((1 << b) - 1) & ~sum(1 << x for x in xs)
        blk = cube_km(universe, rng.getrandbits(b) & care, care)
        if any(km_intersect(blk, o) for o in fixed + avoid):
            continue
        ks = x_fillings(None, blk[0], blk[1], "all")
        use = rng.sample(ks, rng.randrange(2, len(ks)))
        gi = rng.randrange(len(groups))
        for kk in ks:
            if kk in use:
                fixed.append((kk, M32))
                role.append(gi)
            else:
                avoid.append((kk, M32))
    if prob.get("seq_tags"):
        # a pair beside an earlier merge: ordered covering must run to the end, and (mostly) the pair's route group
        # forks from the block's at the same source chip
        if prob["cfg"]["api"] != "wrapper":
            prob["cfg"]["target"] = None
        if len(groups) >= 2 and rng.random() < 0.7 and groups[0][1] != groups[1][1]:
            groups[1] = [groups[0][0], list(groups[1][1])]
    cubes = gen_cubes(rng, universe, max(nn, len(fixed), 2), fixed, avoid)
    role += [None] * (len(cubes) - len(role))
    nets = []
    for i, km in enumerate(cubes):
        if role[i] is not None:
            g = groups[role[i] % len(groups)]       # the block's net in one route group, the pair in another
        else:
            g = groups[i % len(groups)] if rng.random() < 0.7 else rng.choice(groups)
        nets.append([g[0], list(g[1]), 1, km[0], km[1]])
    if rng.random() < 0.5:
        rng.shuffle(nets)
    prob["nets"] = nets
    prob["seq_groups"] = groups
    prob["fill"] = "all"
    prob["seq_member"] = True
    return prob


def fresh_outcomes(probs):
    """run the pipelines of `probs` one after the other in a FRESH interpreter; -> per problem a summary
    (status, final tables, expected deliveries) from which the delivery oracle can be evaluated"""
    import json
    import os
    import subprocess
    import sys
    from .common import VERIF, REPO
    code = ("import sys, json; sys.path[:0] = [%r, %r]; from harness import c01; "
            "json.dump(c01.fresh_main(json.load(sys.stdin)), sys.stdout)" % (VERIF, REPO))
    env = dict(os.environ, RIG_REPO=REPO)
    r = subprocess.run([sys.executable, "-c", code], input=json.dumps(probs).encode(), stdout=subprocess.PIPE,
                       stderr=subprocess.PIPE, env=env, timeout=600)
    if r.returncode != 0:
        raise RuntimeError("fresh interpreter failed: " + r.stderr.decode()[-500:])
    return json.loads(r.stdout.decode())


def fresh_main(probs):
    import warnings
    warnings.simplefilter("ignore")
    res = []
    for prob in probs:
        out = run_pipeline(prob)
        d = {"status": out["status"]}
        if out["status"] == "ok":
            d["tables1"] = [[c[0], c[1], t] for c, t in tables_c04(out["tables1"]).items()]
            d["expected"] = expected(prob, out)
        res.append(d)
    return res


def fresh_failures(ctx, probs):
    """-> set of failing clauses (finding keys) of the LAST problem when `probs` run alone in a fresh interpreter"""
    summ = fresh_outcomes(probs)[-1]
    prob = probs[-1]
    if summ["status"] != "ok":
        return set()
    rng = _random.Random(prob["seed"] ^ 0x77)
    queries = []
    for i, p in enumerate(prob["nets"]):
        for k in x_fillings(rng, p[3], p[4], prob.get("fill", 3)):
            e = summ["expected"][i]
            queries.append({"src": e[0], "key": k, "cores": e[1], "exits": e[2]})
    r = ctx.lean([dict(mach_json(prob), suite="c01", op="deliver", tables=summ["tables1"],
                       dev=[[d[1], d[2], d[3]] for d in prob["devices"]], queries=queries)])[0]
    bad = set()
    for q in r:
        if not q["ok"]:
            bad.update(q["why"])
    return bad


def register_seq_result(ctx, seq, k, res):
    """run k of sequence `seq` was judged: violations are confirmed in a fresh interpreter - alone first (then it is
    an ordinary single-run finding), else after the earlier runs of the sequence (history-dependent finding: the
    replay is the sequence)"""
    prob, st, findings, tags, nontriv, out = res
    viol = {}
    for kind, key, what in findings:
        if kind == "violation":
            viol.setdefault(key, what)
    ctx.tag("seq_run_%d" % k, "seq_status_" + st, *["seq_" + t for t in tags if t.startswith("tables-")])
    if not viol:
        register_result(ctx, prob, st, findings, tags, nontriv, out)
        return
    ctx.tag("seq_run_with_violation")
    nfresh = getattr(ctx, "_c01_fresh_n", 0)
    ctx._c01_fresh_n = nfresh + 1
    if nfresh >= 6:
        # enough findings were confirmed in fresh interpreters in this run; later ones are recorded as they are
        ctx.traces += 1
        for kind, key, what in findings:
            if kind == "violation":
                ctx.violation(key, what + " [run %d of a sequence of pipeline runs in one process; not re-run in a "
                              "fresh interpreter]" % (k + 1), {"seq": list(seq[:k + 1])})
            else:
                ctx.mismatch(key, what, prob)
        ctx.case({"seq": list(seq[:k + 1])}, True)
        return
    try:
        alone = fresh_failures(ctx, [prob])
    except Exception as e:      # noqa
        alone = None
        ctx.tag("seq_fresh_check_failed")
    if alone is None or set(viol) & alone:
        ctx.tag("seq_violation_reproduced_alone")
        register_result(ctx, prob, st, findings, tags, nontriv, out)
        return
    # passes alone: history dependent
    for kind, key, what in findings:
        if kind != "violation":
            ctx.mismatch(key, what, prob)
    ctx.traces += 1
    hist = list(seq[:k + 1])
    done = getattr(ctx, "_c01_seq_done", None)
    if done is None:
        done = ctx._c01_seq_done = set()
    try:
        whole = fresh_failures(ctx, hist)
        if set(viol) & whole and not set(viol) <= done:
            # drop earlier runs that are not needed
            t_end = time.time() + 25.0
            j = 0
            while j < len(hist) - 1 and len(hist) > 2 and time.time() < t_end:
                cand = hist[:j] + hist[j + 1:]
                if set(viol) & fresh_failures(ctx, cand):
                    hist = cand
                else:
                    j += 1
    except Exception:      # noqa
        whole = None
    case = {"seq": hist}
    for key, what in viol.items():
        if whole is not None and key in whole:
            note = (" [HISTORY-DEPENDENT: run %d of a sequence of pipeline runs in one process; the same run alone in a "
                    "fresh interpreter passes; replay = the sequence, %d runs]" % (k + 1, len(hist)))
            ctx.tag("seq_violation_history_dependent")
        else:
            note = (" [history-dependent: failed after earlier pipeline runs in this process, passes alone; the sequence "
                    "alone in a fresh interpreter did not reproduce it (the state came from other runs of this process)]")
            ctx.tag("seq_violation_not_reproduced")
            # observed in this process only: there is no input that reproduces it, so it is recorded as a broken
            # correspondence (the check fails, 'no failing input found'), not as a violation with a useless replay
            ctx.mismatch("c01.failed-after-other-runs-of-this-process", what + note, case)
            continue
        done.add(key)
        ctx.violation(key, what + note, case)
    ctx.case(case, True)


def eval_sequences(ctx, nseq):
    """nseq sequences of 2-4 pipeline runs, evaluated in waves (run 1 of every sequence, then run 2, ...: every later
    run comes after its predecessors in the same process); run k+1 of a sequence is generated from what run k
    produced"""
    seqs = [dict(u=gen_universe(ctx.rng), n=ctx.rng.choice([2, 2, 3, 3, 4]), probs=[], merges=[]) for _ in range(nseq)]
    for k in range(4):
        live = [q for q in seqs if q["n"] > k]
        if not live:
            break
        for q in live:
            forced = []
            if q["merges"]:
                ms = list(q["merges"])
                ctx.rng.shuffle(ms)
                if ctx.rng.random() < 0.7:
                    # prefer blocks of 4 and more keys that the earlier run left partly unused
                    ms.sort(key=lambda m: not (m[1] and bin(~m[0][1] & M32).count("1") >= 2))
                forced = ms[:ctx.rng.choice([1, 1, 2, 3])]
            q["probs"].append(gen_seq_problem(ctx.rng, q["probs"][-1] if q["probs"] else None, q["u"], forced))
            q["forced"] = forced
        for i in range(0, len(live), 40):
            part = live[i:i + 40]
            results = eval_problems(ctx, [q["probs"][k] for q in part], register=False)
            for q, res in zip(part, results):
                out = res[5]
                for m in merges_of(out):
                    if m[0] not in [x[0] for x in q["merges"]]:
                        q["merges"].append(m)
                if q["forced"]:
                    ctx.tag("seq_keys_from_earlier_merges")
                ctx.tag(*q["probs"][k].get("seq_tags", []))
                if k > 0 and merges_of(out):
                    ctx.tag("seq_later_run_merged")
                register_seq_result(ctx, q["probs"], k, res)


# --------------------------------------------------------------------------------------------
# SCALE: a handful of cases far beyond the usual size (judged by the delivery oracle only)
# --------------------------------------------------------------------------------------------
SCALE_KINDS = ["long-1xN", "long-Nx1", "long-2xN", "fanout", "many-nets", "long-repaired"]


def gen_scale_problem(rng, kind, lengths=(1500, 2048, 3000, 4000)):
    cfg = gen_cfg(rng)
    cfg.update(placer=rng.choice(["sequential", "breadth_first", "rand"]), pvar=0, radius=rng.choice([0, 2, 20, None]),
               api=rng.choice(["manual", "manual", "manual-sysinfo", "wrapper"]), target=None, target_dict=False,
               methods=rng.choice(["default", "rd"]), tables_api="rt2t", vkind=rng.choice(["int", "str", "tuple"]),
               big=None, memvar=False)
    prob = dict(dead_chips=[], ncores=18, exc=[], busy=[], sdram=100000, rtr=1023, rtr_exc=[], devices=[], cs=[],
                seed=rng.randrange(1 << 30), c03_rseed=None, cfg=cfg, scale=kind, fill=3)
    if kind.startswith("long"):
        n = rng.choice(list(lengths))
        w, h = {"long-1xN": (1, n), "long-Nx1": (n, 1), "long-2xN": (2, n), "long-repaired": (2, n)}[kind]
        dl = set()
        if rng.random() < 0.6:
            # a mesh: every link that leaves the rectangle is dead (trees as deep as the machine is long)
            for x in range(w):
                for y in range(h):
                    for l, (dx, dy) in enumerate(VECS):
                        if not (0 <= x + dx < w and 0 <= y + dy < h):
                            dl.add((x, y, l))
        if kind == "long-repaired":
            # the north link of both columns is dead near one end: the repair has to deal with disconnected subtrees
            # about as deep as the machine is long
            for x in range(w):
                y = rng.randrange(1, max(2, h // 10))
                dl.add((x, y, 2))
                dl.add((x, y + 1, 5))
        prob.update(w=w, h=h, dead_links=sorted(map(list, dl)))
        long_side = max(w, h)
        spots = sorted(set([0, long_side - 1, long_side // 2] + [rng.randrange(long_side) for _ in range(3)]))
        vr, cs = [], []
        for i, pos in enumerate(spots):
            vr.append([i, rng.choice([1, 2]), 0])
            c = [pos, 0] if w >= h else [rng.randrange(w), pos]
            cs.append({"t": "loc", "v": i, "c": c})
        nets = [[0, list(range(1, len(vr))), 1], [len(vr) - 1, [0], 1], [len(vr) // 2, [0, len(vr) - 1], 1]]
        prob.update(vr=vr, cs=cs)
    elif kind == "fanout":
        w = h = 8
        prob.update(w=w, h=h, dead_links=[], busy=[[x, y, [0]] for x in range(w) for y in range(h)])
        nv = 420
        vr = [[i, 1 if i % 50 else rng.choice([None, 0, 2]), 0] for i in range(nv)]
        sinks = rng.sample(range(nv), 300)
        nets = [[0, sinks, 1], [1, rng.sample(range(nv), 257), 1], [2, [rng.randrange(nv) for _ in range(300)], 1]]
        prob.update(vr=vr)
    else:
        w, h = rng.choice([(2, 2), (3, 3), (4, 2)])
        prob.update(w=w, h=h, dead_links=[], busy=[[x, y, [0]] for x in range(w) for y in range(h)])
        vr = [[i, 1, 0] for i in range(12)]
        groups = [[rng.randrange(12), [rng.randrange(12) for _ in range(rng.choice([1, 2, 3]))]] for _ in range(3)]
        nets = [list(groups[i % 3]) + [1] for i in range(rng.choice([257, 300, 400]))]
        nets = [[g[0], list(g[1]), 1] for g in nets]
        prob.update(vr=vr)
    keys = gen_keys(rng, len(nets))
    prob["nets"] = [[s_, k, wt, keys[i][0], keys[i][1]] for i, (s_, k, wt) in enumerate(nets)]
    return prob


def gen_empty_problem(rng, variant):
    """the other end of the scale: nothing to place / nothing to route"""
    prob = gen_problem(rng, [(1, 1), (2, 2), (3, 1)], gen_cfg(rng), faulty=False)
    if variant == "no-vertices":
        prob.update(vr=[], nets=[], devices=[], cs=[])
    elif variant == "no-nets":
        prob["nets"] = []
    else:
        prob["nets"] = [[n[0], [], n[2], n[3], n[4]] for n in prob["nets"]]      # nets without sinks only
    prob["edge"] = variant
    return prob


def eval_scale(ctx, n):
    for variant in ("no-vertices", "no-nets", "no-sinks"):
        res = eval_problems(ctx, [gen_empty_problem(ctx.rng, variant)], register=True)
        ctx.tag("edge_" + variant, "edge_status_" + res[0][1])
    for i in range(n):
        # every third case repairs a deep tree, every third is a long machine, every third has hundreds of sinks / nets
        kind = [["long-repaired"], ["long-1xN", "long-Nx1", "long-2xN"], ["fanout", "many-nets"]][i % 3]
        kind = ctx.rng.choice(kind)
        prob = gen_scale_problem(ctx.rng, kind, (1500, 2048) if ctx.quick else (1500, 2048, 3000, 4000))
        t = time.time()
        res = eval_problems(ctx, [prob], register=True)
        ctx.tag("scale_" + kind, "scale_status_" + res[0][1])
        if time.time() - t > 20:
            ctx.tag("scale_case_over_20s")


# --------------------------------------------------------------------------------------------
# HISTORIES: one caller, one process - calls repeated, twins in both orders, two applications alternately, the
# caller editing what it passed and what it was handed back, keeping earlier results, callbacks that fail
# --------------------------------------------------------------------------------------------
HIST_SIZES = [(1, 1), (2, 1), (1, 2), (2, 2), (3, 2), (3, 3), (4, 4), (5, 1), (6, 4)]
HIST_KINDS = ["repeat", "twins", "twins", "edit-passed", "edit-passed", "scribble", "keep", "alternate", "fault"]
TWIN_ASPECTS = ["net-drop", "sink-add", "sink-drop", "dead-link", "dead-link", "dead-link", "cores", "option", "swap-keys",
                "busy-core"]


def reload_rig():
    """forget the rig modules: a history starts with freshly imported modules, so that a replay of the history in a
    new process sees what the run saw (module-level / class-level / default-argument state)"""
    import sys
    for k in [k for k in sys.modules if k == "rig" or k.startswith("rig.")]:
        del sys.modules[k]
    _SUBCLASSES.clear()


def gen_twin(rng, prob):
    """a problem equal to `prob` in all but one aspect; -> (twin, aspect)"""
    import copy
    tw = copy.deepcopy(prob)
    tw["seed"] = prob["seed"]
    for _ in range(8):
        a = rng.choice(TWIN_ASPECTS)
        nets = tw["nets"]
        nv = len(tw["vr"])
        if a == "net-drop" and len(nets) > 1:
            del nets[rng.randrange(len(nets))]
        elif a == "sink-add" and nets:
            nets[rng.randrange(len(nets))][1].append(rng.randrange(nv))
        elif a == "sink-drop" and any(n[1] for n in nets):
            n = rng.choice([n for n in nets if n[1]])
            del n[1][rng.randrange(len(n[1]))]
        elif a == "dead-link":
            # the fault map differs: one more dead link, or (half of the time) 15% of the links
            dl = set(map(tuple, tw["dead_links"]))
            n0 = len(dl)
            for _ in range(1 if rng.random() < 0.3 else max(2, (6 * tw["w"] * tw["h"]) * 15 // 100)):
                dl.add((rng.randrange(tw["w"]), rng.randrange(tw["h"]), rng.randrange(6)))
            if len(dl) == n0:
                continue
            tw["dead_links"] = sorted(map(list, dl))
        elif a == "cores":
            cand = [v for v in tw["vr"] if v[1] and not any(d[0] == v[0] for d in tw["devices"])]
            if not cand:
                continue
            v = rng.choice(cand)
            v[1] = max(0, v[1] + rng.choice([-1, 1]))
        elif a == "option":
            f = rng.choice(["methods", "target", "radius", "placer"])
            new = {"methods": rng.choice(["default", "rd", "oc", "none"]), "target": rng.choice(TARGETS),
                   "radius": rng.choice(RADII), "placer": rng.choice(PLACERS)}[f]
            if new == tw["cfg"][f] or (f == "placer" and new == "sa-c" and tw["cfg"].get("big")):
                continue
            tw["cfg"][f] = new
        elif a == "swap-keys" and len(nets) > 1:
            i, j = rng.sample(range(len(nets)), 2)
            nets[i][3], nets[i][4], nets[j][3], nets[j][4] = nets[j][3], nets[j][4], nets[i][3], nets[i][4]
        elif a == "busy-core":
            dead = set(map(tuple, tw["dead_chips"]))
            live = [(x, y) for x in range(tw["w"]) for y in range(tw["h"]) if (x, y) not in dead]
            c = rng.choice(live)
            k = cores_map(tw)[c]
            b = [e for e in tw["busy"] if (e[0], e[1]) == c]
            core = rng.randrange(k)
            if b:
                if core in b[0][2]:
                    continue
                b[0][2] = sorted(b[0][2] + [core])
            else:
                tw["busy"].append([c[0], c[1], [core]])
        else:
            continue
        return tw, a
    return tw, "none"


def gen_history(rng):
    kind = rng.choice(HIST_KINDS)
    cfg = gen_cfg(rng)
    if rng.random() < 0.4:
        cfg["api"] = rng.choice(["wrapper", "manual-sysinfo"])
    A = gen_problem(rng, HIST_SIZES, cfg, faulty=rng.random() < 0.2)
    A["nets"] = A["nets"][:12]
    A["light"] = True
    A2, aspect = gen_twin(rng, A)
    probs = [A, A2]
    new, same, edit = "new", "same", "edit"

    def st(p, objs, **kw):
        d = {"p": p, "objs": objs}
        d.update(kw)
        return d
    if kind == "repeat":
        steps = [st(0, new), st(0, same), st(0, same), st(1, edit)]
    elif kind == "twins":
        order = rng.choice([[0, 1], [1, 0], [0, 1, 0], [1, 0, 1]])
        steps = [st(p, new, reuse_ids=True) for p in order]
    elif kind == "edit-passed":
        # the caller walks between the application and two twins of it, editing its objects in place every time
        A3, aspect3 = gen_twin(rng, A)
        probs = [A, A2, A3]
        aspect = "%s,%s" % (aspect, aspect3)
        cur = rng.randrange(3)
        steps = [st(cur, new)]
        for _ in range(rng.choice([3, 4, 5, 6])):
            cur = rng.choice([p for p in range(3) if p != cur])
            steps.append(st(cur, edit))
    elif kind == "scribble":
        steps = [st(0, new, scribble=True), st(0, same, scribble=True), st(1, edit, scribble=True), st(1, same)]
    elif kind == "keep":
        steps = [st(0, new), st(1, new, reuse_ids=True), st(0, same), st(1, same), st(0, edit)]
    elif kind == "alternate":
        B = gen_problem(rng, HIST_SIZES, gen_cfg(rng), faulty=False)
        B["nets"] = B["nets"][:12]
        B["light"] = True
        probs = [A, B]
        aspect = "other-application"
        steps = [st(0, new), st(1, new), st(0, same), st(1, same)]
        if rng.random() < 0.5:
            steps += [st(0, same), st(1, same)]
    else:
        stages = ["place", "allocate", "route", "minimise"]
        steps = [st(0, new, fail=rng.choice(stages)), st(0, same), st(1, edit, fail=rng.choice(stages)), st(1, same)]
    return {"kind": kind, "aspect": aspect, "probs": probs, "steps": steps}


def edit_in_place(old, new):
    """the caller edits, in place, every mutable object it passed last time so that it now describes `new`"""
    if set(old) != set(new) or type(old.get("machine")) is not type(new.get("machine")):
        return new
    for k in list(old["vr"]):
        if k not in new["vr"]:
            del old["vr"][k]
    for k, d in new["vr"].items():
        if k in old["vr"]:
            old["vr"][k].clear()
            old["vr"][k].update(d)
        else:
            old["vr"][k] = d
    onets, nnets = old["nets"], new["nets"]
    for i, n in enumerate(nnets):
        if i < len(onets):
            onets[i].source, onets[i].weight = n.source, n.weight
            onets[i].sinks[:] = n.sinks
        else:
            onets.append(n)
    del onets[len(nnets):]
    old["net_keys"].clear()
    for on, nn in zip(onets, nnets):
        old["net_keys"][on] = new["net_keys"][nn]
    old["user_cs"][:] = new["user_cs"]
    if "cs" in old:
        old["cs"][:] = new["cs"]
    if "machine" in old:
        mo, mn = old["machine"], new["machine"]
        mo.width, mo.height = mn.width, mn.height
        mo.chip_resources.clear()
        mo.chip_resources.update(mn.chip_resources)
        mo.chip_resource_exceptions.clear()
        mo.chip_resource_exceptions.update(mn.chip_resource_exceptions)
        for attr in ("dead_chips", "dead_links"):
            if isinstance(getattr(mo, attr), set):
                getattr(mo, attr).clear()
                getattr(mo, attr).update(getattr(mn, attr))
            else:
                setattr(mo, attr, getattr(mn, attr))
    si = old["sysinfo"]
    si.clear()
    si.update(new["sysinfo"])
    si.width, si.height = new["sysinfo"].width, new["sysinfo"].height
    old["apps"].clear()
    old["apps"].update(new["apps"])
    old["V"], old["Vinv"] = new["V"], new["Vinv"]
    return old


def scribble(out):
    """the caller edits, in place, everything it was handed back (nested objects included)"""
    from rig.place_and_route.routing_tree import RoutingTree
    for name in ("tables1", "tables0"):
        for t in list(out[name].values()):
            for e in t:
                e.sources.clear()
                e.sources.add(None)
            del t[:]
        out[name].clear()
    todo = [t for t in out["routes"].values()]
    seen = set()
    while todo:
        t = todo.pop()
        if id(t) in seen:
            continue
        seen.add(id(t))
        todo += [c for _, c in t.children if isinstance(c, RoutingTree)]
        del t.children[:]
        t.chip = (0, 0)
    out["routes"].clear()
    for d in list(out["allocations"].values()):
        d.clear()
    out["allocations"].clear()
    out["placements"].clear()


def snapshot(out):
    """canonical form of what a run returned (kept by the caller, looked at again later)"""
    vinv = out["o"]["Vinv"]
    ids = list(out["o"]["ids"])
    return (sorted((c, t) for c, t in tables_c04(out["tables1"]).items()),
            sorted((vinv.get(v, -1), tuple(c)) for v, c in out["placements"].items()),
            sorted((vinv.get(v, -1), sorted((ids.index(r) if r in ids else -1, sl.start, sl.stop) for r, sl in d.items()))
                   for v, d in out["allocations"].items()))


def eval_histories(ctx, hists):
    plan = [(h, si) for h in hists for si in range(len(h["steps"]))]
    pos = [0]
    state = {}
    kept = []
    changed = []

    def runner(prob):
        h, si = plan[pos[0]]
        st = h["steps"][si]
        if si == 0:
            reload_rig()
            state.clear()
            state["objs"] = {}
            state["last"] = None
        last = state["last"]
        if st["objs"] == "same" and st["p"] in state["objs"]:
            o = state["objs"][st["p"]]
        elif st["objs"] == "edit" and last is not None:
            o = edit_in_place(last, build(prob, reuse=last))
            for k in [k for k, v in state["objs"].items() if v is o]:
                del state["objs"][k]
        else:
            o = build(prob, reuse=last if st.get("reuse_ids") else None)
        out = run_pipeline(prob, o=o, fail_at=st.get("fail"))
        state["objs"][st["p"]] = o
        state["last"] = o
        return out

    def after(prob, out):
        h, si = plan[pos[0]]
        st = h["steps"][si]
        if out["status"] == "ok":
            if st.get("scribble"):
                scribble(out)
            else:
                kept.append((h, si, prob, out, snapshot(out)))
        if si == len(h["steps"]) - 1:
            # the caller looks again at every result it kept
            for h2, sj, p2, o2, snap in kept:
                if h2 is h and snapshot(o2) != snap:
                    changed.append((h2, sj, p2, o2))
            del kept[:]
        pos[0] += 1
    probs = [dict(h["probs"][h["steps"][si]["p"]]) for h, si in plan]
    results = eval_problems(ctx, probs, register=False, runner=runner, after=after)
    # results that changed after they were returned: judged again by the delivery oracle, as they are now
    extra = {}
    if changed:
        reqs = []
        for h, sj, p2, o2 in changed:
            r, idx = lean_requests(dict(p2, light=True), o2, _random.Random(p2["seed"] ^ 0x77))
            reqs.append((r[0], idx[0][1]))
        reps = ctx.lean([r for r, _ in reqs])
        for (h, sj, p2, o2), (r, qmeta), rep_ in zip(changed, reqs, reps):
            bad = sorted(set(w for q in rep_ if isinstance(q, dict) and not q["ok"] for w in q["why"]))
            extra[(id(h), sj)] = bad
    fresh_n = [0]
    for (h, si), res in zip(plan, results):
        prob, st, findings, tags, nontriv, out = res
        step = h["steps"][si]
        ctx.traces += 1
        hist_case = {"hist": dict(h, steps=h["steps"][:max(si + 1, len(h["steps"]) if (id(h), si) in extra else 0)])}
        ctx.tag("hist_kind_" + h["kind"], "hist_step_objs_" + step["objs"], "hist_status_" + st, *tags)
        if si == 0:
            ctx.tag(*["hist_twin_aspect_" + a for a in str(h.get("aspect")).split(",")])
        if step.get("scribble"):
            ctx.tag("hist_results_scribbled")
        if step.get("fail"):
            ctx.tag("hist_fault_at_" + step["fail"], "hist_fault_" + ("raised" if st == "InjectedFault" else "not_reached"))
        if (id(h), si) in extra:
            ctx.tag("hist_kept_result_changed")
            bad = extra[(id(h), si)]
            ctx.mismatch("c01.kept-result-changed", "the tables / placements / allocations returned by run %d of a history "
                         "(%s) changed after they were returned, during later calls" % (si + 1, h["kind"]), hist_case)
            for why in bad:
                ctx.violation(why, "the tables returned by run %d of a history changed after they were returned (later "
                              "calls of the library with the caller's objects) and no longer deliver: %s" % (si + 1, why),
                              hist_case)
        viol = {}
        for kind, key, what in findings:
            if kind == "violation":
                viol.setdefault(key, what)
            else:
                ctx.mismatch(key, what + " [run %d of a history of kind %s]" % (si + 1, h["kind"]), hist_case)
        if viol:
            alone = None
            if fresh_n[0] < 4:
                fresh_n[0] += 1
                try:
                    alone = fresh_failures(ctx, [prob])
                except Exception:      # noqa
                    alone = None
            if alone is not None and set(viol) & alone:
                ctx.tag("hist_violation_reproduced_alone")
                register_result(ctx, prob, st, [f for f in findings if f[0] == "violation"], [], nontriv, out)
                continue
            for key, what in viol.items():
                ctx.tag("hist_violation_history_dependent")
                ctx.violation(key, what + " [run %d of a HISTORY of kind %s (%s): one caller, one process, objects %s%s; "
                              "replay = the history]" % (si + 1, h["kind"], h.get("aspect"), step["objs"],
                                                          "" if alone is None else "; the same run alone in a fresh "
                                                          "interpreter passes"), hist_case)
        if si == len(h["steps"]) - 1:
            ctx.case({"hist": h}, True)


# --------------------------------------------------------------------------------------------
# entry points
# --------------------------------------------------------------------------------------------
SIZES_Q = [(1, 1), (1, 2), (2, 1), (1, 4), (5, 1), (2, 2), (2, 3), (2, 6), (3, 3), (3, 4), (4, 4), (5, 5), (6, 4), (7, 2),
           (6, 6), (8, 8), (8, 3)]
SIZES_T = SIZES_Q + [(10, 10), (12, 12), (16, 4), (16, 16), (24, 24), (24, 2), (12, 20)]


def corpus_cases():
    import json
    import os
    from .common import VERIF
    d = os.path.join(VERIF, "corpus", "C01")
    out = []
    if os.path.isdir(d):
        for fn in sorted(os.listdir(d)):
            if fn.endswith(".json"):
                c = json.load(open(os.path.join(d, fn))).get("case")
                # entries of other streams (sequences, histories, model pipeline) are replayed by ./check's
                # run_corpus through replay(); only single-problem entries are problems of this stream
                if isinstance(c, dict) and "cfg" in c and "nets" in c:
                    out.append(c)
    return out


def run(ctx):
    ctx.extra["rule"] = RULE
    ctx.assumptions += [
        "a link named by a RouteEndpointConstraint carries a device, not a chip: it is a dead link of the machine model",
        "net keys are pairwise non-intersecting (documented precondition of routing_tree_to_tables)",
        "a packet that returns to a chip it already passed through is counted as circulating",
        "rig_c_sa (C annealing kernel) is an opaque binary: its placements are judged by the oracle only",
        "the global `random` generator is seeded per case (the router draws from it)",
        "model-pipeline stream: set iteration orders (destination set, broken-link set) and the router's random draws "
        "are recorded from the implementation and given to the model as oracle inputs (the theorem holds for all of them)",
        "sequence stream: a run that fails after earlier runs of its sequence but passes alone in a fresh interpreter is "
        "reported as a violation of the property by the LATER run (the property quantifies over every application mapped, "
        "not only the first one in a process); the replay is the sequence"]
    ctx.extra["trusted_base"] = ["the SpiNNaker multicast router rules written in Rig.C01.visit (first match, default "
                                 "route = opposite link, drop of unmatched local packets, core bits 6..23)"]
    n = ctx.scale(1000, 12000)
    if ctx.extended:
        n *= 4
    sizes = SIZES_Q if ctx.quick else SIZES_T
    probs = corpus_cases()
    for i in range(n):
        cfg = gen_cfg(ctx.rng, i)
        sz = sizes if (ctx.quick or ctx.rng.random() < 0.35) else SIZES_Q
        probs.append(gen_problem(ctx.rng, sz, cfg, faulty=(i % 4 == 3)))
    for i in range(0, len(probs), 25):
        eval_problems(ctx, probs[i:i + 25])
    # the composed model pipeline (subject of `model_pipeline_delivers`) = the hand-chained implementation
    npipe = ctx.scale(250, 3000)
    if ctx.extended:
        npipe *= 4
    pprobs = []
    for i in range(npipe):
        sz = sizes if (ctx.quick or ctx.rng.random() < 0.35) else SIZES_Q
        pprobs.append(gen_pipe_problem(ctx.rng, sz, faulty=(i % 4 == 3)))
    for i in range(0, len(pprobs), 50):
        eval_pipe_problems(ctx, pprobs[i:i + 50])
    # histories: one caller, one process (rig re-imported at the start of each)
    nh = ctx.scale(30, 300)
    if ctx.extended:
        nh *= 4
    hists = [gen_history(ctx.rng) for _ in range(nh)]
    for i in range(0, nh, 10):
        eval_histories(ctx, hists[i:i + 10])
    # sequences of pipeline runs in one process with related key assignments
    nseq = ctx.scale(220, 2000)
    if ctx.extended:
        nseq *= 4
    eval_sequences(ctx, nseq)
    # a handful of cases far beyond the usual size
    eval_scale(ctx, ctx.scale(3, 12))
    # the wrapper models (subject of `wrapper_pipeline_delivers`) = the real wrappers, SystemInfo onwards
    # (last, so that the earlier streams draw what they drew before this stream existed)
    nwrap = ctx.scale(100, 1000)
    if ctx.extended:
        nwrap *= 4
    wprobs = []
    for i in range(nwrap):
        sz = sizes if (ctx.quick or ctx.rng.random() < 0.35) else SIZES_Q
        wprobs.append(gen_wrap_problem(ctx.rng, sz, i, faulty=(i % 4 == 3)))
    for i in range(0, len(wprobs), 30):
        eval_wrap_problems(ctx, wprobs[i:i + 30])


def replay(ctx, payload):
    ctx.extra["rule"] = RULE
    if "hist" in payload["case"]:
        eval_histories(ctx, [payload["case"]["hist"]])
    elif "seq" in payload["case"]:
        # a history-dependent finding: all runs of the sequence in this (fresh) process, each judged
        seq = payload["case"]["seq"]
        for k, prob in enumerate(seq):
            for prob_, st, findings, tags, nontriv, out in eval_problems(ctx, [prob], register=False):
                ctx.traces += 1
                for kind, key, what in findings:
                    if kind == "violation":
                        ctx.violation(key, what + " [run %d of %d of the replayed sequence]" % (k + 1, len(seq)),
                                      payload["case"])
                    else:
                        ctx.mismatch(key, what, prob)
        ctx.case(payload["case"], True)
    elif payload["case"].get("wrap"):
        eval_wrap_problems(ctx, [payload["case"]])
    elif payload["case"].get("pipe"):
        eval_pipe_problems(ctx, [payload["case"]])
    else:
        eval_problems(ctx, [payload["case"]])
