"""Translator part for C16: the data of rig/type_casts.py - the list of widths
NumpyFloatToFixConverter accepts and its (signed, n_bits) -> dtype table."""
import ast
from harness.gen_tables import HEADER, read_source, lean_list


def gen_type_casts(repo):
    tree = ast.parse(read_source(repo, "rig/type_casts.py"))
    cls = [n for n in tree.body if isinstance(n, ast.ClassDef) and n.name == "NumpyFloatToFixConverter"][0]
    # dtypes = {(signed, bits): np.<name>, ...}
    table = []
    for node in cls.body:
        if isinstance(node, ast.Assign) and getattr(node.targets[0], "id", None) == "dtypes":
            for k, v in zip(node.value.keys, node.value.values):
                signed, bits = ast.literal_eval(k)
                table.append((bool(signed), int(bits), v.attr))
    if not table:
        raise ValueError("dtypes table not found")
    # `if n_bits not in [8, 16, 32, 64]`
    widths = None
    for node in ast.walk(cls):
        if isinstance(node, ast.Compare) and len(node.ops) == 1 and isinstance(node.ops[0], ast.NotIn) \
                and getattr(node.left, "id", None) == "n_bits":
            widths = [int(x) for x in ast.literal_eval(node.comparators[0])]
    if widths is None:
        raise ValueError("accepted widths not found")
    s = HEADER + "namespace Rig.Gen.TypeCasts\n"
    s += "/-- widths accepted by NumpyFloatToFixConverter.__init__ -/\n"
    s += "def npBits : List Nat := %s\n" % lean_list(widths)
    s += "/-- NumpyFloatToFixConverter.dtypes: (signed, n_bits, numpy dtype name) -/\n"
    s += "def dtypeTable : List (Bool × Nat × String) := %s\n" % lean_list(
        table, lambda t: '(%s, %d, "%s")' % ("true" if t[0] else "false", t[1], t[2]))
    s += "end Rig.Gen.TypeCasts\n"
    return s, 2


GENERATORS = {"TypeCasts": gen_type_casts}
