"""Translator part for C04: the `Routes` enumeration of rig/routing_table/entries.py (member
names and integer values in definition order, read from the source by AST - no import) and the
default value of `RoutingTableEntry.__new__`'s `sources` parameter."""
import ast
from harness.gen_tables import HEADER, read_source


def _lean_str(s):
    return '"' + s.replace("\\", "\\\\").replace('"', '\\"') + '"'


def gen_routes(repo):
    src = read_source(repo, "rig/routing_table/entries.py")
    tree = ast.parse(src)
    members = None
    default_sources = None
    for node in tree.body:
        if isinstance(node, ast.ClassDef) and node.name == "Routes":
            members = []
            for st in node.body:
                if isinstance(st, ast.Assign) and len(st.targets) == 1 and isinstance(st.targets[0], ast.Name):
                    v = ast.literal_eval(st.value)
                    if not isinstance(v, int) or isinstance(v, bool) or v < 0:
                        raise ValueError("Routes.%s is not a natural number" % st.targets[0].id)
                    members.append((st.targets[0].id, v))
        if isinstance(node, ast.ClassDef) and node.name == "RoutingTableEntry":
            for st in node.body:
                if isinstance(st, ast.FunctionDef) and st.name == "__new__":
                    names = [a.arg for a in st.args.args]
                    if names != ["cls", "route", "key", "mask", "sources"]:
                        raise ValueError("RoutingTableEntry.__new__ has parameters %r" % (names,))
                    if len(st.args.defaults) != 1:
                        raise ValueError("RoutingTableEntry.__new__: expected exactly one default")
                    d = ast.literal_eval(st.args.defaults[0])
                    if not isinstance(d, set):
                        raise ValueError("default sources is not a set literal")
                    default_sources = sorted(24 if x is None else int(x) for x in d)
    if not members:
        raise ValueError("class Routes not found")
    if default_sources is None:
        raise ValueError("RoutingTableEntry.__new__ not found")
    out = [HEADER, "namespace Rig.Gen.C04Routes\n",
           "/-- members of `Routes` (name, value) in definition order -/\n",
           "def members : List (String × Nat) := [" +
           ", ".join("(%s, %d)" % (_lean_str(n), v) for n, v in members) + "]\n",
           "/-- default of `RoutingTableEntry(..., sources=...)`: element 24 stands for `None` -/\n",
           "def defaultSources : List Nat := [" + ", ".join(str(x) for x in default_sources) + "]\n",
           "end Rig.Gen.C04Routes\n"]
    return "".join(out), len(members) + 1


GENERATORS = {"C04Routes": gen_routes}
