"""Translator part for C19: the SpiNN-5 data tables of rig/geometry.py and the
Links enumeration / vectors of rig/links.py.

The tables are *computed* at import time in the source (SPINN5_ETH_OFFSET is a
list comprehension over a table of absolute coordinates), so they are read by
importing `rig.geometry` from the repo's working tree in a fresh interpreter
(never from a module cached in this process) and dumping the values as JSON.
The Ethernet-chip triple inside `spinn5_eth_coords` is a literal in a function
body; it is read by AST.
"""
import ast
import json
import subprocess
import sys

from harness.gen_tables import HEADER, read_source

_DUMP = r"""
import sys, json
sys.path.insert(0, sys.argv[1])
import warnings
warnings.simplefilter("ignore")
from rig import geometry as g
from rig.links import Links
import rig.links as L
off = g.SPINN5_ETH_OFFSET
rows = [[[int(v) for v in cell] for cell in row] for row in off.tolist()]
fl = [[int(k[0]), int(k[1]), int(k[2]), int(v[0]), int(v[1])] for k, v in g.SPINN5_FPGA_LINKS.items()]
links = [[l.name, int(l), int(l.to_vector()[0]), int(l.to_vector()[1]), int(l.opposite)] for l in Links]
json.dump({"off": rows, "fpga": fl, "links": links, "file": g.__file__}, sys.stdout)
"""


def _eth_triple(repo):
    """the literal tuple of (dx, dy) iterated over in spinn5_eth_coords"""
    tree = ast.parse(read_source(repo, "rig/geometry.py"))
    for fn in tree.body:
        if isinstance(fn, ast.FunctionDef) and fn.name == "spinn5_eth_coords":
            for n in ast.walk(fn):
                if isinstance(n, ast.For) and isinstance(n.iter, (ast.Tuple, ast.List)):
                    v = ast.literal_eval(n.iter)
                    if all(isinstance(p, tuple) and len(p) == 2 for p in v):
                        return [(int(a), int(b)) for a, b in v]
    raise ValueError("literal (dx, dy) tuple of spinn5_eth_coords not found")


def _pt(p):
    return "(%d, %d)" % (p[0], p[1])


def gen_spinn5(repo):
    p = subprocess.run([sys.executable, "-c", _DUMP, repo], stdout=subprocess.PIPE,
                       stderr=subprocess.PIPE, timeout=120)
    if p.returncode != 0:
        raise RuntimeError("cannot import rig.geometry from %s: %s" % (repo, p.stderr.decode()[-400:]))
    d = json.loads(p.stdout.decode())
    triple = _eth_triple(repo)
    s = HEADER + "namespace Rig.Gen.Spinn5\n\n"
    s += "/-- SPINN5_ETH_OFFSET, `ethOffset[y][x] = (dx, dy)` -/\n"
    s += "def ethOffset : List (List (Int × Int)) := [\n"
    s += ",\n".join("  [" + ", ".join(_pt(c) for c in row) + "]" for row in d["off"])
    s += "]\n\n"
    s += "/-- SPINN5_FPGA_LINKS in source order: ((x, y, link), (fpga_num, link_num)) -/\n"
    s += "def fpgaLinks : List ((Int × Int × Int) × (Nat × Nat)) := [\n"
    s += ",\n".join("  ((%d, %d, %d), (%d, %d))" % tuple(e) for e in d["fpga"])
    s += "]\n\n"
    s += "/-- the (dx, dy) literal iterated over by spinn5_eth_coords -/\n"
    s += "def ethTriple : List (Int × Int) := [" + ", ".join(_pt(t) for t in triple) + "]\n\n"
    s += "/-- rig.links.Links: (name, value, to_vector(), opposite) in definition order -/\n"
    s += "def links : List (String × Int × (Int × Int) × Int) := [\n"
    s += ",\n".join('  ("%s", %d, (%d, %d), %d)' % tuple(l) for l in d["links"])
    s += "]\n\n"
    s += "end Rig.Gen.Spinn5\n"
    return s, 4


GENERATORS = {"Spinn5": gen_spinn5}
