"""Translator part for C14: everything the probing code reads as *data*:
enumerations (AppState, RuntimeException, P2PTableEntry, Links, the `info`
and `sver` command numbers), the P2P table base address, the router
diagnostic register address and counter names, and the `sv` / `vcpu` layouts
of rig/boot/sark.struct (parsed here, independently of rig's own parser)."""
import ast
import os
import re

from harness.gen_tables import HEADER, read_source, lean_list


def _const_env(tree):
    """top-level NAME = <int expression over earlier names>"""
    env = {}
    for node in tree.body:
        if isinstance(node, ast.Assign) and len(node.targets) == 1 and isinstance(node.targets[0], ast.Name):
            ok = all(isinstance(n, (ast.Expression, ast.BinOp, ast.Constant, ast.Name, ast.Load, ast.operator,
                                    ast.UnaryOp, ast.unaryop)) for n in ast.walk(node.value))
            if not ok:
                continue
            try:
                v = eval(compile(ast.Expression(node.value), "<c>", "eval"), {"__builtins__": {}}, dict(env))
            except Exception:
                continue
            if isinstance(v, int) and not isinstance(v, bool):
                env[node.targets[0].id] = v
    return env


def _enum(tree, name):
    """[(member, value)] of `class name(...)` in source order"""
    for node in tree.body:
        if isinstance(node, ast.ClassDef) and node.name == name:
            out = []
            for st in node.body:
                if isinstance(st, ast.Assign) and len(st.targets) == 1 and isinstance(st.targets[0], ast.Name):
                    try:
                        out.append((st.targets[0].id, int(ast.literal_eval(st.value))))
                    except Exception:
                        pass
            return out
    raise KeyError(name)


def parse_struct(repo):
    """{struct: {"base", "size", "fields": [(name, offset, elem_size, is_string, count)]}}"""
    return parse_struct_text(open(os.path.join(repo, "rig", "boot", "sark.struct"), "rb").read().decode())


def parse_struct_text(text):
    """the same for the text of any struct file (independent of rig's own parser)"""
    out, cur = {}, None
    size_of = {"c": 1, "C": 1, "v": 2, "V": 4}
    for line in text.splitlines():
        line = line.split("#")[0].strip()
        if not line:
            continue
        m = re.match(r"(name|size|base)\s*=\s*(\S+)$", line)
        if m:
            if m.group(1) == "name":
                cur = out.setdefault(m.group(2), {"fields": []})
            else:
                cur[m.group(1)] = int(m.group(2), 0)
            continue
        tok = line.split()
        if len(tok) == 5:
            name, cnt = tok[0], 1
            mm = re.match(r"(\w+)\[(\d+)\]$", name)
            if mm:
                name, cnt = mm.group(1), int(mm.group(2))
            ms = re.match(r"A(\d+)$", tok[1])
            if ms:
                cur["fields"].append((name, int(tok[2], 0), int(ms.group(1)), True, cnt))
            else:
                cur["fields"].append((name, int(tok[2], 0), size_of[tok[1]], False, cnt))
    return out


def _mc_literals(repo):
    """address and length read by get_router_diagnostics, counter names of RouterDiagnostics"""
    tree = ast.parse(read_source(repo, "rig/machine_control/machine_controller.py"))
    addr = length = None
    names = None
    for node in ast.walk(tree):
        if isinstance(node, ast.FunctionDef) and node.name == "get_router_diagnostics":
            for c in ast.walk(node):
                if isinstance(c, ast.Call) and isinstance(c.func, ast.Attribute) and c.func.attr == "read":
                    addr = ast.literal_eval(c.args[0])
                    length = ast.literal_eval(c.args[1])
        if isinstance(node, ast.ClassDef) and node.name == "RouterDiagnostics":
            call = node.bases[0]
            names = ast.literal_eval(call.args[1])
    return addr, length, names


def gen_c14(repo):
    ctree = ast.parse(read_source(repo, "rig/machine_control/consts.py"))
    env = _const_env(ctree)
    app = _enum(ctree, "AppState")
    rte = _enum(ctree, "RuntimeException")
    p2p = _enum(ctree, "P2PTableEntry")
    cmds = dict(_enum(ctree, "SCPCommands"))
    links = _enum(ast.parse(read_source(repo, "rig/links.py")), "Links")
    st = parse_struct(repo)
    sv = {f[0]: f for f in st["sv"]["fields"]}
    diag_addr, diag_len, diag_names = _mc_literals(repo)
    s = HEADER + "namespace Rig.Gen.C14\n"
    s += "def APPSTATE_VALUES : List Nat := %s\n" % lean_list(sorted(v for _, v in app))
    s += "def APPSTATE_IDLE : Nat := %d\n" % dict(app)["idle"]
    s += "def RTE_VALUES : List Nat := %s\n" % lean_list(sorted(v for _, v in rte))
    s += "def P2P_VALUES : List Nat := %s\n" % lean_list(sorted(v for _, v in p2p))
    s += "def P2P_NONE : Nat := %d\n" % dict(p2p)["none"]
    s += "def LINK_VALUES : List Nat := %s\n" % lean_list(sorted(v for _, v in links))
    s += "def SPINNAKER_RTR_P2P : Nat := %d\n" % env["SPINNAKER_RTR_P2P"]
    s += "def CMD_INFO : Nat := %d\n" % cmds["info"]
    s += "def CMD_SVER : Nat := %d\n" % cmds["sver"]
    s += "def SV_BASE : Nat := %d\n" % st["sv"]["base"]
    for nm in ("p2p_dims", "iobuf_size", "vcpu_base", "num_cpus"):
        s += "def SV_%s_OFF : Nat := %d\n" % (nm.upper(), sv[nm][1])
        s += "def SV_%s_SIZE : Nat := %d\n" % (nm.upper(), sv[nm][2] * sv[nm][4])
    s += "def VCPU_SIZE : Nat := %d\n" % st["vcpu"]["size"]
    s += "/-- (name, offset, element size, is string, count) in file order -/\n"
    s += "def VCPU_FIELDS : List (String × Nat × Nat × Bool × Nat) := %s\n" % lean_list(
        st["vcpu"]["fields"],
        lambda f: '("%s", %d, %d, %s, %d)' % (f[0], f[1], f[2], "true" if f[3] else "false", f[4]))
    s += "/-- the `sv` struct: (name, offset, element size, is string, count) in file order -/\n"
    s += "def SV_FIELDS : List (String × Nat × Nat × Bool × Nat) := %s\n" % lean_list(
        st["sv"]["fields"],
        lambda f: '("%s", %d, %d, %s, %d)' % (f[0], f[1], f[2], "true" if f[3] else "false", f[4]))
    s += "def ROUTER_DIAG_ADDR : Nat := %d\n" % diag_addr
    s += "def ROUTER_DIAG_LEN : Nat := %d\n" % diag_len
    s += "def ROUTER_DIAG_NAMES : List String := %s\n" % lean_list(diag_names, lambda x: '"%s"' % x)
    s += "end Rig.Gen.C14\n"
    return s, 13


GENERATORS = {"C14": gen_c14}
