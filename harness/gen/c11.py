"""Translator part for C11: the link enumeration and the two lookup dictionaries of
rig/links.py, read from the module as it is at run time (the dictionaries are
built by executing module-level statements, so the run-time value is the data)."""
import importlib
import sys
from harness.gen_tables import HEADER, lean_list


def _load_links(repo):
    if repo not in sys.path:
        sys.path.insert(0, repo)
    mod = importlib.import_module("rig.links")
    src = getattr(mod, "__file__", "")
    if not src.startswith(repo.rstrip("/") + "/"):
        raise RuntimeError("rig.links was imported from %r, not from %r" % (src, repo))
    return mod


def gen_links(repo):
    m = _load_links(repo)
    names = [(l.name, int(l)) for l in m.Links]
    fwd = [((int(k[0]), int(k[1])), int(v)) for k, v in m._link_direction_lookup.items()]
    back = [(int(k), (int(v[0]), int(v[1]))) for k, v in m._direction_link_lookup.items()]
    s = HEADER + "namespace Rig.Gen.Links\n"
    s += "/-- `Links` members in definition order: (name, value) -/\n"
    s += "def linkNames : List (String × Nat) := %s\n" % lean_list(names, lambda x: '("%s", %d)' % x)
    s += "/-- `_link_direction_lookup` in insertion order: ((x, y), link) -/\n"
    s += "def linkDirectionLookup : List ((Int × Int) × Nat) := %s\n" % lean_list(
        fwd, lambda x: "((%d, %d), %d)" % (x[0][0], x[0][1], x[1]))
    s += "/-- `_direction_link_lookup` in insertion order: (link, (x, y)) -/\n"
    s += "def directionLinkLookup : List (Nat × (Int × Int)) := %s\n" % lean_list(
        back, lambda x: "(%d, (%d, %d))" % (x[0], x[1][0], x[1][1]))
    s += "end Rig.Gen.Links\n"
    return s, 3


GENERATORS = {"Links": gen_links}
