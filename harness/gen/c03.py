"""Translator part for C03: the link enumeration and the vector <-> link lookup
tables of rig/links.py, and the numbering of core routes of
rig/routing_table/entries.py, as the running code has them."""
import ast
from harness.gen_tables import HEADER, read_source, lean_list


def _enum_members(tree, cls):
    out = []
    for node in tree.body:
        if isinstance(node, ast.ClassDef) and node.name == cls:
            for st in node.body:
                if isinstance(st, ast.Assign) and len(st.targets) == 1 and isinstance(st.targets[0], ast.Name):
                    try:
                        out.append((st.targets[0].id, ast.literal_eval(st.value)))
                    except Exception:
                        pass
    return out


def _vec(node):
    v = ast.literal_eval(node)
    assert isinstance(v, tuple) and len(v) == 2
    return (int(v[0]), int(v[1]))


def gen_links(repo):
    tree = ast.parse(read_source(repo, "rig/links.py"))
    members = _enum_members(tree, "Links")            # definition order = iteration order
    val = dict(members)
    base, extra = [], []
    for node in tree.body:
        if isinstance(node, ast.Assign) and len(node.targets) == 1:
            t = node.targets[0]
            if isinstance(t, ast.Name) and t.id == "_link_direction_lookup":
                for k, v in zip(node.value.keys, node.value.values):
                    base.append((_vec(k), val[v.attr]))
            elif (isinstance(t, ast.Subscript) and isinstance(t.value, ast.Name) and
                  t.value.id == "_link_direction_lookup"):
                key = t.slice if not isinstance(t.slice, ast.Index) else t.slice.value
                extra.append((_vec(key), val[node.value.attr]))
    if len(base) < 1:
        raise ValueError("_link_direction_lookup not found")
    # _direction_link_lookup = {l: v for (v, l) in iteritems(_link_direction_lookup)} is computed *before*
    # the special-case entries are added
    to_vec = {}
    for v, l in base:
        to_vec[l] = v
    order = [v for _, v in members]
    # the `opposite` property: read the arithmetic from the source
    opp_src = None
    for node in ast.walk(tree):
        if isinstance(node, ast.FunctionDef) and node.name == "opposite":
            opp_src = ast.get_source_segment(read_source(repo, "rig/links.py"), node.body[-1])
    if opp_src is None:
        raise ValueError("Links.opposite not found")
    opp = []
    for l in order:
        expr = opp_src.replace("return", "").strip()
        opp.append(int(eval(expr, {"Links": int, "self": l})))
    rt = ast.parse(read_source(repo, "rig/routing_table/entries.py"))
    routes = dict(_enum_members(rt, "Routes"))
    core_base = routes["core_monitor"]
    n_cores = len([k for k in routes if k.startswith("core_")])
    link_routes = [routes[n] for n, _ in members]
    fmt_vec = lambda v: "((%d : Int), (%d : Int))" % v
    s = HEADER + "namespace Rig.Gen.C03Links\n"
    s += "/-- `list(Links)` as integers (iteration order of the enumeration) -/\n"
    s += "def linkOrder : List Nat := %s\n" % lean_list(order)
    s += "/-- `Links(l).to_vector()` for l = 0.. (index = link value) -/\n"
    s += "def linkVecs : List (Int × Int) := %s\n" % lean_list(
        [to_vec[l] for l in sorted(to_vec)], fmt_vec)
    s += "def linkVecKeys : List Nat := %s\n" % lean_list(sorted(to_vec))
    s += "/-- `_link_direction_lookup` including the 2xN special cases -/\n"
    s += "def fromVectorTable : List ((Int × Int) × Nat) := %s\n" % lean_list(
        base + extra, lambda e: "(%s, %d)" % (fmt_vec(e[0]), e[1]))
    s += "/-- `int(Links(l).opposite)` for l in linkOrder -/\n"
    s += "def oppositeTable : List Nat := %s\n" % lean_list(opp)
    s += "/-- `int(Routes.<link name>)` for every link, in linkOrder -/\n"
    s += "def linkRoutes : List Nat := %s\n" % lean_list(link_routes)
    s += "def coreRouteBase : Nat := %d\n" % core_base
    s += "def numCoreRoutes : Nat := %d\n" % n_cores
    s += "end Rig.Gen.C03Links\n"
    return s, 7


GENERATORS = {"C03Links": gen_links}
