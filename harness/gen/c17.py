"""Translator part for C17: the inventory of process-wide mutable state in rig/,
read from the source by an AST scan on every run:

  * module-level names bound to a mutable container (list/dict/set literal or
    comprehension, dict()/list()/set()/defaultdict()/OrderedDict()/deque()),
  * mutable default argument values,
  * class-level mutable attributes,
  * `global` statements,

each with the number of places that syntactically write through that name
(subscript/attribute assignment, augmented assignment, del, or a call of a
mutating method) inside its scope.  The Lean side (Model/C17.lean) holds the
reviewed classification; an unreviewed or newly written entry breaks the
obligation `inventory_classified`.
"""
import ast
import os

from harness.gen_tables import HEADER

MUTATORS = {"append", "extend", "insert", "remove", "pop", "clear", "sort", "reverse", "update",
            "setdefault", "popitem", "add", "discard", "appendleft", "popleft", "extendleft",
            "difference_update", "intersection_update", "symmetric_difference_update", "__setitem__",
            "__delitem__", "rotate"}
MUTABLE_CALLS = {"dict", "list", "set", "defaultdict", "OrderedDict", "deque", "bytearray", "Counter"}


def is_mutable_expr(node):
    if isinstance(node, (ast.List, ast.Dict, ast.Set, ast.ListComp, ast.DictComp, ast.SetComp)):
        return True
    if isinstance(node, ast.Call):
        f = node.func
        name = f.id if isinstance(f, ast.Name) else f.attr if isinstance(f, ast.Attribute) else None
        return name in MUTABLE_CALLS
    return False


def _writes(scope, name):
    """(lineno) of every syntactic write through `name` inside `scope`"""
    out = []
    for node in ast.walk(scope):
        targets = []
        if isinstance(node, ast.Assign):
            targets = node.targets
        elif isinstance(node, (ast.AugAssign, ast.AnnAssign)):
            targets = [node.target]
        elif isinstance(node, ast.Delete):
            targets = node.targets
        for t in targets:
            for sub in ast.walk(t):
                if isinstance(sub, (ast.Subscript, ast.Attribute)) and isinstance(sub.value, ast.Name) \
                        and sub.value.id == name:
                    out.append(node.lineno)
            if isinstance(node, ast.AugAssign) and isinstance(t, ast.Name) and t.id == name:
                out.append(node.lineno)
        if isinstance(node, ast.Call) and isinstance(node.func, ast.Attribute) \
                and isinstance(node.func.value, ast.Name) and node.func.value.id == name \
                and node.func.attr in MUTATORS:
            out.append(node.lineno)
    return out


def count_writes(scope, name, module_level=False):
    """Number of syntactic writes through `name` that can reach the shared object:
    * for a parameter: writes before the first statement that rebinds the name to a new object
      (`name = dict(name)`, `name = name[:]`, `name = a + name` ...);
    * for a module-level name: writes inside function bodies only (top-level statements run once,
      at import)."""
    if module_level:
        return sum(len(_writes(f, name)) for f in ast.walk(scope)
                   if isinstance(f, (ast.FunctionDef, ast.Lambda)))
    rebinds = [n.lineno for n in ast.walk(scope)
               if isinstance(n, ast.Assign) and any(isinstance(t, ast.Name) and t.id == name for t in n.targets)]
    first = min(rebinds) if rebinds else 10 ** 9
    return len([l for l in _writes(scope, name) if l < first])


def scan(repo):
    entries = []
    root = os.path.join(repo, "rig")
    for d, _, files in sorted(os.walk(root)):
        for fn in sorted(files):
            if not fn.endswith(".py"):
                continue
            path = os.path.join(d, fn)
            mod = os.path.relpath(path, repo)[:-3].replace(os.sep, ".")
            tree = ast.parse(open(path).read())
            # module-level containers
            for node in tree.body:
                if isinstance(node, ast.Assign) and is_mutable_expr(node.value):
                    for t in node.targets:
                        if isinstance(t, ast.Name) and t.id != "__all__":
                            entries.append((mod, t.id, "module", count_writes(tree, t.id, True)))
            for node in ast.walk(tree):
                if isinstance(node, ast.ClassDef):
                    for b in node.body:
                        if isinstance(b, ast.Assign) and is_mutable_expr(b.value):
                            for t in b.targets:
                                if isinstance(t, ast.Name) and t.id != "__slots__":
                                    entries.append((mod, "%s.%s" % (node.name, t.id), "class", count_writes(tree, t.id, True)))
                if isinstance(node, (ast.FunctionDef, ast.Lambda)):
                    a = node.args
                    pos = a.posonlyargs + a.args
                    pairs = list(zip(pos[len(pos) - len(a.defaults):], a.defaults))
                    pairs += [(k, v) for k, v in zip(a.kwonlyargs, a.kw_defaults) if v is not None]
                    fname = getattr(node, "name", "<lambda>")
                    for arg, default in pairs:
                        if is_mutable_expr(default):
                            entries.append((mod, "%s(%s)" % (fname, arg.arg), "default", count_writes(node, arg.arg)))
                if isinstance(node, ast.Global):
                    for nm in node.names:
                        entries.append((mod, nm, "global", 1))
    return sorted(set(entries))


def gen_state(repo):
    ents = scan(repo)
    s = HEADER + "namespace Rig.Gen.State\n"
    s += "/-- (module, name, kind, number of syntactic writes through the name in its scope) -/\n"
    s += "def inventory : List (String × String × String × Nat) := [\n"
    s += ",\n".join('  ("%s", "%s", "%s", %d)' % e for e in ents)
    s += "\n]\nend Rig.Gen.State\n"
    return s, 1


GENERATORS = {"State": gen_state}


# =====================================================================================================
# Effect scan (static counterpart of "arguments are not modified" / "no state on objects that outlive
# a call").  Conservative and purely syntactic; see CLAIM.note in harness/c17.py for what it can and
# cannot see.  For every function / method / nested function of rig/ (without rig/scripts and
# rig/wizard.py) it lists every statement through which an object reachable from
#   * a parameter                                  (root = the parameter's name),
#   * `self` (first parameter of a method), outside `__init__`   (root = "self" / "cls" ...),
#   * a free name: a module-level name, a function / class / imported module (attribute stores only),
#     or a variable of an enclosing function (closure cell)     (root = "global:<n>" / "closure:<n>"),
# can be written in place.
#
# Taint: every local name carries {root: level}; level 0 = the object itself is (part of) the root's
# object graph, level n = a fresh container with n fresh layers above objects of the root's graph (shallow
# copy, view, literal, a local dict of fresh lists that hold them ...).  Only level 0 receivers are effects.
# Statements are processed in source order; a name loses its taint only by an unconditional rebinding
# directly in the function body (`constraints = constraints[:]`); loop bodies are processed twice.
# =====================================================================================================
VIEW_METHODS = {"items", "values", "keys", "iteritems", "itervalues", "iterkeys", "viewitems", "viewvalues",
                "viewkeys", "copy", "union", "intersection", "difference", "symmetric_difference"}
ELEMENT_METHODS = {"get", "pop", "popitem", "setdefault", "popleft", "__getitem__"}
SHALLOW_FUNCS = {"list", "dict", "set", "tuple", "frozenset", "sorted", "OrderedDict", "deque", "defaultdict",
                 "copy", "Counter", "iter", "reversed", "chain", "islice", "filter",
                 "itervalues", "iterkeys", "viewvalues", "viewkeys", "cycle"}
TUPLING = {"items", "iteritems", "viewitems", "enumerate", "zip", "izip"}     # yield fresh tuples of elements
ELEMENT_FUNCS = {"next", "min", "max", "getattr"}
FRESH_METHODS = {"format", "join", "split", "index", "count", "encode", "decode", "pack", "unpack", "unpack_from",
                 "strip", "lower", "upper", "startswith", "endswith", "isdisjoint", "issubset", "issuperset",
                 "tobytes", "tolist", "astype", "bit_length", "to_bytes", "_replace", "deepcopy", "time", "random",
                 "randint", "choice", "sample", "uniform"} - {"choice", "sample"}
# functions of the standard library / NumPy that write into one of their arguments: name -> positions
EXTERNAL_ARG_MUTATORS = {"heappush": [0], "heappop": [0], "heapify": [0], "heapreplace": [0], "heappushpop": [0],
                         "shuffle": [0], "insort": [0], "insort_left": [0], "insort_right": [0], "setattr": [0],
                         "delattr": [0], "copyto": [0], "pack_into": [1], "recv_into": [0], "readinto": [0],
                         "next": [0], "move_to_end": [], "put": [0], "fill": []}
MUTATORS_FX = MUTATORS | {"move_to_end", "itemset", "resize"}
import builtins as _builtins
BUILTIN_NAMES = set(dir(_builtins))
STORE_MUTATORS = {"append", "add", "extend", "insert", "update", "setdefault", "appendleft", "extendleft",
                  "__setitem__", "heappush"}


def _join(*ts):
    out = {}
    for t in ts:
        for r, l in t.items():
            out[r] = min(l, out.get(r, 9))
    return out


def _down(t):
    """an element / attribute of the value"""
    return {r: max(l - 1, 0) for r, l in t.items()}


def _up(t, n=1):
    """a fresh container holding the value (n layers)"""
    return {r: l + n for r, l in t.items()}


def _shallow(t):
    """a shallow copy / view / slice of the value: a fresh outer layer, the same elements"""
    return {r: max(l, 1) for r, l in t.items()}


class _Fn(object):
    def __init__(self, mod, qual, node, cls, parent):
        self.mod, self.qual, self.node, self.cls, self.parent = mod, qual, node, cls, parent
        a = node.args
        self.params = [x.arg for x in a.posonlyargs + a.args]
        self.kwonly = [x.arg for x in a.kwonlyargs]
        self.vararg = a.vararg.arg if a.vararg else None
        self.kwarg = a.kwarg.arg if a.kwarg else None
        decos = set()
        for d in node.decorator_list:
            d = d.func if isinstance(d, ast.Call) else d
            decos.add(d.id if isinstance(d, ast.Name) else d.attr if isinstance(d, ast.Attribute) else "")
        self.is_method = cls is not None and parent is None and "staticmethod" not in decos and bool(self.params)
        self.selfname = self.params[0] if self.is_method else None
        self.short = node.name
        self.mutates = set()        # parameter names (incl. the self name) through which it can write
        self.locals = self._locals()
        self.effects = {}           # (root, kind, text) -> set of node ids

    def all_params(self):
        return self.params + self.kwonly + [p for p in (self.vararg, self.kwarg) if p]

    def _locals(self):
        names = set(self.all_params())
        declared = set()
        stack = list(self.node.body)
        while stack:
            n = stack.pop()
            if isinstance(n, (ast.FunctionDef, ast.AsyncFunctionDef, ast.ClassDef)):
                names.add(n.name)
                continue
            if isinstance(n, ast.Lambda):
                continue
            if isinstance(n, (ast.Global, ast.Nonlocal)):
                declared |= set(n.names)
            if isinstance(n, ast.Name) and isinstance(n.ctx, (ast.Store, ast.Del)):
                names.add(n.id)
            if isinstance(n, (ast.Import, ast.ImportFrom)):
                for al in n.names:
                    names.add((al.asname or al.name).split(".")[0])
            if isinstance(n, ast.ExceptHandler) and n.name:
                names.add(n.name)
            stack.extend(ast.iter_child_nodes(n))
        self.declared = declared
        return names - declared


class EffectScan(object):
    def __init__(self, repo):
        self.fns = []
        self.by_short = {}
        self.classes = {}           # class name -> [_Fn of __init__/__new__]
        self.module_imports = {}    # module -> names bound by `import x` / `import x as y` (module objects)
        self.bases = {}             # class name -> names of its base classes (last component)
        self.external_names, self.from_rig, self.modules = {}, {}, set()
        root = os.path.join(repo, "rig")
        for d, _, files in sorted(os.walk(root)):
            rel = os.path.relpath(d, repo)
            if rel.split(os.sep)[:2] == ["rig", "scripts"]:
                continue
            for fn in sorted(files):
                if not fn.endswith(".py") or (rel == "rig" and fn == "wizard.py"):
                    continue
                path = os.path.join(d, fn)
                mod = os.path.relpath(path, repo)[:-3].replace(os.sep, ".")
                tree = ast.parse(open(path).read())
                imps, ext = set(), set()
                for n in ast.walk(tree):
                    if isinstance(n, ast.Import):
                        for al in n.names:
                            imps.add((al.asname or al.name).split(".")[0])
                    if isinstance(n, ast.ImportFrom):
                        inside = n.level > 0 or (n.module or "").split(".")[0] == "rig"
                        for al in n.names:
                            if inside:
                                self.from_rig.setdefault(mod, set()).add((al.name, al.asname or al.name))
                            else:
                                ext.add(al.asname or al.name)   # a class / function of another library
                self.module_imports[mod] = imps
                self.external_names[mod] = ext
                self.modules.add(mod)
                self._collect(mod, tree.body, "", None, None)
        lasts = set(m.split(".")[-1] for m in self.modules) | set(m.split(".")[-2] for m in self.modules if "." in m)
        for mod, pairs in self.from_rig.items():
            for name, asname in pairs:
                if name in lasts:           # `from . import boot`: a module object
                    self.module_imports[mod].add(asname)
        for f in self.fns:
            self.by_short.setdefault(f.short, []).append(f)
            if f.cls and f.parent is None and f.short in ("__init__", "__new__"):
                self.classes.setdefault(f.cls, []).append(f)

    def _collect(self, mod, body, prefix, cls, parent):
        for n in body:
            if isinstance(n, (ast.FunctionDef, ast.AsyncFunctionDef)):
                f = _Fn(mod, prefix + n.name, n, cls, parent)
                self.fns.append(f)
                self._collect_nested(mod, n, prefix + n.name + ".", cls, f)
            elif isinstance(n, ast.ClassDef):
                self._class(n)
                self._collect(mod, n.body, prefix + n.name + ".", n.name, parent)
            elif isinstance(n, (ast.If, ast.Try, ast.With, ast.For, ast.While)):
                for field in ("body", "orelse", "finalbody"):
                    self._collect(mod, getattr(n, field, []) or [], prefix, cls, parent)
                for h in getattr(n, "handlers", []) or []:
                    self._collect(mod, h.body, prefix, cls, parent)

    def _class(self, n):
        bs = self.bases.setdefault(n.name, set())
        for b in n.bases:
            bs.add(b.id if isinstance(b, ast.Name) else b.attr if isinstance(b, ast.Attribute) else "?")

    def _ancestors(self, cls):
        seen, todo = set(), [cls]
        while todo:
            for b in self.bases.get(todo.pop(), ()):
                if b not in seen:
                    seen.add(b)
                    todo.append(b)
        return seen

    def _collect_nested(self, mod, fnode, prefix, cls, parent):
        stack = list(fnode.body)
        while stack:
            n = stack.pop(0)
            if isinstance(n, (ast.FunctionDef, ast.AsyncFunctionDef)):
                f = _Fn(mod, prefix + n.name, n, cls, parent)
                self.fns.append(f)
                self._collect_nested(mod, n, prefix + n.name + ".", cls, f)
            elif isinstance(n, ast.ClassDef):
                self._class(n)
                self._collect(mod, n.body, prefix + n.name + ".", n.name, parent)
            else:
                stack.extend(c for c in ast.iter_child_nodes(n) if isinstance(c, (ast.stmt, ast.ExceptHandler)))

    # ---------------------------------------------------------------------------------------------
    def run(self):
        for _ in range(12):
            changed = False
            for f in self.fns:
                if f.parent is None:
                    changed |= self._scan_fn(f, {})
            if not changed:
                break
        out = {}
        for f in self.fns:
            for (root, kind, text), ids in f.effects.items():
                if root == f.selfname and f.short == "__init__" and f.parent is None:
                    continue
                out[(f.mod, f.qual, root, kind, text)] = len(ids)
        return sorted((k + (v,)) for k, v in out.items())

    def _scan_fn(self, f, outer_env):
        self.f = f
        before = (len(f.mutates), sum(len(v) for v in f.effects.values()))
        env = dict((k, v) for k, v in outer_env.items() if k not in f.locals and v)
        for p in f.all_params():
            env[p] = {p: 1 if p in (f.vararg, f.kwarg) else 0}   # *args / **kwargs: fresh tuple / dict of the caller's values
        f.env_final = env
        nested = []
        self._block(f, f.node.body, env, True, nested)
        f.env_final = env
        for g, env_at_def in nested:
            self._scan_fn(g, _merge_env(env_at_def, env))
            self.f = f
            # what the nested function does to the variables of this one happens when it is called; a
            # nested function is called (or handed out) by the function that defines it
            for (root, kind, text), ids in g.effects.items():
                if root.startswith("closure:"):
                    continue
                if root in f.all_params() and root not in g.all_params():
                    f.mutates.add(root)
        after = (len(f.mutates), sum(len(v) for v in f.effects.values()))
        return before != after

    def _effect(self, f, roots, kind, node, text_node=None):
        if isinstance(node, (ast.For, ast.AsyncFor)):
            text = "for %s in %s" % (ast.unparse(node.target), ast.unparse(node.iter))
        elif isinstance(node, (ast.With, ast.AsyncWith)):
            text = "with " + ", ".join(ast.unparse(i) for i in node.items)
        else:
            text = ast.unparse(text_node if text_node is not None else node)
        text = " ".join(text.split())
        for root in roots:
            f.effects.setdefault((root, kind, text), set()).add((node.lineno, node.col_offset))
            if kind == "augassign":
                # `name op= value` on a bare name: in place only for a mutable object (list += ...); listed,
                # but not propagated to the callers (nearly always integer / tuple arithmetic)
                continue
            base = root
            if base in f.all_params():
                f.mutates.add(base)
            elif f.parent is not None and not base.startswith(("global:", "closure:")):
                # a parameter of an enclosing function, written through by this nested function
                f.mutates.add(base)

    # -- taint of an expression ---------------------------------------------------------------------
    def _free_root(self, f, name):
        g = f.parent
        while g is not None:
            if name in g.locals:
                return "closure:" + name
            g = g.parent
        return "global:" + name

    def taint(self, f, e, env):
        if e is None:
            return {}
        if isinstance(e, ast.Name):
            if e.id in env:
                return env[e.id]
            if e.id in f.locals or e.id in BUILTIN_NAMES or e.id in self.external_names.get(f.mod, ()):
                return {}
            return {self._free_root(f, e.id): 0}
        if isinstance(e, ast.Attribute):
            return _down(self.taint(f, e.value, env))
        if isinstance(e, ast.Subscript):
            t = self.taint(f, e.value, env)
            if isinstance(e.slice, ast.Slice):
                return _shallow(t)
            return _down(t)
        if isinstance(e, ast.Starred):
            return self.taint(f, e.value, env)
        if isinstance(e, ast.IfExp):
            return _join(self.taint(f, e.body, env), self.taint(f, e.orelse, env))
        if isinstance(e, ast.BoolOp):
            return _join(*[self.taint(f, v, env) for v in e.values])
        if isinstance(e, ast.BinOp):
            return _shallow(_join(self.taint(f, e.left, env), self.taint(f, e.right, env)))
        if isinstance(e, (ast.Tuple, ast.List, ast.Set)):
            return _up(_join(*[self.taint(f, v, env) for v in e.elts])) if e.elts else {}
        if isinstance(e, ast.Dict):
            # (keys are hashable objects: what is reachable through a KEY is not tracked)
            return _up(_join(*[self.taint(f, v, env) for v in e.values])) if e.values else {}
        if isinstance(e, (ast.ListComp, ast.SetComp, ast.GeneratorExp, ast.DictComp)):
            env2 = dict(env)
            for g in e.generators:
                self._bind(f, g.target, _down(self.taint(f, g.iter, env2)), env2, False)
            if isinstance(e, ast.DictComp):
                return _up(self.taint(f, e.value, env2))
            return _up(self.taint(f, e.elt, env2))
        if isinstance(e, ast.Call):
            fn = e.func
            name = fn.id if isinstance(fn, ast.Name) else fn.attr if isinstance(fn, ast.Attribute) else None
            is_method = isinstance(fn, ast.Attribute) and not (
                isinstance(fn.value, ast.Name) and fn.value.id not in f.locals and fn.value.id not in env
                and fn.value.id in self.module_imports.get(f.mod, ()))
            args = e.args[1:] if name == "defaultdict" else e.args
            argt = _join(*[self.taint(f, a, env) for a in args]) if args else {}
            if is_method and name in ELEMENT_METHODS:
                return _down(self.taint(f, fn.value, env))
            if is_method and name in TUPLING:
                return _up(_shallow(self.taint(f, fn.value, env)))
            if is_method and name in VIEW_METHODS:
                return _shallow(self.taint(f, fn.value, env))
            if name in TUPLING:
                return _up(_shallow(argt))
            if name in SHALLOW_FUNCS:
                return _shallow(argt)
            if name in ELEMENT_FUNCS:
                return _down(_join(*[self.taint(f, a, env) for a in e.args[:1]])) if e.args else {}
            if is_method and name not in FRESH_METHODS:
                # any other method of a reachable object may hand out a part of it (getters: `self.fields.get_field(..)`)
                return _down(self.taint(f, fn.value, env))
            return {}
        return {}

    def _is_import(self, f, root):
        return root.startswith("global:") and root[7:] in self.module_imports.get(f.mod, ())

    def _bind(self, f, target, t, env, kill):
        if isinstance(target, ast.Name):
            if target.id in f.declared:
                return
            if kill:
                if t:
                    env[target.id] = dict(t)
                else:
                    env.pop(target.id, None)
                    env[target.id] = {}
            else:
                env[target.id] = _join(env.get(target.id, {}), t)
        elif isinstance(target, (ast.Tuple, ast.List)):
            for x in target.elts:
                self._bind(f, x.value if isinstance(x, ast.Starred) else x, _down(t), env, kill)

    def _store(self, f, target, value_t, env, node, kind_prefix=""):
        """a store through `target` (Subscript / Attribute): effect on what the base is part of; the base, when a
        local container, now holds the value"""
        if isinstance(target, (ast.Subscript, ast.Attribute)):
            t = self.taint(f, target.value, env)
            roots = sorted(r for r, l in t.items() if l == 0)
            kind = kind_prefix + ("setitem" if isinstance(target, ast.Subscript) else "setattr")
            if roots:
                self._effect(f, roots, kind, node)
            base, depth = target.value, 1
            while isinstance(base, (ast.Subscript, ast.Attribute)):
                base, depth = base.value, depth + 1
            # a LOCAL container / object now holds the value (parameters and self: not tracked, see CLAIM.note)
            if isinstance(base, ast.Name) and base.id in f.locals and value_t and base.id not in f.all_params():
                env[base.id] = _join(env.get(base.id, {}), _up(value_t, depth))
        elif isinstance(target, (ast.Tuple, ast.List)):
            for x in target.elts:
                self._store(f, x, _down(value_t), env, node, kind_prefix)

    # -- statements ---------------------------------------------------------------------------------
    # `env` is updated in place.  A rebinding (`x = <fresh>`) removes the taint of x for the rest of the
    # block it stands in; at the end of a conditional block the environments are joined again.
    def _block(self, f, body, env, top, nested):
        for s in body:
            self._stmt(f, s, env, True, nested)

    @staticmethod
    def _set_env(env, new):
        env.clear()
        env.update(new)

    def _stmt(self, f, s, env, top, nested):
        if isinstance(s, (ast.FunctionDef, ast.AsyncFunctionDef)):
            g = next((x for x in self.fns if x.node is s), None)
            if g is not None:
                nested.append((g, dict(env)))
            for d in s.decorator_list:
                self._exprs(f, d, env)
            return
        if isinstance(s, ast.ClassDef):
            return
        if isinstance(s, ast.Nonlocal):
            for nm in s.names:
                self._effect(f, ["closure:" + nm], "nonlocal", s)
            return
        if isinstance(s, ast.Global):
            for nm in s.names:
                self._effect(f, ["global:" + nm], "global", s)
            return
        if isinstance(s, ast.Assign):
            self._exprs(f, s.value, env)
            t = self.taint(f, s.value, env)
            for tg in s.targets:
                self._exprs_target(f, tg, env)
                if isinstance(tg, (ast.Tuple, ast.List)) and isinstance(s.value, (ast.Tuple, ast.List)) \
                        and len(tg.elts) == len(s.value.elts) and not any(isinstance(x, ast.Starred) for x in tg.elts):
                    ts = [self.taint(f, b_, env) for b_ in s.value.elts]
                    for a_, t_ in zip(tg.elts, ts):
                        self._assign1(f, a_, t_, env, top, s)
                else:
                    self._assign1(f, tg, t, env, top, s, unpack=isinstance(tg, (ast.Tuple, ast.List)))
            return
        if isinstance(s, ast.AnnAssign):
            if s.value is not None:
                self._exprs(f, s.value, env)
                self._assign1(f, s.target, self.taint(f, s.value, env), env, top, s)
            return
        if isinstance(s, ast.AugAssign):
            self._exprs(f, s.value, env)
            self._exprs_target(f, s.target, env)
            vt = self.taint(f, s.value, env)
            if isinstance(s.target, ast.Name):
                t = self.taint(f, s.target, env)
                roots = sorted(r for r, l in t.items() if l == 0)
                if s.target.id in f.declared:
                    roots = [self._free_root(f, s.target.id)]
                    self._effect(f, roots, "rebind", s)
                elif roots:
                    self._effect(f, roots, "augassign", s)
                if s.target.id in f.locals and vt:
                    env[s.target.id] = _join(env.get(s.target.id, {}), _shallow(vt))
            else:
                self._store(f, s.target, vt, env, s, "aug-")
            return
        if isinstance(s, ast.Delete):
            for tg in s.targets:
                self._exprs_target(f, tg, env)
                if isinstance(tg, (ast.Subscript, ast.Attribute)):
                    t = self.taint(f, tg.value, env)
                    roots = sorted(r for r, l in t.items() if l == 0)
                    if roots:
                        self._effect(f, roots, "del", s)
                elif isinstance(tg, ast.Name):
                    env[tg.id] = {}
            return
        if isinstance(s, (ast.For, ast.AsyncFor, ast.While)):
            loop = dict(env)
            for _ in range(2):
                if isinstance(s, ast.While):
                    self._exprs(f, s.test, loop)
                else:
                    self._exprs(f, s.iter, loop)
                    it = _down(self.taint(f, s.iter, loop))
                    self._exprs_target(f, s.target, loop)
                    self._assign1(f, s.target, it, loop, False, s)
                self._block(f, s.body, loop, True, nested)
                loop = _merge_env(env, loop)        # the next iteration, or no iteration at all
            self._block(f, s.orelse, loop, True, nested)
            self._set_env(env, _merge_env(env, loop))
            return
        if isinstance(s, ast.If):
            self._exprs(f, s.test, env)
            e1, e2 = dict(env), dict(env)
            self._block(f, s.body, e1, True, nested)
            self._block(f, s.orelse, e2, True, nested)
            self._set_env(env, _merge_env(e1, e2))
            return
        if isinstance(s, (ast.With, ast.AsyncWith)):
            for item in s.items:
                self._exprs(f, item.context_expr, env)
                if item.optional_vars is not None:
                    t = self.taint(f, item.context_expr, env)
                    self._assign1(f, item.optional_vars, t, env, False, s)
            self._block(f, s.body, env, True, nested)
            return
        if isinstance(s, ast.Try):
            e1 = dict(env)
            self._block(f, s.body, e1, True, nested)
            outs = []
            e_ok = dict(e1)
            self._block(f, s.orelse, e_ok, True, nested)
            outs.append(e_ok)
            for h in s.handlers:
                eh = _merge_env(env, e1)        # the exception may come from anywhere in the body
                self._block(f, h.body, eh, True, nested)
                outs.append(eh)
            res = outs[0]
            for o in outs[1:]:
                res = _merge_env(res, o)
            self._set_env(env, res)
            self._block(f, s.finalbody, env, True, nested)
            return
        # Expr, Return, Raise, Assert, ... : only the expressions matter
        for c in ast.iter_child_nodes(s):
            if isinstance(c, ast.expr):
                self._exprs(f, c, env)

    def _assign1(self, f, tg, t, env, top, s, unpack=False):
        if isinstance(tg, ast.Name):
            if tg.id in f.declared:
                self._effect(f, [self._free_root(f, tg.id)], "rebind", s)
                return
            self._bind(f, tg, t, env, top)
        elif isinstance(tg, (ast.Tuple, ast.List)):
            for x in tg.elts:
                self._assign1(f, x.value if isinstance(x, ast.Starred) else x, _down(t), env, top, s)
        else:
            self._store(f, tg, t, env, s)

    def _exprs_target(self, f, tg, env):
        """calls inside the index / base expressions of an assignment target"""
        for c in ast.walk(tg):
            if isinstance(c, ast.Call):
                self._call(f, c, env)

    def _exprs(self, f, e, env):
        """every call in expression `e` (comprehension variables are bound while inside the comprehension)"""
        if isinstance(e, (ast.ListComp, ast.SetComp, ast.GeneratorExp, ast.DictComp)):
            env2 = dict(env)
            for g in e.generators:
                self._exprs(f, g.iter, env2)
                self._bind(f, g.target, _down(self.taint(f, g.iter, env2)), env2, False)
                for c in g.ifs:
                    self._exprs(f, c, env2)
            for part in ([e.key, e.value] if isinstance(e, ast.DictComp) else [e.elt]):
                self._exprs(f, part, env2)
            return
        if isinstance(e, ast.Lambda):
            env2 = dict(env)
            for a in e.args.posonlyargs + e.args.args + e.args.kwonlyargs:
                env2[a.arg] = {}
            self._exprs(f, e.body, env2)
            return
        if isinstance(e, ast.Call):
            self._call(f, e, env)
        for c in ast.iter_child_nodes(e):
            if isinstance(c, ast.expr):
                self._exprs(f, c, env)
            elif isinstance(c, ast.keyword):
                self._exprs(f, c.value, env)
            elif isinstance(c, ast.comprehension):
                pass

    def _call(self, f, c, env):
        fn = c.func
        name = fn.id if isinstance(fn, ast.Name) else fn.attr if isinstance(fn, ast.Attribute) else None
        if name is None:
            return
        # (1) a mutating method of a built-in container called on a reachable object
        if isinstance(fn, ast.Attribute) and name in MUTATORS_FX:
            t = self.taint(f, fn.value, env)
            roots = sorted(r for r, l in t.items() if l == 0 and not self._is_import(f, r))
            if roots:
                self._effect(f, roots, "call:" + name, c)
            if name in STORE_MUTATORS:
                base, depth = fn.value, 1
                while isinstance(base, (ast.Subscript, ast.Attribute)):
                    base, depth = base.value, depth + 1
                vt = _join(*[self.taint(f, a, env) for a in c.args]) if c.args else {}
                if name in ("extend", "update", "extendleft"):
                    vt = _down(vt)
                if isinstance(base, ast.Name) and base.id in f.locals and vt and base.id not in f.all_params():
                    env[base.id] = _join(env.get(base.id, {}), _up(vt, depth))
        # (2) a library function known to write into an argument
        if name in EXTERNAL_ARG_MUTATORS and not (isinstance(fn, ast.Attribute) and name in MUTATORS_FX):
            for pos in EXTERNAL_ARG_MUTATORS[name]:
                if pos < len(c.args):
                    t = self.taint(f, c.args[pos], env)
                    roots = sorted(r for r, l in t.items() if l == 0 and not self._is_import(f, r))
                    if roots:
                        self._effect(f, roots, "call:" + name, c)
        # (3) one of rig's own functions / methods that the scan found to write through that position
        cands = []
        if isinstance(fn, ast.Name):
            cands += [(g, 0) for g in self.by_short.get(name, []) if not g.is_method]
            cands += [(g, 1) for g in self.classes.get(name, [])]
        elif name in ("__init__", "__new__"):
            # `super(...).__init__(...)` / `Base.__init__(self, ...)`: the constructors of rig's own base classes
            anc = self._ancestors(f.cls) if f.cls else set()
            explicit = isinstance(fn.value, ast.Name) and fn.value.id in self.classes
            for g in self.by_short.get(name, []):
                if g.cls in anc or (explicit and g.cls == fn.value.id):
                    cands.append((g, 0 if explicit else 1))
        else:
            for g in self.by_short.get(name, []):
                cands.append((g, 1 if g.is_method else 0))
            cands += [(g, 1) for g in self.classes.get(name, [])]
        builtin_reported = isinstance(fn, ast.Attribute) and name in MUTATORS_FX
        hit = {}
        for g, skip in cands:
            if not g.mutates:
                continue
            pos_params = g.params[skip:]
            for i, a in enumerate(c.args):
                if isinstance(a, ast.Starred):
                    ps = pos_params[i:] + ([g.vararg] if g.vararg else [])
                    ae = a.value
                else:
                    ps = [pos_params[i]] if i < len(pos_params) else ([g.vararg] if g.vararg else [])
                    ae = a
                for p in ps:
                    if p in g.mutates:
                        hit.setdefault(p, []).append((ae, isinstance(a, ast.Starred)))
            for kw in c.keywords:
                if kw.arg is None:
                    ps = [p for p in g.all_params() if p in g.mutates and p != g.selfname]
                else:
                    ps = [kw.arg] if kw.arg in g.params + g.kwonly else ([g.kwarg] if g.kwarg else [])
                for p in ps:
                    if p in g.mutates:
                        hit.setdefault(p, []).append((kw.value, kw.arg is None))
            if skip and g.is_method and isinstance(fn, ast.Attribute) and g.selfname in g.mutates \
                    and g.short not in ("__init__", "__new__") and not builtin_reported:
                hit.setdefault("<self>", []).append((fn.value, False))
        for p, exprs in sorted(hit.items()):
            roots = set()
            for ae, splat in exprs:
                t = self.taint(f, ae, env)
                if splat:
                    t = _down(t)
                bare_self = isinstance(ae, ast.Name) and ae.id == f.selfname
                for r, l in t.items():
                    if l != 0 or self._is_import(f, r):
                        continue
                    if r == f.selfname and bare_self:
                        f.mutates.add(r)        # used by the fixpoint, not listed: the write itself is listed
                        continue                # in the method that makes it
                    roots.add(r)
            if roots:
                self._effect(f, sorted(roots), "pass:%s(%s)" % (name, p), c)


def _merge_env(a, b):
    out = dict(a)
    for k, v in b.items():
        out[k] = _join(out.get(k, {}), v)
    return out


def scan_effects(repo):
    return EffectScan(repo).run()


def _lean_str(s):
    out = []
    for ch in s:
        if ch == "\\":
            out.append("\\\\")
        elif ch == '"':
            out.append('\\"')
        elif ch == "\n":
            out.append("\\n")
        elif ch == "\t":
            out.append("\\t")
        elif ord(ch) < 32 or ord(ch) > 126:
            out.append("\\u{%x}" % ord(ch))
        else:
            out.append(ch)
    return '"' + "".join(out) + '"'


def effect_tag(e):
    """a number derived from all fields of the entry; it only makes the comparison of two entries cheap for the
    kernel (entries are still compared in full) and is line-independent like the rest"""
    import hashlib
    return int(hashlib.sha1("\x00".join(list(e[:5]) + [str(e[5])]).encode("utf-8")).hexdigest()[:10], 16)


def lean_effect(e):
    return "(%d, %s, %s, %s, %s, %s, %d)" % ((effect_tag(e),) + tuple(_lean_str(x) for x in e[:5]) + (e[5],))


def gen_effects(repo):
    ents = scan_effects(repo)
    s = HEADER + "namespace Rig.Gen.Effects\n"
    s += ("/-- (tag, module, function, root, kind, normalised statement text, number of occurrences in the function).\n"
          "root = a parameter name, the method's own `self`, `global:<name>` or `closure:<name>`; tag = a number\n"
          "computed from the other fields (makes unequal entries cheap to tell apart; nothing relies on it). -/\n")
    s += "def effects : List (Nat × String × String × String × String × String × Nat) := [\n"
    s += ",\n".join("  " + lean_effect(e) for e in ents)
    s += "\n]\nend Rig.Gen.Effects\n"
    return s, 1


GENERATORS["Effects"] = gen_effects

if __name__ == "__main__":
    import sys
    for e in scan_effects(sys.argv[1] if len(sys.argv) > 1 else "/repo"):
        print(e)
