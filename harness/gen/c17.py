"""Translator part for C17: the inventory of process-wide mutable state in rig/,
read from the source by an AST scan on every run:

  * module-level names bound to a mutable container (list/dict/set literal or
    comprehension, dict()/list()/set()/defaultdict()/OrderedDict()/deque()),
  * mutable default argument values,
  * class-level mutable attributes,
  * `global` statements,

each with the number of places that syntactically write through that name
(subscript/attribute assignment, augmented assignment, del, or a call of a
mutating method) inside its scope.  The Lean side (Model/C17.lean) holds the
reviewed classification; an unreviewed or newly written entry breaks the
obligation `inventory_classified`.
"""
import ast
import os

from harness.gen_tables import HEADER

MUTATORS = {"append", "extend", "insert", "remove", "pop", "clear", "sort", "reverse", "update",
            "setdefault", "popitem", "add", "discard", "appendleft", "popleft", "extendleft",
            "difference_update", "intersection_update", "symmetric_difference_update", "__setitem__",
            "__delitem__", "rotate"}
MUTABLE_CALLS = {"dict", "list", "set", "defaultdict", "OrderedDict", "deque", "bytearray", "Counter"}


def is_mutable_expr(node):
    if isinstance(node, (ast.List, ast.Dict, ast.Set, ast.ListComp, ast.DictComp, ast.SetComp)):
        return True
    if isinstance(node, ast.Call):
        f = node.func
        name = f.id if isinstance(f, ast.Name) else f.attr if isinstance(f, ast.Attribute) else None
        return name in MUTABLE_CALLS
    return False


def _writes(scope, name):
    """(lineno) of every syntactic write through `name` inside `scope`"""
    out = []
    for node in ast.walk(scope):
        targets = []
        if isinstance(node, ast.Assign):
            targets = node.targets
        elif isinstance(node, (ast.AugAssign, ast.AnnAssign)):
            targets = [node.target]
        elif isinstance(node, ast.Delete):
            targets = node.targets
        for t in targets:
            for sub in ast.walk(t):
                if isinstance(sub, (ast.Subscript, ast.Attribute)) and isinstance(sub.value, ast.Name) \
                        and sub.value.id == name:
                    out.append(node.lineno)
            if isinstance(node, ast.AugAssign) and isinstance(t, ast.Name) and t.id == name:
                out.append(node.lineno)
        if isinstance(node, ast.Call) and isinstance(node.func, ast.Attribute) \
                and isinstance(node.func.value, ast.Name) and node.func.value.id == name \
                and node.func.attr in MUTATORS:
            out.append(node.lineno)
    return out


def count_writes(scope, name, module_level=False):
    """Number of syntactic writes through `name` that can reach the shared object:
    * for a parameter: writes before the first statement that rebinds the name to a new object
      (`name = dict(name)`, `name = name[:]`, `name = a + name` ...);
    * for a module-level name: writes inside function bodies only (top-level statements run once,
      at import)."""
    if module_level:
        return sum(len(_writes(f, name)) for f in ast.walk(scope)
                   if isinstance(f, (ast.FunctionDef, ast.Lambda)))
    rebinds = [n.lineno for n in ast.walk(scope)
               if isinstance(n, ast.Assign) and any(isinstance(t, ast.Name) and t.id == name for t in n.targets)]
    first = min(rebinds) if rebinds else 10 ** 9
    return len([l for l in _writes(scope, name) if l < first])


def scan(repo):
    entries = []
    root = os.path.join(repo, "rig")
    for d, _, files in sorted(os.walk(root)):
        for fn in sorted(files):
            if not fn.endswith(".py"):
                continue
            path = os.path.join(d, fn)
            mod = os.path.relpath(path, repo)[:-3].replace(os.sep, ".")
            tree = ast.parse(open(path).read())
            # module-level containers
            for node in tree.body:
                if isinstance(node, ast.Assign) and is_mutable_expr(node.value):
                    for t in node.targets:
                        if isinstance(t, ast.Name) and t.id != "__all__":
                            entries.append((mod, t.id, "module", count_writes(tree, t.id, True)))
            for node in ast.walk(tree):
                if isinstance(node, ast.ClassDef):
                    for b in node.body:
                        if isinstance(b, ast.Assign) and is_mutable_expr(b.value):
                            for t in b.targets:
                                if isinstance(t, ast.Name) and t.id != "__slots__":
                                    entries.append((mod, "%s.%s" % (node.name, t.id), "class", count_writes(tree, t.id, True)))
                if isinstance(node, (ast.FunctionDef, ast.Lambda)):
                    a = node.args
                    pos = a.posonlyargs + a.args
                    pairs = list(zip(pos[len(pos) - len(a.defaults):], a.defaults))
                    pairs += [(k, v) for k, v in zip(a.kwonlyargs, a.kw_defaults) if v is not None]
                    fname = getattr(node, "name", "<lambda>")
                    for arg, default in pairs:
                        if is_mutable_expr(default):
                            entries.append((mod, "%s(%s)" % (fname, arg.arg), "default", count_writes(node, arg.arg)))
                if isinstance(node, ast.Global):
                    for nm in node.names:
                        entries.append((mod, nm, "global", 1))
    return sorted(set(entries))


def gen_state(repo):
    ents = scan(repo)
    s = HEADER + "namespace Rig.Gen.State\n"
    s += "/-- (module, name, kind, number of syntactic writes through the name in its scope) -/\n"
    s += "def inventory : List (String × String × String × Nat) := [\n"
    s += ",\n".join('  ("%s", "%s", "%s", %d)' % e for e in ents)
    s += "\n]\nend Rig.Gen.State\n"
    return s, 1


GENERATORS = {"State": gen_state}
