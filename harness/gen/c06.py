"""Translator part for C06/C07: SCP protocol constants of rig/machine_control/consts.py
and the default sequence mask of scp_connection.seqs."""
import ast
import importlib
import sys
from harness.gen_tables import HEADER, read_source, lean_list


def gen_scp(repo):
    consts = importlib.import_module("rig.machine_control.consts")
    tree = ast.parse(read_source(repo, "rig/machine_control/scp_connection.py"))
    mask = None
    for n in ast.walk(tree):
        if isinstance(n, ast.FunctionDef) and n.name == "seqs":
            mask = ast.literal_eval(n.args.defaults[0])
    rc = consts.SCPReturnCodes
    cmds = consts.SCPCommands
    s = HEADER + "namespace Rig.Gen.Scp\n"
    s += "def rcOk : Nat := %d\n" % int(rc.ok)
    s += "def retryable : List Nat := %s\n" % lean_list(sorted(int(x) for x in consts.RETRYABLE_SCP_RETURN_CODES))
    s += "def fatalCodes : List Nat := %s\n" % lean_list(sorted(int(x) for x in consts.FATAL_SCP_RETURN_CODES))
    s += "def allCodes : List Nat := %s\n" % lean_list(sorted(int(x) for x in rc))
    s += "def sdpHeaderLength : Nat := %d\n" % consts.SDP_HEADER_LENGTH
    s += "def seqMask : Nat := %d\n" % mask
    s += "def cmdRead : Nat := %d\n" % int(cmds.read)
    s += "def cmdWrite : Nat := %d\n" % int(cmds.write)
    s += "def cmdFill : Nat := %d\n" % int(cmds.fill)
    s += "def cmdLinkRead : Nat := %d\n" % int(cmds.link_read)
    s += "def cmdLinkWrite : Nat := %d\n" % int(cmds.link_write)
    # address_length_dtype: {(addr % 4, len % 4): DataType}
    tbl = consts.address_length_dtype
    rows = []
    for a in range(4):
        for l in range(4):
            rows.append(int(tbl[(a, l)]))
    s += "/-- `address_length_dtype[(a, l)]` at index `4*a + l`; 0 = byte, 1 = short, 2 = word -/\n"
    s += "def dtypeTable : List Nat := %s\n" % lean_list(rows)
    dt = consts.DataType
    s += "def dtByte : Nat := %d\ndef dtShort : Nat := %d\ndef dtWord : Nat := %d\n" % (int(dt.byte), int(dt.short), int(dt.word))
    s += "end Rig.Gen.Scp\n"
    return s, 6


GENERATORS = {"Scp": gen_scp}
