"""Translator part for C18.

* Signatures.lean - the signature of every method decorated with
  `@ContextMixin.use_contextual_arguments(...)` in MachineController and
  BMPController, read from the source by AST (no import): positional parameter
  names, trailing defaults (the `Required` sentinel, literals), *args/**kwargs,
  and the decorator's keyword-only defaults.
* C18Consts.lean - SCP command codes and the operation codes needed to find the
  application id inside a datagram (rig/machine_control/consts.py, by AST), and
  the SpiNN-5 local-Ethernet offset table (rig/geometry.py, the run-time array).
"""
import ast
import importlib
import os
import sys
import warnings

from harness.gen_tables import HEADER, read_source, lean_list

CLASSES = [("rig/machine_control/machine_controller.py", "MachineController"),
           ("rig/machine_control/bmp_controller.py", "BMPController")]


def lean_str(s):
    return '"' + s.replace("\\", "\\\\").replace('"', '\\"') + '"'


def lean_int(i):
    return "(%d)" % i if i < 0 else "%d" % i


def val_of_node(node):
    """AST expression of a default value -> (python-side canonical value, Lean term)"""
    if isinstance(node, ast.Name) and node.id == "Required":
        return {"k": "required"}, ".required"
    try:
        v = ast.literal_eval(node)
    except Exception:
        src = ast.unparse(node)
        return {"k": "other", "v": src}, ".other " + lean_str(src)
    return val_of_py(v)


def val_of_py(v):
    if v is None:
        return {"k": "none"}, ".none"
    if isinstance(v, bool):
        return {"k": "bool", "v": v}, ".bool " + ("true" if v else "false")
    if isinstance(v, int):
        return {"k": "int", "v": v}, ".int " + lean_int(v)
    return {"k": "other", "v": repr(v)}, ".other " + lean_str(repr(v))


def is_ctx_decorator(d):
    return (isinstance(d, ast.Call) and isinstance(d.func, ast.Attribute)
            and d.func.attr == "use_contextual_arguments")


def read_signatures(repo):
    """[{cls, name, argNames, defaults, hasVarargs, hasKeywords, kwOnly}] in source order"""
    out = []
    for rel, cname in CLASSES:
        with warnings.catch_warnings():
            warnings.simplefilter("ignore")
            tree = ast.parse(read_source(repo, rel))
        cls = [n for n in tree.body if isinstance(n, ast.ClassDef) and n.name == cname]
        if not cls:
            raise ValueError("class %s not found in %s" % (cname, rel))
        for fn in cls[0].body:
            if not isinstance(fn, ast.FunctionDef):
                continue
            decs = [d for d in fn.decorator_list if is_ctx_decorator(d)]
            if not decs:
                continue
            if len(decs) != 1 or decs[0].args or any(k.arg is None for k in decs[0].keywords):
                raise ValueError("%s.%s: decorator call not understood" % (cname, fn.name))
            if fn.args.kwonlyargs:
                raise ValueError("%s.%s: keyword-only parameters are not supported by the decorator" % (cname, fn.name))
            a = fn.args
            out.append(dict(
                cls=cname, name=fn.name,
                argNames=[x.arg for x in list(a.posonlyargs) + list(a.args)],
                defaults=[val_of_node(d) for d in a.defaults],
                hasVarargs=a.vararg is not None, hasKeywords=a.kwarg is not None,
                kwOnly=[(k.arg, val_of_node(k.value)) for k in decs[0].keywords]))
    if not out:
        raise ValueError("no decorated methods found")
    return out


def read_inner_calls(repo):
    """{(cls, name): sorted names of the decorated methods `self.<m>(...)` calls DIRECTLY in the body of the
    decorated method `name`} - what the per-method wire rule must at least re-dispatch to"""
    sigs = read_signatures(repo)
    out = {}
    for rel, cname in CLASSES:
        decorated = {g["name"] for g in sigs if g["cls"] == cname}
        with warnings.catch_warnings():
            warnings.simplefilter("ignore")
            tree = ast.parse(read_source(repo, rel))
        cls = [n for n in tree.body if isinstance(n, ast.ClassDef) and n.name == cname][0]
        for fn in cls.body:
            if isinstance(fn, ast.FunctionDef) and fn.name in decorated and any(is_ctx_decorator(d) for d in fn.decorator_list):
                calls = set()
                for n in ast.walk(fn):
                    if isinstance(n, ast.Attribute) and isinstance(n.value, ast.Name) and n.value.id == "self" \
                            and n.attr in decorated:
                        calls.add(n.attr)       # called, or handed on as a bound method (`map(self.m, ..)`)
                out[(cname, fn.name)] = sorted(calls)
    return out


def gen_signatures(repo):
    sigs = read_signatures(repo)
    s = HEADER + "import RigModel.Model.C18Types\nnamespace Rig.Gen.Signatures\nopen Rig.C18\n\n"
    names = []
    for g in sigs:
        ident = "%s_%s" % ("mc" if g["cls"] == "MachineController" else "bmp", g["name"])
        names.append(ident)
        s += "def %s : Sig :=\n  { cls := %s, name := %s,\n    argNames := %s,\n    defaults := %s,\n" % (
            ident, lean_str(g["cls"]), lean_str(g["name"]),
            lean_list(g["argNames"], lean_str), lean_list(g["defaults"], lambda d: d[1]))
        s += "    hasVarargs := %s, hasKeywords := %s,\n    kwOnly := %s }\n\n" % (
            "true" if g["hasVarargs"] else "false", "true" if g["hasKeywords"] else "false",
            lean_list(g["kwOnly"], lambda kv: "(%s, %s)" % (lean_str(kv[0]), kv[1][1])))
    s += "def sigs : List Sig :=\n  %s\n\nend Rig.Gen.Signatures\n" % lean_list(names)
    return s, len(sigs)


def enum_values(repo, rel, cname):
    tree = ast.parse(read_source(repo, rel))
    for n in tree.body:
        if isinstance(n, ast.ClassDef) and n.name == cname:
            out = {}
            for st in n.body:
                if isinstance(st, ast.Assign) and len(st.targets) == 1 and isinstance(st.targets[0], ast.Name):
                    try:
                        out[st.targets[0].id] = ast.literal_eval(st.value)
                    except Exception:
                        pass
            return out
    raise ValueError("enum %s not found" % cname)


def eth_offset_table(repo):
    """SPINN5_ETH_OFFSET[y][x] = (dx, dy) as the run-time array of rig/geometry.py"""
    if repo not in sys.path:
        sys.path.insert(0, repo)
    g = importlib.import_module("rig.geometry")
    if not os.path.abspath(g.__file__).startswith(os.path.abspath(repo) + os.sep):
        # the module was already imported from somewhere else: read the file directly
        spec = importlib.util.spec_from_file_location("_c18_geometry", os.path.join(repo, "rig", "geometry.py"))
        g = importlib.util.module_from_spec(spec)
        spec.loader.exec_module(g)
    t = g.SPINN5_ETH_OFFSET
    return [[(int(t[y][x][0]), int(t[y][x][1])) for x in range(12)] for y in range(12)]


def gen_consts(repo):
    rel = "rig/machine_control/consts.py"
    scp = enum_values(repo, rel, "SCPCommands")
    alloc = enum_values(repo, rel, "AllocOperations")
    rtr = enum_values(repo, rel, "RouterOperations")
    nn = enum_values(repo, rel, "NNCommands")
    sig = enum_values(repo, rel, "AppSignal")
    s = HEADER + "namespace Rig.Gen.C18Consts\n"
    for k in ["sver", "read", "write", "fill", "link_read", "link_write", "nearest_neighbour_packet",
              "signal", "flood_fill_data", "led", "iptag", "alloc_free", "router", "info", "bmp_info", "power"]:
        s += "def cmd_%s : Nat := %d\n" % (k, scp[k])
    for k in ["alloc_sdram", "free_sdram_by_ptr", "alloc_rtr", "free_rtr_by_app"]:
        s += "def op_%s : Nat := %d\n" % (k, alloc[k])
    s += "def rtr_load : Nat := %d\n" % rtr["load"]
    s += "def nn_flood_fill_end : Nat := %d\n" % nn["flood_fill_end"]
    s += "def sig_stop : Nat := %d\n" % sig["stop"]
    tab = eth_offset_table(repo)
    s += "/-- SPINN5_ETH_OFFSET[y][x] = (dx, dy) -/\ndef ethOffset : List (List (Int × Int)) :=\n  [" + ",\n   ".join(
        lean_list(row, lambda t: "(%s, %s)" % (lean_int(t[0]), lean_int(t[1]))) for row in tab) + "]\n"
    s += "end Rig.Gen.C18Consts\n"
    return s, 23 + 1



# ---------------------------------------------------------------------------------------------------------
# C18Bodies.lean - the per-method wire rules, EXTRACTED from the source
#
# An abstract interpretation of the body of every context-decorated method (and, inlined, of the
# undecorated helpers and properties of the same class it uses): statements are walked in order with an
# environment `local name -> abstract value`; every send (`self._send_scp(..)`, `connection.read/write(..)`
# on a connection obtained from `self._get_connection(x, y)`) and every call of a decorated method is
# recorded with its destination arguments classified in the `Ex` vocabulary of Model/C18Types.lean.
# Anything that sends but cannot be classified becomes `Op.unknown "<why>"` (never dropped).

DYN = ("dyn",)
PRIMITIVES = ("_send_scp", "_get_connection")
# property whose lazily issued probe is outside the wire rules (C07's subject; the harness presets the
# cached value): its sends are emitted separately (`genLazy`) and pinned by an obligation of their own
LAZY_PROPERTIES = ("scp_data_length",)
ENUM_CLASSES = ("SCPCommands", "AllocOperations", "RouterOperations", "NNCommands", "AppSignal", "NNConstants",
                "IPTagCommands", "AppDiagnosticSignal", "AppFlags", "BMPInfoType", "LEDAction", "AppState")


class Unclassified(Exception):
    pass


def _is_self(node):
    return isinstance(node, ast.Name) and node.id == "self"


def _stored_names(nodes):
    out = set()
    for n in nodes:
        for m in ast.walk(n):
            if isinstance(m, ast.Name) and isinstance(m.ctx, (ast.Store, ast.Del)):
                out.add(m.id)
    return out


def bit_terms(av):
    """abstract value -> [(term, shift)] of an OR of shifted terms"""
    if av[0] == "bits":
        return list(av[1])
    return [(av, 0)]


def int_of(av):
    if av[0] == "lit" and isinstance(av[1], int):
        return int(av[1])
    if av[0] == "enum":
        return av[3]
    return None


class BodyScanner(object):
    def __init__(self, cname, cls_node, decorated, kwonly, enums):
        self.cname = cname
        self.is_bmp = cname == "BMPController"
        self.decorated = decorated                  # names of decorated methods
        self.kwonly = kwonly                        # method -> names of the decorator's keyword-only arguments
        self.enums = enums
        self.methods, self.properties = {}, {}
        for fn in cls_node.body:
            if isinstance(fn, ast.FunctionDef):
                if any(isinstance(d, ast.Name) and d.id == "property" for d in fn.decorator_list):
                    self.properties[fn.name] = fn
                elif fn.name not in self.methods:
                    self.methods[fn.name] = fn
        self.ops = self.deferred = None
        self.lazy_used = set()
        self.in_primitive = False
        self.stack = []

    # -- entry points -----------------------------------------------------------------------------------
    def scan(self, name):
        """(ops, deferred ops) of the decorated method `name`"""
        fn = self.methods[name]
        self.ops, self.deferred, self.stack = [], [], [name]
        self.cur_kwonly = self.kwonly.get(name, [])
        env = {}
        a = fn.args
        for x in list(a.posonlyargs) + list(a.args):
            if x.arg != "self":
                env[x.arg] = ("ref", x.arg)
        self.kwarg_name = a.kwarg.arg if a.kwarg else None
        if a.vararg:
            env[a.vararg.arg] = DYN
        if a.kwarg:
            env[a.kwarg.arg] = ("kwargs",)
        try:
            self.block(fn.body, env)
        except (Unclassified, NotImplementedError, RecursionError) as e:
            self.ops.append(("unknown", "%s: %s" % (name, e)))
        return self.ops, self.deferred

    def scan_primitive(self):
        """the body of `_send_scp` itself: which connection, and the destination handed to it"""
        fn = self.methods["_send_scp"]
        self.ops, self.deferred, self.stack = [], [], ["_send_scp"]
        self.cur_kwonly, self.kwarg_name = [], None
        env = {}
        a = fn.args
        for x in list(a.posonlyargs) + list(a.args):
            if x.arg != "self":
                env[x.arg] = ("ref", x.arg)
        for x in (a.vararg, a.kwarg):
            if x is not None:
                env[x.arg] = DYN
        self.in_primitive = True
        try:
            self.block(fn.body, env)
        except (Unclassified, NotImplementedError, RecursionError) as e:
            self.ops.append(("unknown", "_send_scp: %s" % e))
        finally:
            self.in_primitive = False
        return self.ops

    def scan_property(self, name):
        self.ops, self.deferred, self.stack = [], [], [name]
        self.cur_kwonly, self.kwarg_name = [], None
        try:
            self.block(self.properties[name].body, {})
        except (Unclassified, NotImplementedError, RecursionError) as e:
            self.ops.append(("unknown", "%s: %s" % (name, e)))
        return self.ops

    # -- statements -------------------------------------------------------------------------------------
    def block(self, stmts, env):
        """run the statements on `env` (mutated); True if the block always leaves (return / raise / continue / break)"""
        for st in stmts:
            if self.stmt(st, env):
                return True
        return False

    def join(self, envs, test=None):
        envs = [e for e in envs if e is not None]
        if not envs:
            return None
        out = {}
        for k in set().union(*[set(e) for e in envs]):
            vals = [e.get(k, DYN) for e in envs]
            if all(v == vals[0] for v in vals):
                out[k] = vals[0]
            elif test is not None and len(vals) == 2:
                out[k] = self.join_isinstance(test, vals[0], vals[1])
            else:
                out[k] = DYN
        return out

    @staticmethod
    def isinstance_int(t, env):
        """the parameter `n` if the test is `isinstance(n, int)` and `n` still holds the parameter"""
        if isinstance(t, ast.Call) and isinstance(t.func, ast.Name) and t.func.id == "isinstance" and len(t.args) == 2 \
                and isinstance(t.args[0], ast.Name) and env.get(t.args[0].id) == ("ref", t.args[0].id) \
                and isinstance(t.args[1], ast.Name) and t.args[1].id == "int" and not t.keywords:
            return t.args[0].id
        return None

    @staticmethod
    def join_isinstance(n, a, b):
        """`if isinstance(n, int): <a> else: <b>` - the two idioms of the BMP commands"""
        if a == ("list1", ("ref", n)) and b == ("aslist", n):
            return ("boards", n)            # [board] / list(board)
        if a == ("ref", n) and b == ("idx0", n):
            return ("first", n)             # board / list(board)[0]
        return DYN

    def stmt(self, st, env):
        if isinstance(st, ast.Expr):
            self.ev(st.value, env)
        elif isinstance(st, ast.Assign):
            v = self.ev(st.value, env)
            for t in st.targets:
                self.assign(t, v, env)
        elif isinstance(st, ast.AnnAssign):
            v = self.ev(st.value, env) if st.value is not None else DYN
            self.assign(st.target, v, env)
        elif isinstance(st, ast.AugAssign):
            self.ev(st.value, env)
            self.assign(st.target, DYN, env)
        elif isinstance(st, ast.Return):
            if st.value is not None:
                self.ev(st.value, env)
            return True
        elif isinstance(st, ast.Raise):
            for e in (st.exc, st.cause):
                if e is not None:
                    self.ev(e, env)
            return True
        elif isinstance(st, (ast.Continue, ast.Break)):
            return True
        elif isinstance(st, (ast.Pass, ast.Global, ast.Nonlocal, ast.Import, ast.ImportFrom)):
            pass
        elif isinstance(st, ast.Assert):
            self.ev(st.test, env)
            if st.msg is not None:
                self.ev(st.msg, env)
        elif isinstance(st, ast.Delete):
            for t in st.targets:
                self.assign(t, DYN, env)
        elif isinstance(st, ast.If):
            self.ev(st.test, env)
            test = self.isinstance_int(st.test, env)
            e1, e2 = dict(env), dict(env)
            d1 = self.block(st.body, e1)
            d2 = self.block(st.orelse, e2)
            t = st.test
            if isinstance(t, ast.Compare) and isinstance(t.left, ast.Name) and len(t.ops) == 1 and isinstance(t.ops[0], ast.Is) \
                    and isinstance(t.comparators[0], ast.Constant) and t.comparators[0].value is None and not d1 and not d2:
                n = t.left.id
                a, b = e1.get(n, DYN), e2.get(n, DYN)
                if a[0] == "connget" and b[0] == "connget" and b == env.get(n):
                    e1[n] = e2[n] = ("connget", b[1] + a[1])      # found under the first key, else looked up under the next
            j = self.join([None if d1 else e1, None if d2 else e2], test)
            if j is None:
                return True
            env.clear()
            env.update(j)
        elif isinstance(st, (ast.For, ast.While)):
            if isinstance(st, ast.For):
                self.ev(st.iter, env)                 # evaluated once, before the target is bound
            killed = _stored_names(st.body + st.orelse + ([st.target] if isinstance(st, ast.For) else []))
            for k in killed:
                env[k] = DYN
            if isinstance(st, ast.While):
                self.ev(st.test, env)
            e1 = dict(env)
            self.block(st.body, e1)
            e2 = dict(env)
            self.block(st.orelse, e2)
            j = self.join([env, e1, e2])
            env.clear()
            env.update(j)
        elif isinstance(st, ast.Try):
            killed = _stored_names(st.body)
            e0 = dict(env)
            d0 = self.block(st.body, e0)
            outs = []
            for h in st.handlers:
                eh = dict(env)
                for k in killed:
                    eh[k] = DYN
                if h.name:
                    eh[h.name] = DYN
                if not self.block(h.body, eh):
                    outs.append(eh)
            if not d0:
                if not self.block(st.orelse, e0):
                    outs.append(e0)
            j = self.join(outs)
            if j is None:
                j = dict(env)
                for k in _stored_names(st.body + st.orelse + [x for h in st.handlers for x in h.body]):
                    j[k] = DYN
                dead = True
            else:
                dead = False
            dfin = self.block(st.finalbody, j)
            env.clear()
            env.update(j)
            return dead or dfin
        elif isinstance(st, ast.With):
            for it in st.items:
                self.ev(it.context_expr, env)
                if it.optional_vars is not None:
                    self.assign(it.optional_vars, DYN, env)
            return self.block(st.body, env)
        elif isinstance(st, (ast.FunctionDef, ast.ClassDef)):
            self.defer(st.body if isinstance(st, ast.FunctionDef) else [], env, st)
            env[st.name] = DYN
        else:
            raise Unclassified("statement %s not understood" % type(st).__name__)
        return False

    def assign(self, target, v, env):
        if isinstance(target, ast.Name):
            env[target.id] = v
        elif isinstance(target, (ast.Tuple, ast.List)):
            vs = v[1] if v[0] == "tuple" and len(v[1]) == len(target.elts) else [DYN] * len(target.elts)
            for t, x in zip(target.elts, vs):
                self.assign(t, x, env)
        elif isinstance(target, ast.Starred):
            self.assign(target.value, DYN, env)
        elif isinstance(target, ast.Subscript):
            self.ev(target.value, env)
            self.ev(target.slice, env)
        elif isinstance(target, ast.Attribute):
            if not _is_self(target.value):
                self.ev(target.value, env)
        else:
            raise Unclassified("assignment target %s" % type(target).__name__)

    def defer(self, body, env, node):
        """sends made by a lambda / nested function are not made by the method body itself"""
        saved, self.ops = self.ops, []
        inner = dict(env)
        args = node.args
        for x in list(args.posonlyargs) + list(args.args) + list(args.kwonlyargs):
            inner[x.arg] = DYN
        for x in (args.vararg, args.kwarg):
            if x is not None:
                inner[x.arg] = DYN
        try:
            if isinstance(node, ast.Lambda):
                self.ev(node.body, inner)
            else:
                self.block(body, inner)
        finally:
            self.deferred += self.ops
            self.ops = saved

    # -- expressions ------------------------------------------------------------------------------------
    def ev(self, node, env):
        if node is None:
            return DYN
        if isinstance(node, ast.Constant):
            v = node.value
            if v is None or isinstance(v, (bool, int, str)):
                return ("lit", v)
            return DYN
        if isinstance(node, ast.Name):
            return env.get(node.id, DYN)
        if isinstance(node, ast.Attribute):
            return self.attribute(node, env)
        if isinstance(node, ast.Call):
            return self.call(node, env)
        if isinstance(node, ast.BinOp):
            l, r = self.ev(node.left, env), self.ev(node.right, env)
            if isinstance(node.op, ast.LShift):
                k = int_of(r)
                if k is not None and k >= 0:
                    if int_of(l) is not None:
                        return ("lit", int_of(l) << k)
                    return ("bits", [(t, sh + k) for t, sh in bit_terms(l)])
                if int_of(l) == 1 and r[0] == "ref":
                    return ("mask", r[1])
                if int_of(l) == 1 and r[0] == "elem":
                    return ("maskelem", r[1])
                return DYN
            if isinstance(node.op, ast.BitOr):
                if int_of(l) is not None and int_of(r) is not None:
                    return ("lit", int_of(l) | int_of(r))
                return ("bits", bit_terms(l) + bit_terms(r))       # a `dyn` term is a term like any other
            return DYN
        if isinstance(node, ast.Subscript):
            v = self.ev(node.value, env)
            i = self.ev(node.slice, env)
            if v[0] == "aslist" and int_of(i) == 0:
                return ("idx0", v[1])
            if v[0] == "list1" and int_of(i) == 0:
                return v[1]
            if v == ("kwargs",) and i[0] == "lit" and isinstance(i[1], str):
                return ("ref", i[1]) if i[1] in self.cur_kwonly else DYN
            return DYN
        if isinstance(node, ast.List):
            vs = [self.ev(e, env) for e in node.elts]
            return ("list1", vs[0]) if len(vs) == 1 and not isinstance(node.elts[0], ast.Starred) else DYN
        if isinstance(node, ast.Tuple):
            return ("tuple", [self.ev(e, env) for e in node.elts])
        if isinstance(node, ast.IfExp):
            self.ev(node.test, env)
            a, b = self.ev(node.body, env), self.ev(node.orelse, env)
            if a == b:
                return a
            n = self.isinstance_int(node.test, env)
            return self.join_isinstance(n, a, b) if n is not None else DYN
        if isinstance(node, (ast.GeneratorExp, ast.ListComp, ast.SetComp, ast.DictComp)):
            return self.comprehension(node, env)
        if isinstance(node, ast.Lambda):
            self.defer(None, env, node)
            return DYN
        if isinstance(node, ast.NamedExpr):
            v = self.ev(node.value, env)
            self.assign(node.target, v, env)
            return v
        if isinstance(node, ast.Starred):
            self.ev(node.value, env)
            return DYN
        if isinstance(node, (ast.BoolOp, ast.Compare, ast.UnaryOp, ast.JoinedStr, ast.FormattedValue, ast.Dict, ast.Set,
                             ast.Slice, ast.Await, ast.Yield, ast.YieldFrom)):
            for c in ast.iter_child_nodes(node):
                if isinstance(c, ast.expr):
                    self.ev(c, env)
            return DYN
        raise Unclassified("expression %s not understood" % type(node).__name__)

    def comprehension(self, node, env):
        inner = dict(env)
        elem = None
        for i, g in enumerate(node.generators):
            it = self.ev(g.iter, env if i == 0 else inner)     # the first iterable belongs to the enclosing scope
            for k in _stored_names([g.target]):
                inner[k] = DYN
            if i == 0 and len(node.generators) == 1 and isinstance(g.target, ast.Name) and it[0] in ("boards", "aslist", "list1"):
                inner[g.target.id] = ("elem", it)
                elem = it
            for c in g.ifs:
                self.ev(c, inner)
                elem = None
        if isinstance(node, ast.DictComp):
            self.ev(node.key, inner)
            self.ev(node.value, inner)
            return DYN
        v = self.ev(node.elt, inner)
        if elem is not None and v == ("maskelem", elem):
            return ("maskgen", elem)
        return DYN

    def attribute(self, node, env):
        if _is_self(node.value):
            if node.attr in self.properties:
                return self.inline_property(node.attr)
            if node.attr in self.decorated or (node.attr in self.methods and self.sends(node.attr)):
                # a bound method handed on (`map(self.m, ..)`): how often / with what it is called is not known
                self.ops.append(("unknown", "bound method self.%s used as a value" % node.attr))
            return DYN
        # enumeration member: `SCPCommands.x`, `consts.AllocOperations.y`
        v = node.value
        cname = v.id if isinstance(v, ast.Name) else v.attr if isinstance(v, ast.Attribute) else None
        if cname in self.enums and node.attr in self.enums[cname]:
            return ("enum", cname, node.attr, self.enums[cname][node.attr])
        self.ev(node.value, env)
        return DYN

    _SENDS = {}

    def sends(self, name):
        """does the undecorated method `name` (transitively, textually) contain a send or a decorated call?"""
        key = (self.cname, name)
        if key not in self._memo:
            self._memo[key] = False
            fn = self.methods[name]
            r = False
            for n in ast.walk(fn):
                if isinstance(n, ast.Attribute) and _is_self(n.value):
                    if n.attr in PRIMITIVES or n.attr in self.decorated or n.attr in self.properties or n.attr == "connections":
                        r = True
                    elif n.attr in self.methods and n.attr != name and self.sends(n.attr):
                        r = True
            self._memo[key] = r
        return self._memo[key]

    def inline_property(self, name):
        if name in LAZY_PROPERTIES:
            self.lazy_used.add(name)
            return DYN
        if name in self.stack:
            raise Unclassified("recursive use of property %s" % name)
        self.stack.append(name)
        try:
            self.block(self.properties[name].body, {})
        finally:
            self.stack.pop()
        return DYN

    def call(self, node, env):
        f = node.func
        # ---- self.<something>(...)
        if isinstance(f, ast.Attribute) and _is_self(f.value):
            if f.attr == "_send_scp":
                return self.send(node, env)
            if f.attr == "_get_connection":
                avs = [self.ev(a, env) for a in node.args]
                if len(avs) == 2 and not node.keywords and not any(isinstance(a, ast.Starred) for a in node.args):
                    return ("conn", avs[0], avs[1])
                self.ops.append(("unknown", "_get_connection with unusual arguments"))
                return DYN
            if f.attr in self.decorated:
                return self.inner(node, env)
            if f.attr in self.methods:
                return self.inline(node, env)
            # inherited (ContextMixin) or unknown attribute: evaluate the arguments only
            self.args_only(node, env)
            return DYN
        # ---- <connection>.read / write / send_scp
        if isinstance(f, ast.Attribute) and f.attr in ("read", "write", "send_scp", "send_scp_burst"):
            recv = self.ev(f.value, env)
            if recv[0] == "connget":
                # BMPController._send_scp: the connection looked up under a chain of keys
                avs = [self.ev(a, env) for a in node.args]
                if f.attr == "send_scp" and self.in_primitive and len(avs) >= 4 \
                        and not any(isinstance(a, ast.Starred) for a in node.args[:4]):
                    self.ops.append(("prim", recv[1], [self.ex(v) for v in avs[1:4]]))
                else:
                    self.ops.append(("unknown", "connection.%s not understood" % f.attr))
                return DYN
            if recv[0] == "conn":
                avs = [self.ev(a, env) for a in node.args]
                for k in node.keywords:
                    self.ev(k.value, env)
                starred = any(isinstance(a, ast.Starred) for a in node.args[:5])
                if f.attr == "send_scp" and self.in_primitive and len(avs) >= 4 \
                        and not any(isinstance(a, ast.Starred) for a in node.args[:4]) \
                        and (avs[1], avs[2]) == (recv[1], recv[2]):
                    self.ops.append(("scp", self.ex(avs[1]), self.ex(avs[2]), self.ex(avs[3]), None))
                elif f.attr in ("read", "write") and len(avs) >= 5 and not starred and not self.is_bmp:
                    x, y, p = avs[2], avs[3], avs[4]
                    if (x, y) == (recv[1], recv[2]):
                        self.ops.append(("mem", self.ex(x), self.ex(y), self.ex(p)))
                    else:
                        self.ops.append(("unknown", "%s on the connection of another chip" % f.attr))
                else:
                    self.ops.append(("unknown", "connection.%s not understood" % f.attr))
                return DYN
            if any(isinstance(n, ast.Attribute) and n.attr in ("connections", "_get_connection")
                   for n in ast.walk(f.value)):
                self.args_only(node, env)
                self.ops.append(("unknown", "%s on a connection object" % f.attr))
                return DYN
            self.args_only(node, env)
            return DYN
        # ---- self.connections.get((a, b, c), None)
        if isinstance(f, ast.Attribute) and f.attr == "get" and isinstance(f.value, ast.Attribute) \
                and _is_self(f.value.value) and f.value.attr == "connections":
            avs = [self.ev(a, env) for a in node.args]
            if avs and avs[0][0] == "tuple" and (len(avs) == 1 or avs[1] == ("lit", None)) and not node.keywords:
                return ("connget", [[self.ex(v) for v in avs[0][1]]])
            return DYN
        # ---- kwargs.pop('name') / kwargs.get('name')
        if isinstance(f, ast.Attribute) and f.attr in ("pop", "get") and isinstance(f.value, ast.Name) \
                and env.get(f.value.id) == ("kwargs",):
            avs = [self.ev(a, env) for a in node.args]
            if avs and avs[0][0] == "lit" and isinstance(avs[0][1], str) and avs[0][1] in self.cur_kwonly:
                return ("ref", avs[0][1])
            return DYN
        # ---- builtins with a meaning here
        if isinstance(f, ast.Name) and f.id not in env:
            avs = [self.ev(a, env) for a in node.args]
            for k in node.keywords:
                self.ev(k.value, env)
            if f.id == "list" and len(avs) == 1 and avs[0][0] == "ref":
                return ("aslist", avs[0][1])
            if f.id == "sum" and len(avs) == 1 and avs[0][0] == "maskgen":
                it = avs[0][1]
                if it[0] in ("boards", "aslist"):
                    return ("mask", it[1])
                if it[0] == "list1" and it[1][0] == "ref":
                    return ("mask", it[1][1])
                return DYN
            if f.id == "int" and len(avs) == 1 and int_of(avs[0]) is not None:
                return ("lit", int_of(avs[0]))
            return DYN
        # ---- anything else
        if isinstance(f, ast.Attribute):
            self.ev(f.value, env)
        else:
            self.ev(f, env)
        self.args_only(node, env)
        return DYN

    def args_only(self, node, env):
        for a in node.args:
            self.ev(a, env)
        for k in node.keywords:
            self.ev(k.value, env)

    def ex(self, av):
        if av[0] == "ref":
            return ("ref", av[1])
        if av[0] == "lit":
            return ("lit", av[1])
        if av[0] == "enum":
            return ("lit", av[3])
        if av[0] in ("mask", "first"):
            return (av[0], av[1])
        return ("dyn",)

    def send(self, node, env):
        """`self._send_scp(a, b, c, cmd, arg1, arg2, ...)`"""
        avs = [self.ev(a, env) for a in node.args]
        kws = {}
        for k in node.keywords:
            v = self.ev(k.value, env)
            if k.arg is not None:
                kws[k.arg] = v
        star = [i for i, a in enumerate(node.args) if isinstance(a, ast.Starred)]
        if len(avs) < 3 or (star and star[0] < 3):
            self.ops.append(("unknown", "_send_scp: destination arguments not positional"))
            return DYN
        a, b, c = self.ex(avs[0]), self.ex(avs[1]), self.ex(avs[2])

        def arg(i, name):
            if len(avs) > i and not (star and star[0] <= i):
                return avs[i]
            if star and star[0] <= i:
                return DYN
            return kws.get(name, ("lit", 0))
        if star and star[0] == 3:
            extra = None                   # pass-through (`send_scp`): the command is the caller's
        else:
            cmd = arg(3, "cmd")
            if cmd[0] != "enum" or cmd[1] != "SCPCommands":
                self.ops.append(("unknown", "_send_scp: command not an SCPCommands member"))
                return DYN
            extra = self.extra_of(cmd[2], arg(4, "arg1"), arg(5, "arg2"))
        self.ops.append(("bmp" if self.is_bmp else "scp", a, b, c, extra))
        return DYN

    def field(self, av, lo, width):
        """the bit field [lo, lo+width) of an OR of shifted terms, as an Ex (each shifted term is taken to fit below the
        next one: the packing the source writes); None = cannot tell"""
        hits, const = [], 0
        for t, sh in bit_terms(av):
            k = int_of(t)
            if k is not None:
                const |= ((k << sh) >> lo) & ((1 << width) - 1) if width else (k << sh) >> lo
            elif sh == lo:
                hits.append(t)
            elif sh > lo and (width == 0 or sh < lo + width):
                return None
            elif sh < lo:
                continue
        if len(hits) == 1 and const == 0:
            return self.ex(hits[0])
        if not hits:
            return ("lit", const)
        return None

    def extra_of(self, cmd, a1, a2):
        """the application id (MachineController) / board mask (BMPController) the command carries: mirrors the model's
        `appOf` / `maskOf`, which read it back from the datagram"""
        E = self.enums
        dyn = ("dyn",)
        if self.is_bmp:
            return (self.ex(a2) if a2 != DYN else dyn) if cmd in ("power", "led") else None
        if cmd == "alloc_free":
            op = self.field(a1, 0, 8)
            if op is None or op[0] != "lit":
                return dyn
            if op[1] in (E["AllocOperations"]["alloc_sdram"], E["AllocOperations"]["alloc_rtr"], E["AllocOperations"]["free_rtr_by_app"]):
                return self.field(a1, 8, 0) or dyn
            return None
        if cmd == "router":
            op = self.field(a1, 0, 8)
            if op is None or op[0] != "lit":
                return dyn
            return (self.field(a1, 8, 8) or dyn) if op[1] == E["RouterOperations"]["load"] else None
        if cmd == "signal":
            return self.field(a2, 0, 8) or dyn
        if cmd == "nearest_neighbour_packet":
            c = self.field(a1, 24, 0)
            if c is None or c[0] != "lit":
                return dyn
            return (self.field(a2, 24, 0) or dyn) if c[1] == E["NNCommands"]["flood_fill_end"] else None
        return None

    def inner(self, node, env):
        """`self.m(*pos, **kw)` with `m` decorated"""
        f = node.func
        pos, kw, bad = [], [], False
        for a in node.args:
            v = self.ev(a, env)
            bad = bad or isinstance(a, ast.Starred)
            pos.append(self.ex(v))
        for k in node.keywords:
            v = self.ev(k.value, env)
            bad = bad or k.arg is None
            kw.append((k.arg, self.ex(v)))
        if bad:
            self.ops.append(("unknown", "call of %s with * / ** arguments" % f.attr))
        else:
            self.ops.append(("call", f.attr, pos, kw))
        return DYN

    def inline(self, node, env):
        """`self.helper(..)`, helper undecorated: its body is scanned with the parameters bound to the arguments"""
        name = node.func.attr
        avs = [self.ev(a, env) for a in node.args]
        kws = [(k.arg, self.ev(k.value, env)) for k in node.keywords]
        if not self.sends(name):
            return DYN
        if name in self.stack or len(self.stack) > 6:
            self.ops.append(("unknown", "recursive helper %s" % name))
            return DYN
        fn = self.methods[name]
        a = fn.args
        params = [x.arg for x in list(a.posonlyargs) + list(a.args)][1:]
        if any(isinstance(x, ast.Starred) for x in node.args) or any(k is None for k, _ in kws) or len(avs) > len(params):
            self.ops.append(("unknown", "helper %s called with * / ** arguments" % name))
            return DYN
        inner = {}
        defaults = [None] * (len(params) - len(a.defaults)) + list(a.defaults)
        for pn, d in zip(params, defaults):
            inner[pn] = self.ev(d, {}) if d is not None else DYN
        for pn, v in zip(params, avs):
            inner[pn] = v
        for k, v in kws:
            inner[k] = v
        for x in (a.vararg, a.kwarg):
            if x is not None:
                inner[x.arg] = DYN
        self.stack.append(name)
        saved = (self.cur_kwonly, self.kwarg_name)
        self.cur_kwonly, self.kwarg_name = [], None
        try:
            self.block(fn.body, inner)
        finally:
            self.stack.pop()
            self.cur_kwonly, self.kwarg_name = saved
        return DYN


BodyScanner._memo = {}


def read_enums(repo):
    tree = ast.parse(read_source(repo, "rig/machine_control/consts.py"))
    out = {}
    for n in tree.body:
        if isinstance(n, ast.ClassDef):
            vals = {}
            for st in n.body:
                if isinstance(st, ast.Assign) and len(st.targets) == 1 and isinstance(st.targets[0], ast.Name):
                    try:
                        v = ast.literal_eval(st.value)
                    except Exception:
                        continue
                    if isinstance(v, int) and not isinstance(v, bool):
                        vals[st.targets[0].id] = v
            if vals:
                out[n.name] = vals
    return out


PRIMS = {}


def read_bodies(repo):
    """{(cls, name): {"ops": [...], "deferred": [...]}} for every decorated method, plus {"lazy": {cls: ops}}"""
    sigs = read_signatures(repo)
    enums = read_enums(repo)
    BodyScanner._memo = {}
    out, lazy = {}, {}
    for rel, cname in CLASSES:
        with warnings.catch_warnings():
            warnings.simplefilter("ignore")
            tree = ast.parse(read_source(repo, rel))
        cls = [n for n in tree.body if isinstance(n, ast.ClassDef) and n.name == cname][0]
        mine = [g for g in sigs if g["cls"] == cname]
        sc = BodyScanner(cname, cls, {g["name"] for g in mine},
                         {g["name"]: [k for k, _ in g["kwOnly"]] for g in mine}, enums)
        for g in mine:
            ops, deferred = sc.scan(g["name"])
            out[(cname, g["name"])] = {"ops": ops, "deferred": deferred}
        lazy[cname] = {p: sc.scan_property(p) for p in sorted(sc.lazy_used)}
        PRIMS[cname] = sc.scan_primitive()
    return out, lazy


def lean_ex(e):
    if e is None:
        return "none"
    k = e[0]
    if k == "ref":
        return "(.ref %s)" % lean_str(e[1])
    if k == "lit":
        return "(.lit (%s))" % val_of_py(e[1])[1]
    if k in ("mask", "first"):
        return "(.%s %s)" % (k, lean_str(e[1]))
    return ".dyn"


def lean_opt_ex(e):
    return "none" if e is None else "(some %s)" % lean_ex(e)


def lean_op(op):
    k = op[0]
    if k in ("scp", "bmp"):
        return ".%s %s %s %s %s" % (k, lean_ex(op[1]), lean_ex(op[2]), lean_ex(op[3]), lean_opt_ex(op[4]))
    if k == "mem":
        return ".mem %s %s %s" % (lean_ex(op[1]), lean_ex(op[2]), lean_ex(op[3]))
    if k == "call":
        return ".call %s %s %s" % (lean_str(op[1]), lean_list(op[2], lean_ex),
                                   lean_list(op[3], lambda kv: "(%s, %s)" % (lean_str(kv[0]), lean_ex(kv[1]))))
    return ".unknown %s" % lean_str(op[1])


def gen_bodies(repo):
    bodies, lazy = read_bodies(repo)
    s = HEADER + ("-- per-method wire rules EXTRACTED from the source by harness/gen/c18.py (abstract interpretation of the\n"
                  "-- method bodies): sends and inner decorated calls in source order, helpers and properties inlined.\n"
                  "import RigModel.Model.C18Types\nnamespace Rig.Gen.C18Bodies\nopen Rig.C18\n\n")
    for short, cname in (("Mc", "MachineController"), ("Bmp", "BMPController")):
        for table, key in (("gen%s" % short, "ops"), ("deferred%s" % short, "deferred")):
            s += "def %s : String → List Op\n" % table
            for (c, name), b in bodies.items():
                if c == cname and (b[key] or key == "ops"):
                    s += "  | %s =>\n    [%s]\n" % (lean_str(name), ",\n     ".join(lean_op(o) for o in b[key]))
            s += "  | _ => []\n\n"
    s += ("def genBody (cls m : String) : List Op :=\n"
          "  if cls = \"MachineController\" then genMc m else if cls = \"BMPController\" then genBmp m else []\n\n"
          "/-- sends made by lambdas / nested functions the method creates (run later, not by the method body) -/\n"
          "def genDeferred (cls m : String) : List Op :=\n"
          "  if cls = \"MachineController\" then deferredMc m else if cls = \"BMPController\" then deferredBmp m else []\n\n")
    s += "/-- the methods scanned -/\ndef scanned : List (String × String) :=\n  %s\n\n" % lean_list(
        list(bodies), lambda k: "(%s, %s)" % (lean_str(k[0]), lean_str(k[1])))
    s += "/-- the lazily issued probes of the cached properties left out of the rules: (class, property, sends) -/\n"
    s += "def genLazy : List (String × String × List Op) :=\n  %s\n\n" % lean_list(
        [(c, p, ops) for c, d in lazy.items() for p, ops in d.items()],
        lambda t: "(%s, %s, [%s])" % (lean_str(t[0]), lean_str(t[1]), ", ".join(lean_op(o) for o in t[2])))
    # the primitives themselves
    mc, bmp = PRIMS["MachineController"], PRIMS["BMPController"]
    s += ("/-- `MachineController._send_scp(x, y, p, ..)`: what it hands to the connection of `_get_connection(x, y)` -/\n"
          "def genMcSend : List Op :=\n  [%s]\n\n" % ", ".join(lean_op(o) for o in mc))
    ok = len(bmp) == 1 and bmp[0][0] == "prim"
    s += ("/-- `BMPController._send_scp(cabinet, frame, board, ..)`: the keys it looks a connection up under, in order -/\n"
          "def genBmpKeys : List (List Ex) :=\n  %s\n\n" % lean_list(bmp[0][1] if ok else [], lambda k: lean_list(k, lean_ex)))
    s += ("/-- ... and the (x, y, p) it hands to that connection -/\n"
          "def genBmpDest : List Ex :=\n  %s\n\n" % lean_list(bmp[0][2] if ok else [], lean_ex))
    s += "def genBmpSendOk : Bool := %s\n\n" % ("true" if ok else "false")
    s += "end Rig.Gen.C18Bodies\n"
    return s, len(bodies) + 2


GENERATORS = {"Signatures": gen_signatures, "C18Consts": gen_consts, "C18Bodies": gen_bodies}
