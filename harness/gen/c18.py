"""Translator part for C18.

* Signatures.lean - the signature of every method decorated with
  `@ContextMixin.use_contextual_arguments(...)` in MachineController and
  BMPController, read from the source by AST (no import): positional parameter
  names, trailing defaults (the `Required` sentinel, literals), *args/**kwargs,
  and the decorator's keyword-only defaults.
* C18Consts.lean - SCP command codes and the operation codes needed to find the
  application id inside a datagram (rig/machine_control/consts.py, by AST), and
  the SpiNN-5 local-Ethernet offset table (rig/geometry.py, the run-time array).
"""
import ast
import importlib
import os
import sys
import warnings

from harness.gen_tables import HEADER, read_source, lean_list

CLASSES = [("rig/machine_control/machine_controller.py", "MachineController"),
           ("rig/machine_control/bmp_controller.py", "BMPController")]


def lean_str(s):
    return '"' + s.replace("\\", "\\\\").replace('"', '\\"') + '"'


def lean_int(i):
    return "(%d)" % i if i < 0 else "%d" % i


def val_of_node(node):
    """AST expression of a default value -> (python-side canonical value, Lean term)"""
    if isinstance(node, ast.Name) and node.id == "Required":
        return {"k": "required"}, ".required"
    try:
        v = ast.literal_eval(node)
    except Exception:
        src = ast.unparse(node)
        return {"k": "other", "v": src}, ".other " + lean_str(src)
    return val_of_py(v)


def val_of_py(v):
    if v is None:
        return {"k": "none"}, ".none"
    if isinstance(v, bool):
        return {"k": "bool", "v": v}, ".bool " + ("true" if v else "false")
    if isinstance(v, int):
        return {"k": "int", "v": v}, ".int " + lean_int(v)
    return {"k": "other", "v": repr(v)}, ".other " + lean_str(repr(v))


def is_ctx_decorator(d):
    return (isinstance(d, ast.Call) and isinstance(d.func, ast.Attribute)
            and d.func.attr == "use_contextual_arguments")


def read_signatures(repo):
    """[{cls, name, argNames, defaults, hasVarargs, hasKeywords, kwOnly}] in source order"""
    out = []
    for rel, cname in CLASSES:
        with warnings.catch_warnings():
            warnings.simplefilter("ignore")
            tree = ast.parse(read_source(repo, rel))
        cls = [n for n in tree.body if isinstance(n, ast.ClassDef) and n.name == cname]
        if not cls:
            raise ValueError("class %s not found in %s" % (cname, rel))
        for fn in cls[0].body:
            if not isinstance(fn, ast.FunctionDef):
                continue
            decs = [d for d in fn.decorator_list if is_ctx_decorator(d)]
            if not decs:
                continue
            if len(decs) != 1 or decs[0].args or any(k.arg is None for k in decs[0].keywords):
                raise ValueError("%s.%s: decorator call not understood" % (cname, fn.name))
            if fn.args.kwonlyargs:
                raise ValueError("%s.%s: keyword-only parameters are not supported by the decorator" % (cname, fn.name))
            a = fn.args
            out.append(dict(
                cls=cname, name=fn.name,
                argNames=[x.arg for x in list(a.posonlyargs) + list(a.args)],
                defaults=[val_of_node(d) for d in a.defaults],
                hasVarargs=a.vararg is not None, hasKeywords=a.kwarg is not None,
                kwOnly=[(k.arg, val_of_node(k.value)) for k in decs[0].keywords]))
    if not out:
        raise ValueError("no decorated methods found")
    return out


def read_inner_calls(repo):
    """{(cls, name): sorted names of the decorated methods `self.<m>(...)` calls DIRECTLY in the body of the
    decorated method `name`} - what the per-method wire rule must at least re-dispatch to"""
    sigs = read_signatures(repo)
    out = {}
    for rel, cname in CLASSES:
        decorated = {g["name"] for g in sigs if g["cls"] == cname}
        with warnings.catch_warnings():
            warnings.simplefilter("ignore")
            tree = ast.parse(read_source(repo, rel))
        cls = [n for n in tree.body if isinstance(n, ast.ClassDef) and n.name == cname][0]
        for fn in cls.body:
            if isinstance(fn, ast.FunctionDef) and fn.name in decorated and any(is_ctx_decorator(d) for d in fn.decorator_list):
                calls = set()
                for n in ast.walk(fn):
                    if isinstance(n, ast.Attribute) and isinstance(n.value, ast.Name) and n.value.id == "self" \
                            and n.attr in decorated:
                        calls.add(n.attr)       # called, or handed on as a bound method (`map(self.m, ..)`)
                out[(cname, fn.name)] = sorted(calls)
    return out


def gen_signatures(repo):
    sigs = read_signatures(repo)
    s = HEADER + "import RigModel.Model.C18Types\nnamespace Rig.Gen.Signatures\nopen Rig.C18\n\n"
    names = []
    for g in sigs:
        ident = "%s_%s" % ("mc" if g["cls"] == "MachineController" else "bmp", g["name"])
        names.append(ident)
        s += "def %s : Sig :=\n  { cls := %s, name := %s,\n    argNames := %s,\n    defaults := %s,\n" % (
            ident, lean_str(g["cls"]), lean_str(g["name"]),
            lean_list(g["argNames"], lean_str), lean_list(g["defaults"], lambda d: d[1]))
        s += "    hasVarargs := %s, hasKeywords := %s,\n    kwOnly := %s }\n\n" % (
            "true" if g["hasVarargs"] else "false", "true" if g["hasKeywords"] else "false",
            lean_list(g["kwOnly"], lambda kv: "(%s, %s)" % (lean_str(kv[0]), kv[1][1])))
    s += "def sigs : List Sig :=\n  %s\n\nend Rig.Gen.Signatures\n" % lean_list(names)
    return s, len(sigs)


def enum_values(repo, rel, cname):
    tree = ast.parse(read_source(repo, rel))
    for n in tree.body:
        if isinstance(n, ast.ClassDef) and n.name == cname:
            out = {}
            for st in n.body:
                if isinstance(st, ast.Assign) and len(st.targets) == 1 and isinstance(st.targets[0], ast.Name):
                    try:
                        out[st.targets[0].id] = ast.literal_eval(st.value)
                    except Exception:
                        pass
            return out
    raise ValueError("enum %s not found" % cname)


def eth_offset_table(repo):
    """SPINN5_ETH_OFFSET[y][x] = (dx, dy) as the run-time array of rig/geometry.py"""
    if repo not in sys.path:
        sys.path.insert(0, repo)
    g = importlib.import_module("rig.geometry")
    if not os.path.abspath(g.__file__).startswith(os.path.abspath(repo) + os.sep):
        # the module was already imported from somewhere else: read the file directly
        spec = importlib.util.spec_from_file_location("_c18_geometry", os.path.join(repo, "rig", "geometry.py"))
        g = importlib.util.module_from_spec(spec)
        spec.loader.exec_module(g)
    t = g.SPINN5_ETH_OFFSET
    return [[(int(t[y][x][0]), int(t[y][x][1])) for x in range(12)] for y in range(12)]


def gen_consts(repo):
    rel = "rig/machine_control/consts.py"
    scp = enum_values(repo, rel, "SCPCommands")
    alloc = enum_values(repo, rel, "AllocOperations")
    rtr = enum_values(repo, rel, "RouterOperations")
    nn = enum_values(repo, rel, "NNCommands")
    sig = enum_values(repo, rel, "AppSignal")
    s = HEADER + "namespace Rig.Gen.C18Consts\n"
    for k in ["sver", "read", "write", "fill", "link_read", "link_write", "nearest_neighbour_packet",
              "signal", "flood_fill_data", "led", "iptag", "alloc_free", "router", "info", "bmp_info", "power"]:
        s += "def cmd_%s : Nat := %d\n" % (k, scp[k])
    for k in ["alloc_sdram", "free_sdram_by_ptr", "alloc_rtr", "free_rtr_by_app"]:
        s += "def op_%s : Nat := %d\n" % (k, alloc[k])
    s += "def rtr_load : Nat := %d\n" % rtr["load"]
    s += "def nn_flood_fill_end : Nat := %d\n" % nn["flood_fill_end"]
    s += "def sig_stop : Nat := %d\n" % sig["stop"]
    tab = eth_offset_table(repo)
    s += "/-- SPINN5_ETH_OFFSET[y][x] = (dx, dy) -/\ndef ethOffset : List (List (Int × Int)) :=\n  [" + ",\n   ".join(
        lean_list(row, lambda t: "(%s, %s)" % (lean_int(t[0]), lean_int(t[1]))) for row in tab) + "]\n"
    s += "end Rig.Gen.C18Consts\n"
    return s, 23 + 1


GENERATORS = {"Signatures": gen_signatures, "C18Consts": gen_consts}
