"""Translator part for C10: router constants of rig/machine_control/consts.py, the Routes
enumeration of rig/routing_table/entries.py (values and `opposite`), and the two `sv` fields
the table loader uses, parsed from rig/boot/sark.struct independently of rig's own parser."""
import importlib
import os
import re
from harness.gen_tables import HEADER, lean_list


def sv_fields(repo):
    base, cur, out = None, None, {}
    for line in open(os.path.join(repo, "rig", "boot", "sark.struct"), "rb").read().decode().splitlines():
        line = line.split("#")[0].strip()
        m = re.match(r"(name|base)\s*=\s*(\S+)$", line)
        if m:
            if m.group(1) == "name":
                cur = m.group(2)
            elif cur == "sv":
                base = int(m.group(2), 0)
            continue
        tok = line.split()
        if cur == "sv" and len(tok) == 5:
            out[tok[0]] = (int(tok[2], 0), tok[1])
    return base, out


def gen_router(repo):
    consts = importlib.import_module("rig.machine_control.consts")
    entries = importlib.import_module("rig.routing_table.entries")
    R = entries.Routes
    base, f = sv_fields(repo)
    if f["sdram_sys"][1] != "V" or f["rtr_copy"][1] != "V":
        raise ValueError("sv.sdram_sys / sv.rtr_copy are no longer 32-bit words")
    s = HEADER + "namespace Rig.Gen.Router\n"
    s += "def rtrEntries : Nat := %d\n" % consts.RTR_ENTRIES
    s += 'def rtePackString : String := "%s"\n' % consts.RTE_PACK_STRING
    s += "def cmdAllocFree : Nat := %d\n" % int(consts.SCPCommands.alloc_free)
    s += "def cmdRouter : Nat := %d\n" % int(consts.SCPCommands.router)
    s += "def opAllocRtr : Nat := %d\n" % int(consts.AllocOperations.alloc_rtr)
    s += "def opFreeRtrByApp : Nat := %d\n" % int(consts.AllocOperations.free_rtr_by_app)
    s += "def opRouterLoad : Nat := %d\n" % int(consts.RouterOperations.load)
    s += "def svBase : Nat := %d\n" % base
    s += "def svSdramSys : Nat := %d\n" % f["sdram_sys"][0]
    s += "def svRtrCopy : Nat := %d\n" % f["rtr_copy"][0]
    s += "/-- integer values of the `Routes` enumeration, in definition order -/\n"
    s += "def routesValues : List Nat := %s\n" % lean_list([int(r) for r in R])
    s += "/-- `(r, r.opposite)` for every member with `is_link` -/\n"
    s += "def oppositeTable : List (Nat × Nat) := %s\n" % lean_list(
        [(int(r), int(r.opposite)) for r in R if r.is_link], lambda p: "(%d, %d)" % p)
    s += "/-- members for which `.opposite` raises ValueError -/\n"
    bad = []
    for r in R:
        try:
            r.opposite
        except ValueError:
            bad.append(int(r))
    s += "def noOpposite : List Nat := %s\n" % lean_list(bad)
    s += "/-- `Routes.core(n)` for n = 0..17 -/\n"
    s += "def coreRoutes : List Nat := %s\n" % lean_list([int(R.core(n)) for n in range(18)])
    s += "end Rig.Gen.Router\n"
    return s, 8


GENERATORS = {"Router": gen_router}
