"""Python -> Lean translator for a small pure-integer subset.

For the functions listed in FUNCS the *function body itself* is regenerated
from /repo's source on every run into lean/RigModel/Gen/PyFun.lean; companion
Props modules (Props/CxxGen.lean) prove that each generated definition equals
the hand-written model the property theorems are about.  For these functions
the tie to the code is therefore a proof obligation re-checked by the kernel
on every run - not a sample: any change of the function's source changes the
generated definition, and the equality theorem then either still holds (a
harmless rewrite, now *proved* harmless) or breaks.

Supported subset (anything else raises NotImplementedError, reported as a
broken translator obligation):
  statements : `a, b = e`, `x = e`, `x op= e`, `if c: <assignments/return> [else: ...]`,
               `return e`, `assert ...` (ignored: assertions about argument shape)
  expressions: int constants, names, tuples, `t[const]` on tuple-typed names,
               `s.start` / `s.stop` on slice-typed names, + - * // % unary -,
               & | ^ ~ << >>, comparisons, `a if c else b`, min / max, int(e),
               `sum(1 for i in range(N) if c)`
Semantics: Python ints are unbounded -> Lean `Int`; `//` = `Int.fdiv`,
`%` = `Int.fmod` (Python's floor semantics), bit operations = Mathlib's
two's-complement `Int.land/lor/xor/lnot`, shifts by `toNat` of the (non-negative) count.
"""
import ast
import os

from harness.gen_tables import HEADER

# name -> (relative path, function name, [param types], return type)
# types: "int", "tup2", "tup3", "slice"
FUNCS = [
    ("rig/geometry.py", "to_xyz", ["tup2"], "tup3"),
    ("rig/geometry.py", "minimise_xyz", ["tup3"], "tup3"),
    ("rig/geometry.py", "shortest_mesh_path_length", ["tup3", "tup3"], "int"),
    ("rig/geometry.py", "shortest_torus_path_length", ["tup3", "tup3", "int", "int"], "int"),
    ("rig/place_and_route/allocate/utils.py", "slices_overlap", ["slice", "slice"], "bool"),
    ("rig/place_and_route/allocate/utils.py", "align", ["int", "int"], "int"),
    ("rig/routing_table/utils.py", "intersect", ["int", "int", "int", "int"], "bool"),
    ("rig/routing_table/ordered_covering.py", "_get_generality", ["int", "int"], "int"),
    ("rig/machine_control/regions.py", "get_region_for_chip", ["int", "int", "int"], "int"),
    ("rig/geometry.py", "spinn5_local_eth_coord", ["int"] * 6, "tup2"),
    ("rig/geometry.py", "spinn5_chip_coord", ["int"] * 4, "tup2"),
    ("rig/geometry.py", "spinn5_fpga_link", ["int"] * 5, "optnn"),
]

# module-level tables of the source, already regenerated into Lean by other translator modules
TABLES2D = {"SPINN5_ETH_OFFSET": ("Rig.Gen.Spinn5.ethOffset", "((0 : Int), (0 : Int))")}
DICTS = {"SPINN5_FPGA_LINKS": "Rig.Gen.Spinn5.fpgaLinks"}

LEAN_TY = {"int": "Int", "tup2": "Int × Int", "tup3": "Int × Int × Int", "slice": "Int × Int", "bool": "Bool",
           "optnn": "Option (Nat × Nat)"}


class Tr(object):
    def __init__(self, types):
        self.types = dict(types)      # name -> type

    # ---- expressions --------------------------------------------------------
    def e(self, n):
        if isinstance(n, ast.Constant) and isinstance(n.value, int) and not isinstance(n.value, bool):
            return "(%d : Int)" % n.value if n.value >= 0 else "(-%d : Int)" % -n.value
        if isinstance(n, ast.Name):
            return n.id + "_" if n.id in ("at", "from", "end", "open", "then", "do", "fun", "let", "in") else n.id
        if isinstance(n, ast.Tuple):
            return "(" + ", ".join(self.e(x) for x in n.elts) + ")"
        if isinstance(n, ast.Subscript) and isinstance(n.value, ast.Name) and isinstance(n.slice, ast.Constant):
            t = self.types.get(n.value.id)
            i = n.slice.value
            arity = {"tup2": 2, "tup3": 3}.get(t)
            if arity is None or not (0 <= i < arity):
                raise NotImplementedError("subscript of %s : %s" % (n.value.id, t))
            base = n.value.id
            proj = ".2" * i + (".1" if i < arity - 1 else "")
            return "%s%s" % (base, proj)
        # TABLE[a][b]
        if (isinstance(n, ast.Subscript) and isinstance(n.value, ast.Subscript)
                and isinstance(n.value.value, ast.Name) and n.value.value.id in TABLES2D):
            lean, dflt = TABLES2D[n.value.value.id]
            return "((%s.getD (%s).toNat []).getD (%s).toNat %s)" % (lean, self.e(n.value.slice), self.e(n.slice), dflt)
        # DICT.get(key)
        if (isinstance(n, ast.Call) and isinstance(n.func, ast.Attribute) and n.func.attr == "get"
                and isinstance(n.func.value, ast.Name) and n.func.value.id in DICTS and len(n.args) == 1):
            return "(%s.lookup %s)" % (DICTS[n.func.value.id], self.e(n.args[0]))
        # call of another translated function
        if isinstance(n, ast.Call) and isinstance(n.func, ast.Name) and n.func.id in [f[1] for f in FUNCS]:
            return "(%s %s)" % (n.func.id.lstrip("_"), " ".join(self.e(a) for a in n.args))
        if isinstance(n, ast.Attribute) and isinstance(n.value, ast.Name) and self.types.get(n.value.id) == "slice":
            if n.attr == "start":
                return n.value.id + ".1"
            if n.attr == "stop":
                return n.value.id + ".2"
        if isinstance(n, ast.UnaryOp):
            if isinstance(n.op, ast.USub):
                return "(-%s)" % self.e(n.operand)
            if isinstance(n.op, ast.Invert):
                return "(Int.lnot %s)" % self.e(n.operand)
            if isinstance(n.op, ast.Not):
                return "(!%s)" % self.b(n.operand)
        if isinstance(n, ast.BinOp):
            a, b = self.e(n.left), self.e(n.right)
            op = type(n.op)
            if op in (ast.Add, ast.Sub, ast.Mult):
                return "(%s %s %s)" % (a, {ast.Add: "+", ast.Sub: "-", ast.Mult: "*"}[op], b)
            if op is ast.FloorDiv:
                return "(Int.fdiv %s %s)" % (a, b)
            if op is ast.Mod:
                return "(Int.fmod %s %s)" % (a, b)
            if op is ast.BitAnd:
                return "(Int.land %s %s)" % (a, b)
            if op is ast.BitOr:
                return "(Int.lor %s %s)" % (a, b)
            if op is ast.BitXor:
                return "(Int.xor %s %s)" % (a, b)
            if op is ast.LShift:
                return "(%s <<< (%s).toNat)" % (a, b)
            if op is ast.RShift:
                return "(%s >>> (%s).toNat)" % (a, b)
        if isinstance(n, ast.IfExp):
            return "(if %s then %s else %s)" % (self.p(n.test), self.e(n.body), self.e(n.orelse))
        if isinstance(n, ast.Call) and isinstance(n.func, ast.Name):
            f = n.func.id
            if f in ("min", "max") and len(n.args) == 2:
                return "(%s %s %s)" % (f, self.e(n.args[0]), self.e(n.args[1]))
            if f == "int" and len(n.args) == 1:
                return self.e(n.args[0])
            if f == "sum" and len(n.args) == 1 and isinstance(n.args[0], ast.GeneratorExp):
                g = n.args[0]
                c = g.generators[0]
                if (isinstance(g.elt, ast.Constant) and g.elt.value == 1 and len(g.generators) == 1
                        and isinstance(c.iter, ast.Call) and getattr(c.iter.func, "id", "") == "range"
                        and len(c.iter.args) == 1 and isinstance(c.iter.args[0], ast.Constant)
                        and len(c.ifs) == 1 and isinstance(c.target, ast.Name)):
                    var = c.target.id
                    cond = self.p(c.ifs[0])
                    return "(((List.range %d).countP (fun (%s_n : Nat) => let %s : Int := (%s_n : Int); decide (%s)) : Nat) : Int)" % (
                        c.iter.args[0].value, var, var, var, cond)
        if isinstance(n, ast.Compare) or isinstance(n, ast.BoolOp):
            return "(decide %s)" % self.p(n)
        raise NotImplementedError(ast.dump(n)[:120])

    def p(self, n):
        """a Python expression used as a condition -> Lean Prop"""
        if isinstance(n, ast.Compare) and len(n.ops) == 1:
            a, b = self.e(n.left), self.e(n.comparators[0])
            op = {ast.Lt: "<", ast.LtE: "≤", ast.Gt: ">", ast.GtE: "≥", ast.Eq: "=", ast.NotEq: "≠"}[type(n.ops[0])]
            return "(%s %s %s)" % (a, op, b)
        if isinstance(n, ast.BoolOp):
            j = " ∧ " if isinstance(n.op, ast.And) else " ∨ "
            return "(" + j.join(self.p(v) for v in n.values) + ")"
        if isinstance(n, ast.UnaryOp) and isinstance(n.op, ast.Not):
            return "(¬ %s)" % self.p(n.operand)
        # truthiness of an integer
        return "(%s ≠ 0)" % self.e(n)

    def b(self, n):
        return "(decide %s)" % self.p(n)

    # ---- statements ---------------------------------------------------------
    def assigned(self, stmts):
        out = []
        for s in stmts:
            if isinstance(s, ast.Assign):
                for t in s.targets:
                    for nm in ([t] if isinstance(t, ast.Name) else t.elts):
                        if nm.id not in out:
                            out.append(nm.id)
            elif isinstance(s, ast.AugAssign):
                if s.target.id not in out:
                    out.append(s.target.id)
            elif isinstance(s, ast.If):
                for v in self.assigned(s.body) + self.assigned(s.orelse):
                    if v not in out:
                        out.append(v)
        return out

    def returns(self, stmts):
        return bool(stmts) and (isinstance(stmts[-1], ast.Return) or (
            isinstance(stmts[-1], ast.If) and self.returns(stmts[-1].body) and self.returns(stmts[-1].orelse)))

    def block(self, stmts, ind, tail=None):
        """stmts followed by the expression `tail` (or ending in return)"""
        pad = "  " * ind
        if not stmts:
            if tail is None:
                raise NotImplementedError("function does not end in return")
            return pad + tail
        s, rest = stmts[0], stmts[1:]
        if isinstance(s, ast.Expr) and isinstance(s.value, ast.Constant):
            return self.block(rest, ind, tail)          # docstring
        if isinstance(s, ast.Assert):
            return self.block(rest, ind, tail)
        if isinstance(s, ast.Return):
            return pad + (self.b(s.value) if self.ret == "bool" else self.e(s.value))
        if isinstance(s, ast.Assign) and len(s.targets) == 1:
            t = s.targets[0]
            pat = t.id if isinstance(t, ast.Name) else "(" + ", ".join(x.id for x in t.elts) + ")"
            ty = " : Int" if isinstance(t, ast.Name) and not isinstance(s.value, ast.Tuple) else ""
            return "%slet %s%s := %s\n%s" % (pad, pat, ty, self.e(s.value), self.block(rest, ind, tail))
        if isinstance(s, ast.AugAssign) and isinstance(s.target, ast.Name):
            v = ast.BinOp(left=ast.Name(id=s.target.id), op=s.op, right=s.value)
            return "%slet %s : Int := %s\n%s" % (pad, s.target.id, self.e(v), self.block(rest, ind, tail))
        if isinstance(s, ast.If):
            if self.returns(s.body) and (self.returns(s.orelse) or not s.orelse):
                els = s.orelse if s.orelse else rest
                els_tail = tail
                return "%sif %s then\n%s\n%selse\n%s" % (pad, self.p(s.test), self.block(s.body, ind + 1),
                                                       pad, self.block(els if s.orelse else rest, ind + 1, els_tail))
            vs = self.assigned([s])
            tup = vs[0] if len(vs) == 1 else "(" + ", ".join(vs) + ")"
            return "%slet %s := (if %s then\n%s\n%s  else\n%s)\n%s" % (
                pad, tup, self.p(s.test), self.block(s.body, ind + 2, tup), pad,
                self.block(s.orelse, ind + 2, tup), self.block(rest, ind, tail))
        raise NotImplementedError(ast.dump(s)[:120])


def translate(repo, rel, fname, ptypes, ret):
    tree = ast.parse(open(os.path.join(repo, rel)).read())
    fn = [n for n in ast.walk(tree) if isinstance(n, ast.FunctionDef) and n.name == fname]
    if len(fn) != 1:
        raise NotImplementedError("%s: %d definitions of %s" % (rel, len(fn), fname))
    fn = fn[0]
    params = [a.arg for a in fn.args.args]
    if len(params) != len(ptypes):
        raise NotImplementedError("%s: parameters %r" % (fname, params))
    tr = Tr(zip(params, ptypes))
    tr.ret = ret
    body = tr.block(fn.body, 1)
    sig = " ".join("(%s : %s)" % (p, LEAN_TY[t]) for p, t in zip(params, ptypes))
    return "/-- generated from `%s:%s` -/\ndef %s %s : %s :=\n%s\n" % (rel, fname, fname.lstrip("_"), sig, LEAN_TY[ret], body)


def gen_pyfun(repo):
    s = HEADER + "import Mathlib.Data.Int.Bitwise\nimport RigModel.Gen.Spinn5\nnamespace Rig.Gen.PyFun\n\n"
    for rel, fname, ptypes, ret in FUNCS:
        s += translate(repo, rel, fname, ptypes, ret) + "\n"
    s += "end Rig.Gen.PyFun\n"
    return s, len(FUNCS)


GENERATORS = {"PyFun": gen_pyfun}
