"""Python -> Lean translator for a small pure-integer subset.

For the functions listed in FUNCS the *function body itself* is regenerated
from /repo's source on every run into lean/RigModel/Gen/PyFun.lean; companion
Props modules (Props/CxxGen.lean) prove that each generated definition equals
the hand-written model the property theorems are about.  For these functions
the tie to the code is therefore a proof obligation re-checked by the kernel
on every run - not a sample: any change of the function's source changes the
generated definition, and the equality theorem then either still holds (a
harmless rewrite, now *proved* harmless) or breaks.

Supported subset (anything else raises NotImplementedError, reported as a
broken translator obligation):
  statements : `a, b = e`, `x = e`, `x op= e`, `if c: ... [elif/else: ...]` (branches may assign, return, raise,
               break, continue, yield, loop), `return e`, `raise Exc(...)`, `pass`,
               `assert c` (function NOT declared `exc:`: ignored - an assertion about the argument shape, i.e. a
               precondition of the generated definition; function declared `exc:`: `.error "AssertionError"` when false),
               `for <name | tuple of names> in <iterable>: ... [else: ...]`, `while c: ...`, `break`, `continue`,
               `yield e` (generators), `self.<EFFECT>(ints...)` as a statement (see "effects").
  expressions: int constants, names, tuples, `t[const]` on tuple-typed names, `s.start` / `s.stop` on slice-typed
               names, `e.attr` on record-typed names (`rec:` types), + - * // % ** unary -, & | ^ ~ << >>, comparisons
               (also chained: `a <= b <= c`), `a if c else b`, and / or / not in conditions, min / max of ints
               (several arguments or one literal tuple), abs, int(e), len(list), `sum(1 for i in range(N) if c)`, `int(sqrt(e))` (see below),
               `Enum.member` of an IntEnum class of the same file or imported by `from <module of the repo> import`
               (the member's integer literal), calls of functions translated earlier in FUNCS (tuple results via
               `let (a, b) := ...`), `f(d - s for s, d in zip(a, b))` for 3-tuples `a`, `b` (component-wise tuple).
  iterables  : `range(n)`, `range(a, b)`, `range(a, b, <non-zero int literal>)`, `reversed(range(...))`, a tuple or
               list literal, a list-typed parameter.
  loops      : every loop body is emitted as a definition of its own, `<f>_loop<k>` (k = number of the loop in
               source order; parameters: the variables of the enclosing scope it mentions, then the state, then the
               element), so that the companion proofs can state what one iteration does.
               A `for` loop is `List.foldl` over the list of the iterable's values; the fold state is the tuple of
               the variables that exist before the loop and are assigned in its body (plus, when needed, the flags
               `brk_ : Bool` - a `break`/`return`/`raise` was executed, the remaining elements are skipped - and
               `ret_ : Option <result>` - the value returned / exception raised inside the loop).  Variables first
               assigned inside a loop body are local to one iteration (reading them afterwards is unsupported), except
               the loop variable of a `for` loop when it is read after the loop: it is part of the state and, when it
               did not exist before, an empty iterable gives `.error "UnboundLocalError"` (functions declared `exc:`
               only).  `for ... else` is supported (`else` runs when `brk_` is false).
               A `while` loop is `pyWhile cond body fuel init`: at most `fuel` iterations (`fuel : Nat` is an extra,
               last parameter of the generated definition); when the condition still holds after `fuel` iterations
               the result is `.error "fuel"` (function must be declared `exc:`).  The companion theorems state the
               fuel that suffices.  `while True:` without break/return in a generator (an infinite generator) is
               observed through its first `fuel` iterations: the result is the list of values yielded by them.
  generators : return type `gen:<elem>`: the result is the list of yielded values in order (`out_`, threaded through
               loops as a state variable; `yield e` is `out_ ++ [e]`).
  effects    : return type `calls:<n>` / `calls:<t1>,<t2>,...`: a method whose observable behaviour is the sequence of
               its calls `self.<m>(a1, ..., an)` for `<m>` in EFFECTS (n integer arguments / arguments of the given
               types, no keywords): the result is the list of argument tuples in call order.
  static     : `isinstance(x, str)` / `isinstance(x, Iterable)` for a parameter `x` declared "int" (and never
               assigned in live code) is False by the declared type: an `if` with such a test (also under not / and /
               or) keeps only its live branch - the generated definition covers the calls with an int argument.
               `x in Enum` / `x not in Enum` for an IntEnum class is membership of the value (Python >= 3.12).
               `D[k]` for the dicts in KEY_DICTS / PAIR_DICTS (tables regenerated by other translator modules) is a
               raising expression (KeyError).  In a `calls:` function `return self.<EFFECT>(...)[.attr]` records the
               call; the reply of the machine (the returned value) is not part of the result.
  struct     : `struct.pack(fmt, v...)`, `struct.unpack_from(fmt, buf[, off])`, `struct.unpack(fmt, buf)` with a LITERAL
               format of explicit byte order (`<`, `>`, `!`) and the items `B H I x` (with counts) on byte lists:
               raising expressions (`struct.error`; exception name "struct.error") - `pyStructPack` checks every
               value's range and the number of values, the unpack functions the buffer length; the unpacked values
               must be assigned to a tuple of as many targets (names / attributes).
               Module-level `NAME = <int literal>` constants of the file (assigned once) are their values.
  objects    : the parameter declared "obj:..." may have any name when the function is not a method
               (`_unpack_sdp_into_packet(packet, ...)`); attribute type suffixes: `:b` bool, `:y` bytes, `:o` int or None
               (tested with `is None` / `is not None` like an optional parameter; assigning a struct value stores
               `some v`).  Methods and properties are looked up through the single-inheritance chain of classes of
               the file (`SCPPacket.bytestring` is `SDPPacket.bytestring` with `self.packed_data` = SCPPacket's).
               "local:<name>=obj:..." declares an object the function creates itself (`<name> = cls()` / `Class()`):
               the attribute values the constructor leaves are parameters of the generated definition (the statement
               itself is dropped), `return <name>` returns the attributes.  `f(<obj>, args...)` as a statement, for a
               procedure `f` translated earlier with an object parameter of a subset of the attributes, rebinds them.
  variables  : "var:<name>=optslice" declares a local variable that holds `None` or `slice(a, b)` of ints
               (`Option (Int × Int)`): `x = None`, `x = slice(a, b)`, `x is None` / `x is not None` as an `if` test,
               `x.start` / `x.stop` / `x` itself where it is known to be a slice.  `yield Rec(...)` for the records in
               RECORD_CALLS keeps the listed arguments (`ReserveResourceConstraint(resource, reservation, chip)`: the
               reservation; the other two are opaque objects passed through).
  results    : `opt:<t>`: the function returns `None` or a value (`Option`); `raw:<Lean type>` spells a result type
               out.  `{r for r in Enum if c}` over an IntEnum class is the LIST of the member values satisfying `c`
               in definition order (a canonical representation of the set); `Rec(a, b, c)` for the records in
               VALUE_RECORDS (`RoutingTableEntry(routes, key, mask)`) is the tuple of its arguments; `module.NAME`
               string constants (assigned once) may be `struct` formats.
  dicts      : parameter / result type "dict": a dict whose keys and values are ints (keys stand for hashable objects),
               as the association list of its items in insertion order, keys unique (a hypothesis of the theorems).
               `d.get(k, default)`, `d.copy()`, `iteritems(d)` / `d.items()` / `itervalues(d)` / `d.values()` /
               `d.keys()` as iterables of comprehensions, `{k: e for k, v in iteritems(d)}` (the key must be the
               iterated key: order and uniqueness are kept), `any(c for v in ...)` / `all(...)`, `d[k] += e` /
               `d[k] -= e` (KeyError when absent).  "rec:a,b.c": a record parameter with (dotted) int attributes.
  floats     : parameter / result type "float"; `2.0 ** n`, `a * b` with a float operand (an int operand goes through
               `float(k)`), `float(x)`, `int(x)` of a float.  They become calls of the fields of a parameter
               `F : PyFloatOps φ` of the generated definition (`pow2`, `mul`, `ofInt`, `toInt`; the last three and
               `pow2` may raise OverflowError): the float SEMANTICS is not the translator's, the companion module
               instantiates it with the IEEE-754 model of Model/C16.
  currying   : a ptypes entry "->g" after the outer parameter types: `def f(a): ...; def g(x): ...; return g` is
               translated as the function of both parameter lists (the closure applied).
  events     : return type `ev:<t>`: calls of the methods in EVENT_CALLS (`warnings.warn`, `self._parent._perform_read`,
               `self._parent._perform_write`) are recorded, in order, in a list of `PyEvent` (name, integer arguments,
               bytes argument; the arguments of `warn` - a message - are not modelled) that is the LAST component of
               the result.  `v = <event call>` (outside loops) additionally binds `v` to a new parameter `v_in` of the
               generated definition: what the environment answers is an input.
  bytes      : parameter type "bytes": a byte string as the list of its byte values (`List Int`); `len(b)`,
               `b[i:j]` (= `pySlice b i j`, Python's clamping slice; also for other list-typed parameters).
  methods    : a FUNCS name `Class.method` selects a method of a class.
               * `@classmethod`: the `cls` parameter is dropped; `@property` / `@staticmethod` are transparent.
               * decorators listed in GUARDS (`_if_not_closed`): the generated definition is the method body, i.e.
                 the behaviour when the guard passes (the guard's own check - `raise OSError` when the view is
                 closed or its allocation freed - is modelled separately, `Rig.C13.dead`).
               * parameter type "int" for `self`: a method of an `IntEnum` class, `self` is the member's
                 integer value; `self.prop` is the call of the (already translated) method `Class.prop`.
               * parameter type "obj:a,b" for `self`: an object whose integer attributes `self.a`,
                 `self.b` are the only state touched (state passing): `self.a` reads the parameter
                 `self_a`, `self.a = e` rebinds it and the function returns
                 `(returned value, final self.a, final self.b)` - or just the final attributes for return type "none".
                 `self.prop` for a property / `self.m()` for a method `Class.m` translated earlier with the same
                 attributes (and not assigning any) is its call on the current attribute values.
                 "obj:a,b;skip:c,d": the attributes `c`, `d` hold objects that are not modelled; the statements
                 `self.c = ...` are dropped (and an `if` left empty by that), reading them is unsupported.
                 A `:b` suffix (`closed:b`) declares a boolean attribute.
               * "obj:" (no attributes): `self` is only used for EFFECT calls.
  optionals  : parameter type "optint" (`int or None`) / "oslice" (a `slice` whose start, stop, step are
               `int or None`): the only uses are the tests `x is None` / `x is not None` (also `s.start is None` ...)
               as the condition of an `if` / `elif` / conditional expression / `and`-`or` chain; in the branch where
               the value is known to be an int it is used as one.  `isinstance(s, slice)` is `True` for an "oslice".
               `Cls(args)` as a *returned* value for a class `Cls` of the same file listed in CONSTRUCTORS: the tuple
               of the listed integer arguments.
  exceptions : return type "exc:<t>" = `Except String <t>` ("exc_int" = "exc:int"); `raise Exc(...)` is `.error "Exc"`,
               `return e` is `.ok e`; raising expressions:
               * `Cls(e)` / `cls(e)` for an `IntEnum` class `Cls` of the same file (members read from the class
                 body, all must be integer literals), as the *returned* expression: `.ok e` if `e` is a member
                 value, else `.error "ValueError"`;
               * `D[key]` for a module-level dict `D` regenerated by another translator module (SUBSCRIPT_DICTS),
                 as the *returned* expression: the value, or `.error "KeyError"`;
               * `int(sqrt(e))`: `pyIsqrt e` = `.error "ValueError"` (math domain error) for e < 0, else the integer
                 square root (ASSUMPTION, as in Model/C19: `int(math.sqrt(k)) = isqrt(k)`, exact for k < 2^52);
               * `l[i]` for a list-typed parameter `l`: `pyGet l i` = the element (negative `i` counts from the end)
                 or `.error "IndexError"`.
               The last two may occur anywhere in a statement (they are evaluated, in source order, in front of
               it: `match <raising> with | .error e => <leave with e> | .ok t => <statement using t>`) and in the
               condition of a `while` loop (the loop becomes `while True: if not <cond>: break; ...`, its
               condition an `Except String Bool` evaluated with Python's short-circuit order), but not inside
               conditional expressions or and/or chains elsewhere.  Inside a loop "leave" means: `brk_ := true`,
               `ret_ := some (.error e)`.
               A raising construct anywhere else, or in a function not declared `exc:`, is unsupported.
  nested def : `def f(x, ...): return e` inside a function (no defaults / decorators, `e` must not read variables
               that the enclosing function assigns): calls `f(a)` are expanded in place (`let x := a; e`).
  structured : (fifth round) parameter / variable / result types `key` (an opaque hashable object: `Nat`), `int`,
               `tup2`, `slice`, `bool`, `opt[T]`, `list[T]`, `dict[K,V]` (the association list of the items in
               insertion order, keys unique), `union[Cls(field:T,...)|...]` (instances of the listed record classes;
               anything else is the constructor `other`; the inductive type `<f>_<param>_elem` is emitted in front of the
               function).  "var:<name>=dict[K,V]" declares a local dict: it must be created exactly once, by `{}`,
               a dict comprehension `{k: e for k in D}`, `defaultdict(list)`, `defaultdict(lambda: <int>)` or
               `defaultdict(lambda: defaultdict(list))` (that statement fixes what a missing key gives: KeyError or
               the factory's value).  `d[k]` (KeyError / default; READING a defaultdict also inserts the default - the
               translation keeps the value only, which `check_dict_uses` allows when the insertion cannot be
               observed), `d.get(k, x)`, `d[k] = v` (`pyDictSet`: in place, or appended), `d[k1]..[kn].append(v)` on
               defaultdicts (`pyDictMod`), `iteritems(d)` / `d.items()` as a `for` iterable (also of a raising
               expression such as `vr[vertex]`), `isinstance(v, Cls)` on a union-typed loop variable as an `if` test
               (a `match`; the fields `v.f` are variables `v_f` in the branch, optional fields are tested with
               `is None`), `slice(a, b)` values, `x.start` / `x.stop`; on an optional slice that is not known to be a
               slice `x.stop` is a raising expression (AttributeError) and `d[k] = x` stores the optional as it is;
               after `x = slice(a, b)` the value is known until the next loop / merge.  "env:<attr>=T;getitem=K->V"
               declares an object of the environment (`machine`): its declared attributes are parameters, `obj[k]` is a
               call of the function parameter `<obj>_getitem : K -> Except String V` (what the object answers,
               value or exception, is an input of the generated definition).
Semantics: Python ints are unbounded -> Lean `Int`; `//` = `Int.fdiv`,
`%` = `Int.fmod` (Python's floor semantics; a ZERO divisor - Python: ZeroDivisionError - is NOT modelled: the companion
theorems state `≠ 0` hypotheses wherever a divisor is not a non-zero literal), bit operations = Mathlib's
two's-complement `Int.land/lor/xor/lnot`, shifts and `**` by `toNat` of the (non-negative) count / exponent (Python:
ValueError for a negative shift count, a float for a negative exponent - not modelled, stated as hypotheses), truthiness: int `≠ 0`, list `≠ []`.
"""
import ast
import os
import re

from harness.gen_tables import HEADER

# name -> (relative path, function name or Class.method, [param types], return type)
# param types: "int", "tup2", "tup3", "slice", "optint", "oslice", "list:int", "list:tup2", "list:rec:<attr>,<attr>",
#              "obj:<attr>,<attr>"
# return types: "int", "bool", "tup2", "tup3", "optnn", "none", "exc:<t>", "gen:<t>", "calls:<n>"
SDP_OBJ = "obj:reply_expected:b,tag,dest_port,dest_cpu,src_port,src_cpu,dest_x,dest_y,src_x,src_y,data:y"
SCP_OBJ = SDP_OBJ + ",cmd_rc,seq,arg1:o,arg2:o,arg3:o"
FUNCS = [
    ("rig/geometry.py", "to_xyz", ["tup2"], "tup3"),
    ("rig/geometry.py", "minimise_xyz", ["tup3"], "tup3"),
    ("rig/geometry.py", "shortest_mesh_path_length", ["tup3", "tup3"], "int"),
    ("rig/geometry.py", "shortest_torus_path_length", ["tup3", "tup3", "int", "int"], "int"),
    ("rig/place_and_route/allocate/utils.py", "slices_overlap", ["slice", "slice"], "bool"),
    ("rig/place_and_route/allocate/utils.py", "align", ["int", "int"], "int"),
    ("rig/routing_table/utils.py", "intersect", ["int", "int", "int", "int"], "bool"),
    ("rig/routing_table/ordered_covering.py", "_get_generality", ["int", "int"], "int"),
    ("rig/machine_control/regions.py", "get_region_for_chip", ["int", "int", "int"], "int"),
    ("rig/geometry.py", "spinn5_local_eth_coord", ["int"] * 6, "tup2"),
    ("rig/geometry.py", "spinn5_chip_coord", ["int"] * 4, "tup2"),
    ("rig/geometry.py", "spinn5_fpga_link", ["int"] * 5, "optnn"),
    ("rig/links.py", "Links.opposite", ["int"], "exc_int"),
    ("rig/links.py", "Links.from_vector", ["tup2"], "exc_int"),
    ("rig/routing_table/entries.py", "Routes.is_link", ["int"], "bool"),
    ("rig/routing_table/entries.py", "Routes.is_core", ["int"], "bool"),
    ("rig/routing_table/entries.py", "Routes.core_num", ["int"], "exc_int"),
    ("rig/routing_table/entries.py", "Routes.opposite", ["int"], "exc_int"),
    ("rig/routing_table/entries.py", "Routes.core", ["int"], "exc_int"),
    ("rig/machine_control/machine_controller.py", "MachineController._get_next_nn_id", ["obj:_nn_id"], "int"),
    # ---- second round -------------------------------------------------------------------------------
    ("rig/links.py", "Links.to_vector", ["int"], "exc:tup2"),
    ("rig/geometry.py", "shortest_mesh_path", ["tup3", "tup3"], "tup3"),
    ("rig/geometry.py", "concentric_hexagons", ["int", "tup2"], "gen:tup2"),
    ("rig/geometry.py", "standard_system_dimensions", ["int"], "exc:tup2"),
    ("rig/geometry.py", "spinn5_eth_coords", ["int"] * 4, "gen:tup2"),
    ("rig/routing_table/utils.py", "get_common_xs", ["list:rec:key,mask"], "int"),
    ("rig/machine_control/scp_connection.py", "seqs", ["int"], "gen:int"),
    ("rig/machine_control/machine_controller.py", "MachineController._send_ffs", ["obj:", "int", "int", "int"], "calls:7"),
    ("rig/machine_control/machine_controller.py", "MachineController._send_ffcs", ["obj:", "int", "int", "int"], "calls:7"),
    ("rig/machine_control/machine_controller.py", "MachineController._send_ffe", ["obj:", "int", "int", "int", "int"],
     "calls:7"),
    ("rig/machine_control/machine_controller.py", "SlicedMemoryIO.__init__",
     ["obj:_start_address,_end_address,_offset,closed:b", "ignored", "int", "int"], "none"),
    ("rig/machine_control/machine_controller.py", "SlicedMemoryIO.__len__",
     ["obj:_start_address,_end_address,_offset"], "int"),
    ("rig/machine_control/machine_controller.py", "SlicedMemoryIO.address",
     ["obj:_start_address,_end_address,_offset"], "int"),
    ("rig/machine_control/machine_controller.py", "SlicedMemoryIO.tell",
     ["obj:_start_address,_end_address,_offset"], "int"),
    ("rig/machine_control/machine_controller.py", "SlicedMemoryIO._bytes_available",
     ["obj:_start_address,_end_address,_offset"], "int"),
    ("rig/machine_control/machine_controller.py", "SlicedMemoryIO.seek",
     ["obj:_start_address,_end_address,_offset", "int", "int"], "exc:none"),
    ("rig/machine_control/machine_controller.py", "SlicedMemoryIO.__getitem__",
     ["obj:_start_address,_end_address,_offset", "oslice"], "exc:tup2"),
    ("rig/routing_table/ordered_covering.py", "_get_insertion_index", ["list:rec:key,mask", "int"], "exc:int"),
    # `self.scp_data_length` is a caching property (its first read may query the machine); its value is an input here
    ("rig/machine_control/machine_controller.py", "MachineController._send_ffd",
     ["obj:scp_data_length", "int", "bytes", "int"], "exc:calls:int,int,int,int,int,int,int,bytes"),
    # ---- third round: the mechanisms the properties are anchored in --------------------------------------
    ("rig/machine_control/machine_controller.py", "MachineController.write_across_link",
     ["obj:scp_data_length", "int", "bytes", "int", "int", "int"],
     "exc:calls:int,int,int,int,int,int,int,bytes,int"),
    ("rig/machine_control/machine_controller.py", "MachineController.fill",
     ["obj:", "int", "int", "int", "int", "int", "int"], "exc:ev:none"),
    ("rig/machine_control/scp_connection.py", "SCPConnection.write.packets",
     ["int", "bytes", "buffer_size=int", "x=int", "y=int", "p=int"], "exc:gen:int,int,int,int,int,int,int,bytes"),
    ("rig/machine_control/scp_connection.py", "SCPConnection.read.packets",
     ["int", "ignored", "buffer_size=int", "x=int", "y=int", "p=int", "address=int"],
     "exc:gen:int,int,int,int,int,int,int"),
    ("rig/machine_control/boot.py", "boot_packet", ["ignored", "int", "int", "int", "int", "bytes"], "exc:ev:none"),
    ("rig/machine_control/packets.py", "SDPPacket.packed_data", [SDP_OBJ], "bytes"),
    ("rig/machine_control/packets.py", "SDPPacket.bytestring", [SDP_OBJ], "exc:bytes"),
    ("rig/machine_control/packets.py", "SCPPacket.packed_data", [SCP_OBJ], "exc:bytes"),
    ("rig/machine_control/packets.py", "SCPPacket.bytestring", [SCP_OBJ], "exc:bytes"),
    ("rig/machine_control/packets.py", "_unpack_sdp_into_packet", [SDP_OBJ, "bytes"], "exc:none"),
    ("rig/machine_control/packets.py", "SDPPacket.from_bytestring", ["local:packet=" + SDP_OBJ, "bytes"], "exc:none"),
    ("rig/machine_control/packets.py", "SCPPacket.from_bytestring", ["local:packet=" + SCP_OBJ, "bytes", "int"],
     "exc:none"),
    ("rig/place_and_route/utils.py", "_get_minimal_core_reservations",
     ["ignored", "list:int", "ignored", "var:reservation=optslice"], "gen:tup2"),
    ("rig/machine_control/machine_controller.py", "unpack_routing_table_entry", ["bytes"],
     "exc:opt:raw:(List Int × Int × Int) × Int × Int"),
    ("rig/machine_control/machine_controller.py", "MachineController.send_signal", ["obj:", "int", "int"],
     "exc:calls:7"),
    ("rig/machine_control/machine_controller.py", "MachineController.count_cores_in_state", ["obj:", "int", "int"],
     "exc:calls:7"),
    ("rig/machine_control/machine_controller.py", "SlicedMemoryIO.read",
     ["obj:_start_address,_end_address,_offset", "int"], "ev:bytes"),
    ("rig/machine_control/machine_controller.py", "SlicedMemoryIO.write",
     ["obj:_start_address,_end_address,_offset", "bytes"], "ev:int"),
    # ---- fourth round ------------------------------------------------------------------------------------
    ("rig/place_and_route/place/utils.py", "add_resources", ["dict", "dict"], "dict"),
    ("rig/place_and_route/place/utils.py", "subtract_resources", ["dict", "dict"], "dict"),
    ("rig/place_and_route/place/utils.py", "overallocated", ["dict"], "bool"),
    ("rig/place_and_route/place/utils.py", "resources_after_reservation",
     ["dict", "rec:resource,reservation.start,reservation.stop"], "exc:dict"),
    ("rig/place_and_route/machine.py", "Machine.__contains__@chip",
     ["obj:width,height,dead_chips:s2,dead_links:s3", "tup2"], "bool"),
    ("rig/place_and_route/machine.py", "Machine.__contains__@link",
     ["obj:width,height,dead_chips:s2,dead_links:s3", "tup3"], "bool"),
    ("rig/bitfield.py", "BitField._assign_field",
     ["rec:length", "local:field=obj:length:o,start_at:o,max_value", "int", "ignored", "ignored"], "exc:int"),
    ("rig/type_casts.py", "NumpyFloatToFixConverter.__init__",
     ["obj:max_value,min_value,n_frac;skip:bytes_per_element,dtype", "bool", "int", "int"], "exc:none"),
    ("rig/type_casts.py", "float_to_fp", ["bool", "int", "int", "->bitsk", "float"], "exc:int"),
    ("rig/type_casts.py", "fp_to_float", ["int", "->kbits", "int"], "exc:float"),
    ("rig/machine_control/regions.py", "RegionCoreTree.__init__",
     ["obj:base_x,base_y,scale,shift,level;skip:locally_selected,subregions", "int", "int", "int"], "none"),
    # ---- fifth round: structured types (dicts of dicts, defaultdicts, typed records, environment objects) -------
    ("rig/place_and_route/allocate/greedy.py", "allocate",
     ["dict[key,dict[key,int]]", "ignored", "env:chip_resources=dict[key,int];getitem=tup2->dict[key,int]",
      "list[union[ReserveResourceConstraint(resource:key,reservation:slice,location:opt[tup2])"
      "|AlignResourceConstraint(resource:key,alignment:int)]]",
      "dict[key,tup2]",
      "var:globally_reserved=dict[key,list[slice]]", "var:locally_reserved=dict[tup2,dict[key,list[slice]]]",
      "var:alignments=dict[key,int]", "var:chip_contents=dict[tup2,list[key]]",
      "var:resource_pointers=dict[key,int]", "var:vertex_allocation=dict[key,opt[slice]]",
      "var:allocation=dict[key,dict[key,opt[slice]]]", "var:proposed_allocation=optslice"],
     "exc:dict[key,dict[key,opt[slice]]]"),
]

# module-level tables of the source, already regenerated into Lean by other translator modules
TABLES2D = {"SPINN5_ETH_OFFSET": ("Rig.Gen.Spinn5.ethOffset", "((0 : Int), (0 : Int))")}
DICTS = {"SPINN5_FPGA_LINKS": "Rig.Gen.Spinn5.fpgaLinks"}
# module-level dicts subscripted (`D[key]`, KeyError when absent): Lean association list, how a value is written
SUBSCRIPT_DICTS = {"_link_direction_lookup": ("Rig.Gen.Links.linkDirectionLookup", "((v : Nat) : Int)", "int"),
                   "_direction_link_lookup": ("Rig.Gen.Links.directionLinkLookup", "v", "tup2")}
# SUBSCRIPT_DICTS whose keys are enum members (`Nat` in the generated tables): a negative key is absent
NAT_KEYED = ("_direction_link_lookup",)
# methods whose calls are the observable behaviour of a `calls:<n>` function
EFFECTS = ("_send_scp",)
# guard decorators: the generated definition is the behaviour when the guard passes
GUARDS = ("_if_not_closed",)
# decorators `@X.<name>()` that only supply default values of arguments (the generated definition takes every
# argument explicitly)
TRANSPARENT_DECORATORS = ("use_contextual_arguments",)
# module-level dicts keyed by a pair of small ints, regenerated (flattened, row-major) by another translator module:
# name -> (Lean list of Nat, rows, columns); `D[(a, b)]` raises KeyError outside
PAIR_DICTS = {"address_length_dtype": ("Rig.Gen.Scp.dtypeTable", 4, 4)}
# calls recorded as events in functions declared `ev:`: method name -> (argument kinds or None = arguments not
# modelled, type of the result or None); the receiver is `self`, an attribute chain of `self` or a module
EVENT_CALLS = {"write": (("int", "bytes", "int", "int", "int"), None), "_send_scp": (("int",) * 7, None),
               "send": (("bytes",), None), "warn": (None, None), "_perform_read": (("int", "int"), "bytes"), "_perform_write": (("int", "bytes"), None)}
# module-level dicts from IntEnum members to IntEnum members, regenerated by another translator module as
# association lists `List (Nat × Nat)`: `D[k]` raises KeyError when absent
KEY_DICTS = {"signal_types": "Rig.Gen.LoadSig.signalTypes", "diagnostic_signal_types": "Rig.Gen.LoadSig.diagSignalTypes"}
# records (named tuples) that may be built as VALUES: name -> number of positional arguments (the tuple of them)
VALUE_RECORDS = {"RoutingTableEntry": 3}
# named tuples whose construction may be yielded: the positional arguments kept, keyword arguments ignored
RECORD_CALLS = {"scpcall": ("callback",), "ReserveResourceConstraint": ((), (1,))}
# classes whose construction may be returned: the integer arguments kept (by position)
CONSTRUCTORS = {"SlicedMemoryIO": (1, 2)}

BASE_TY = {"bytes": "List Int", "int": "Int", "tup2": "Int × Int", "tup3": "Int × Int × Int", "slice": "Int × Int", "bool": "Bool",
           "optnn": "Option (Nat × Nat)", "none": "Unit", "optint": "Option Int",
           "oslice": "Option Int × Option Int × Option Int", "list:int": "List Int", "list:tup2": "List (Int × Int)",
           "dict": "List (Int × Int)", "float": "φ"}

PRELUDE = '''/-! ### run-time support of the generated definitions (fixed text) -/

/-- Python `range(a, b)` -/
def pyRange1 (a b : Int) : List Int := (List.range (b - a).toNat).map (fun (k : Nat) => a + (k : Int))

/-- Python `range(a, b, c)` for a non-zero step `c` -/
def pyRange (a b c : Int) : List Int :=
  if c > 0 then (List.range ((b - a + c - 1) / c).toNat).map (fun (k : Nat) => a + c * (k : Int))
  else if c < 0 then (List.range ((a - b - c - 1) / (-c)).toNat).map (fun (k : Nat) => a + c * (k : Int))
  else []

/-- Python `while cond(s): s = body(s)`, at most `fuel` iterations; `none` = the condition still holds -/
def pyWhile {σ : Type} (cond : σ → Bool) (body : σ → σ) : Nat → σ → Option σ
  | 0, s => if cond s then none else some s
  | fuel + 1, s => if cond s then pyWhile cond body fuel (body s) else some s

/-- Python `l[i]` on a list: a negative index counts from the end, `IndexError` outside -/
def pyGet {α : Type} (l : List α) (i : Int) : Except String α :=
  let j : Int := if i < 0 then i + (l.length : Int) else i
  if j < 0 then Except.error "IndexError"
  else match l[j.toNat]? with
    | some v => Except.ok v
    | none => Except.error "IndexError"

/-- Python `l[a:b]` on a list / bytes: negative indices count from the end, both are clamped to the list -/
def pySlice {α : Type} (l : List α) (a b : Int) : List α :=
  let n : Int := (l.length : Int)
  let a' : Int := if a < 0 then max (a + n) 0 else min a n
  let b' : Int := if b < 0 then max (b + n) 0 else min b n
  (l.drop a'.toNat).take (b' - a').toNat

/-- `D[(a, b)]` for a dict keyed by the pairs `(i, j)`, `i < rows`, `j < cols`, given as the row-major list of
its values; `KeyError` outside -/
def pyPairGet (t : List Nat) (rows cols : Nat) (a b : Int) : Except String Int :=
  if 0 ≤ a ∧ a < (rows : Int) ∧ 0 ≤ b ∧ b < (cols : Int) then
    match t[cols * a.toNat + b.toNat]? with
    | some v => Except.ok (v : Int)
    | none => Except.error "KeyError"
  else Except.error "KeyError"

/-- a call of a method of the environment, recorded by functions declared `ev:` (name, integer arguments, bytes) -/
structure PyEvent where
  name : String
  ints : List Int
  bytes : List Int
  deriving DecidableEq, Repr

/-- `D[k]` for a dict given as an association list of naturals; `KeyError` when absent (or negative) -/
def pyKeyGet (t : List (Nat × Nat)) (k : Int) : Except String Int :=
  if k < 0 then Except.error "KeyError"
  else match t.lookup k.toNat with
    | some v => Except.ok (v : Int)
    | none => Except.error "KeyError"

/-- the format characters of the `struct` subset: unsigned byte / 16 bit / 32 bit, pad byte -/
inductive PyFmt where
  | B | H | I | x
  deriving DecidableEq, Repr

def PyFmt.size : PyFmt → Nat
  | .B => 1 | .H => 2 | .I => 4 | .x => 1

/-- the `k` little-endian bytes of `v` -/
def pyLeBytes : Nat → Int → List Int
  | 0, _ => []
  | k + 1, v => (v % 256) :: pyLeBytes k (v / 256)

/-- the value of little-endian bytes -/
def pyLeValue : List Int → Int
  | [] => 0
  | b :: r => b + 256 * pyLeValue r

/-- `struct.pack(fmt, *vals)` for a format of `B H I x` items with explicit byte order (`big` = `>` / `!`):
`struct.error` for a value outside the item's range or a wrong number of values -/
def pyStructPack (big : Bool) : List PyFmt → List Int → Except String (List Int)
  | [], [] => Except.ok []
  | PyFmt.x :: fs, vs => (pyStructPack big fs vs).map (fun r => (0 : Int) :: r)
  | f :: fs, v :: vs =>
    if 0 ≤ v ∧ v.toNat < 256 ^ f.size then       -- (a test on naturals: the kernel can evaluate it on casts)
      (pyStructPack big fs vs).map (fun r => (if big then (pyLeBytes f.size v).reverse else pyLeBytes f.size v) ++ r)
    else Except.error "struct.error"
  | _, _ => Except.error "struct.error"

def pyStructSize (fs : List PyFmt) : Nat := (fs.map PyFmt.size).sum

/-- the values of a buffer that is long enough -/
def pyStructValues (big : Bool) : List PyFmt → List Int → List Int
  | [], _ => []
  | PyFmt.x :: fs, b => pyStructValues big fs (b.drop 1)
  | f :: fs, b =>
    pyLeValue (if big then (b.take f.size).reverse else b.take f.size) :: pyStructValues big fs (b.drop f.size)

/-- `struct.unpack_from(fmt, buf, off)`: `struct.error` unless `size` bytes are available at the offset (a negative
offset counts from the end) -/
def pyStructUnpackFrom (big : Bool) (fs : List PyFmt) (buf : List Int) (off : Int) : Except String (List Int) :=
  let o : Int := if off < 0 then off + (buf.length : Int) else off
  if o < 0 ∨ (buf.length : Int) - o < (pyStructSize fs : Int) then Except.error "struct.error"
  else Except.ok (pyStructValues big fs (buf.drop o.toNat))

/-- `struct.unpack(fmt, buf)`: the buffer must have exactly the size of the format -/
def pyStructUnpack (big : Bool) (fs : List PyFmt) (buf : List Int) : Except String (List Int) :=
  if buf.length = pyStructSize fs then Except.ok (pyStructValues big fs buf) else Except.error "struct.error"

/-- `d[k] = f(d[k])` on a dict given as an association list (unique keys): `KeyError` when `k` is absent -/
def pyDictUpd : List (Int × Int) → Int → (Int → Int) → Except String (List (Int × Int))
  | [], _, _ => Except.error "KeyError"
  | (k', v) :: t, k, f =>
    if k' = k then Except.ok ((k', f v) :: t) else (pyDictUpd t k f).map (fun r => (k', v) :: r)

/-- `d[k]` on a dict given as the association list of its items (insertion order, unique keys): `KeyError` when absent -/
def pyDictGet {κ α : Type} [BEq κ] (d : List (κ × α)) (k : κ) : Except String α :=
  match d.lookup k with
  | some v => Except.ok v
  | none => Except.error "KeyError"

/-- `d.get(k, dflt)` / the VALUE of `d[k]` on a `defaultdict` whose factory gives `dflt` -/
def pyDictGetD {κ α : Type} [BEq κ] (d : List (κ × α)) (k : κ) (dflt : α) : α := (d.lookup k).getD dflt

/-- `d[k] = v`: the value of an existing key is replaced in place (the key object stays), a new key goes to the end -/
def pyDictSet {κ α : Type} [BEq κ] : List (κ × α) → κ → α → List (κ × α)
  | [], k, v => [(k, v)]
  | (k', v') :: t, k, v => if k' == k then (k', v) :: t else (k', v') :: pyDictSet t k v

/-- `d[k] = f(d[k])` on a `defaultdict` whose factory gives `dflt` (`d[k].append(x)`: `f = (· ++ [x])`) -/
def pyDictMod {κ α : Type} [BEq κ] (d : List (κ × α)) (k : κ) (dflt : α) (f : α → α) : List (κ × α) :=
  pyDictSet d k (f (pyDictGetD d k dflt))

/-- an attribute of a value that may be `None`: `AttributeError` when it is -/
def pyOptGet {α : Type} (o : Option α) : Except String α :=
  match o with
  | some v => Except.ok v
  | none => Except.error "AttributeError"

/-- the operations on Python floats used by translated code.  Generated definitions that compute with floats are
parametric in their semantics `F`; the companion modules instantiate it with the IEEE-754 double model of
Model/C16.lean (whose facts are that model's trusted base, not the translator's) -/
structure PyFloatOps (φ : Type) where
  /-- `2.0 ** n` for an int `n` (OverflowError) -/
  pow2 : Int → Except String φ
  /-- `float(k)` for an int `k` (OverflowError: int too large to convert to float) -/
  ofInt : Int → Except String φ
  /-- `a * b` -/
  mul : φ → φ → φ
  /-- `int(x)`: truncation toward zero (OverflowError for an infinity) -/
  toInt : φ → Except String Int
  /-- `int(math.log(k, 2))` for an int `k` (ValueError: math domain error for k <= 0): a floating-point logarithm,
  NOT always the exact integer logarithm -/
  ilog2 : Int → Except String Int

/-- Python `int(math.sqrt(n))` (integer square root, exact below 2^52; `ValueError: math domain error` for n < 0) -/
def pyIsqrt (n : Int) : Except String Int :=
  if n < 0 then Except.error "ValueError" else Except.ok ((Nat.sqrt n.toNat : Nat) : Int)

'''

LEAN_KEYWORDS = ("at", "from", "end", "open", "then", "do", "fun", "let", "in", "by", "have", "show", "with", "match",
                 "bytes", "if", "else", "where", "instance", "structure", "class", "def", "theorem", "namespace",
                 "section", "variable", "import", "mutual", "prefix", "infix", "notation", "macro", "syntax", "deriving")


def ident(name):
    """a Python identifier as a Lean identifier"""
    return name + "_" if name in LEAN_KEYWORDS else name


def lean_name(qual):
    """`_get_generality` -> get_generality, `Routes.is_link` -> Routes_is_link, `C.__len__` -> C_len,
    `C.__contains__@chip` -> C_contains_chip (the same source function translated for another argument type)"""
    qual, _, alias = qual.partition("@")
    return "_".join([part.strip("_") for part in qual.split(".")] + ([alias] if alias else []))


def lean_ty(t):
    """Lean type of a declared (parameter / result / element) type"""
    if t == "exc_int":
        t = "exc:int"
    if t.startswith("exc:"):
        return "Except String " + paren(lean_ty(t[4:]))
    if t.startswith("gen:"):
        if "," in t:
            return "List (" + prod([BASE_TY[x] for x in t[4:].split(",")]) + ")"
        return "List " + paren(lean_ty(t[4:]))
    if t.startswith("calls:"):
        return "List (" + prod(calls_types(t)) + ")"
    if t.startswith("list:rec:"):
        return "List (" + " × ".join(["Int"] * len(t[9:].split(","))) + ")"
    if t.startswith("rec:"):
        return " × ".join(["Int"] * len(t[4:].split(",")))
    if t.startswith("opt:"):
        return "Option " + paren(lean_ty(t[4:]))
    if t.startswith("raw:"):
        return t[4:]
    if "[" in t:
        return dlean(parse_ty(t))
    return BASE_TY[t]


def calls_types(t):
    """`calls:7` / `calls:int,int,bytes`: Lean types of the arguments of the recorded call"""
    spec = t[6:]
    if spec.isdigit():
        return ["Int"] * int(spec)
    return [BASE_TY[x] for x in spec.split(",")]


def paren(t):
    return "(%s)" % t if " " in t else t


def prod(ts):
    """product type of the component types `ts` (right nested)"""
    return " × ".join("(%s)" % t if " × " in t and i < len(ts) - 1 else t for i, t in enumerate(ts))


def proj(base, i, n):
    """component i of the n-tuple `base`"""
    if n == 1:
        return base
    return base + ".2" * i + (".1" if i < n - 1 else "")


def components(t):
    """top-level components of a product type string"""
    out, depth, cur = [], 0, ""
    for tok in t.replace("(", " ( ").replace(")", " ) ").split():
        if tok == "(":
            depth += 1
        if tok == ")":
            depth -= 1
        if tok == "×" and depth == 0:
            out.append(cur.strip())
            cur = ""
        else:
            cur += " " + tok
    out.append(cur.strip())
    res = []
    for c in out:
        c = c.replace("( ", "(").replace(" )", ")")
        if c.startswith("(") and c.endswith(")") and _balanced(c[1:-1]):
            c = c[1:-1]
        res.append(c)
    return res


def _balanced(s):
    d = 0
    for ch in s:
        d += ch == "("
        d -= ch == ")"
        if d < 0:
            return False
    return d == 0


# ---- structured types (fifth round) -----------------------------------------------------------------------
# key (an opaque hashable object: `Nat`), int, tup2, slice (`Int × Int`), bool, opt[T], list[T], dict[K,V] (association
# list of the items in insertion order), union[Cls(field:T,...)|...] (instances of the listed classes, told apart by
# `isinstance`; anything else is the constructor `other`): parsed into tuples
def split_top(s, sep):
    out, depth, cur = [], 0, ""
    for ch in s:
        if ch in "[(":
            depth += 1
        if ch in "])":
            depth -= 1
        if ch == sep and depth == 0:
            out.append(cur)
            cur = ""
        else:
            cur += ch
    out.append(cur)
    return [x.strip() for x in out]


def parse_ty(s, uname=None):
    s = s.strip()
    if s in ("key", "int", "tup2", "slice", "bool"):
        return (s,)
    if s == "optslice":
        return ("opt", ("slice",))
    m = re.match(r"(\w+)\[(.*)\]$", s, re.S)
    if not m:
        raise NotImplementedError("type " + s)
    head, inner = m.group(1), m.group(2)
    if head == "opt":
        return ("opt", parse_ty(inner, uname))
    if head == "list":
        return ("list", parse_ty(inner, uname))
    if head == "dict":
        kv = split_top(inner, ",")
        if len(kv) != 2:
            raise NotImplementedError("type " + s)
        return ("dict", parse_ty(kv[0], uname), parse_ty(kv[1], uname))
    if head == "union":
        alts = []
        for a in split_top(inner, "|"):
            m2 = re.match(r"(\w+)\((.*)\)$", a, re.S)
            if not m2:
                raise NotImplementedError("union alternative " + a)
            fields = tuple((f.split(":", 1)[0].strip(), parse_ty(f.split(":", 1)[1])) for f in split_top(m2.group(2), ",") if f)
            alts.append((m2.group(1), fields))
        return ("union", uname or "PyUnion", tuple(alts))
    raise NotImplementedError("type " + s)


def dlean(T):
    """Lean type of a structured type"""
    if T[0] == "key":
        return "Nat"
    if T[0] == "int":
        return "Int"
    if T[0] in ("tup2", "slice"):
        return "Int × Int"
    if T[0] == "bool":
        return "Bool"
    if T[0] == "opt":
        return "Option " + paren(dlean(T[1]))
    if T[0] == "list":
        return "List " + paren(dlean(T[1]))
    if T[0] == "dict":
        return "List (%s)" % prod([dlean(T[1]), dlean(T[2])])
    if T[0] == "union":
        return T[1]
    raise NotImplementedError("type %r" % (T,))


def dict_creation(v):
    """`{}` / `dict()` / `defaultdict(list)` / `defaultdict(lambda: <int literal>)` / `defaultdict(lambda: defaultdict(list))`
    -> the defaults of missing keys per level ([None] for a plain dict), or None (not the creation of a dict)"""
    if isinstance(v, ast.Dict) and not v.keys:
        return [None]
    if isinstance(v, ast.Call) and isinstance(v.func, ast.Name) and not v.keywords:
        if v.func.id == "dict" and not v.args:
            return [None]
        if v.func.id == "defaultdict" and len(v.args) == 1:
            f = v.args[0]
            if isinstance(f, ast.Name) and f.id in ("list", "dict"):
                return ["[]", None] if f.id == "dict" else ["[]"]
            if isinstance(f, ast.Lambda) and not f.args.args:
                b = f.body
                if isinstance(b, ast.Constant) and isinstance(b.value, int) and not isinstance(b.value, bool):
                    return ["(%d : Int)" % b.value if b.value >= 0 else "(-%d : Int)" % -b.value]
                inner = dict_creation(b)
                if inner is not None:
                    return ["[]"] + inner
    return None


def union_decl(T):
    """the inductive type of a union of record classes"""
    text = "/-- instances of %s, told apart by `isinstance`; `other`: any other object -/\ninductive %s where\n" % (
        " / ".join(a[0] for a in T[2]), T[1])
    for cls, fields in T[2]:
        text += "  | %s %s\n" % (cls, " ".join("(%s : %s)" % (ident(f), dlean(t)) for f, t in fields))
    return text + "  | other\n  deriving DecidableEq, Repr\n"


class Loop(object):
    """one enclosing loop: the components of its fold state"""
    def __init__(self, comps):
        self.comps = comps            # names, possibly starting with "brk_", "ret_"

    def tuple(self, brk="false", ret="none"):
        vals = [brk if c == "brk_" else ret if c == "ret_" else c for c in self.comps]
        return vals[0] if len(vals) == 1 else "(" + ", ".join(vals) + ")"


def walk_no_nested_loops(stmts):
    """all nodes of stmts that do not lie inside a nested loop (for `break` / `continue` of THIS loop)"""
    stack = list(stmts)
    while stack:
        n = stack.pop()
        yield n
        if isinstance(n, (ast.For, ast.While)):
            continue
        stack.extend(ast.iter_child_nodes(n))


class Tr(object):
    def __init__(self, types, cls=None, enums=None, done=None, attrs=(), recs=None):
        self.types = dict(types)      # parameter name -> declared kind
        self.cls = cls                # name of the enclosing class (methods) or None
        self.enums = enums or {}      # IntEnum classes visible in the file: name -> {member: value}
        self.local_enums = {}         # IntEnum classes defined in the file itself: name -> [values]
        self.done = done or {}        # qualified name -> (return type, param types) of the functions translated so far
        self.attrs = list(attrs)      # integer attributes of `self` passed as state ("obj:..." parameter)
        self.recs = recs or {}        # record-typed parameter -> attribute names
        self.lty = {}                 # variables in scope -> Lean type
        self.narrow = {}              # ast.dump of an optional expression -> Lean name of its int value
        self.loops = []               # enclosing loops
        self.pending = []             # raising sub-expressions hoisted in front of the current statement
        self.cond_depth = 0           # > 0 inside conditionally evaluated sub-expressions
        self.ntmp = 0
        self.uses_fuel = False
        self.fn = None
        self.nloops = 0
        self.uses_float = False       # the definition takes the float semantics `F : PyFloatOps φ` as a parameter
        self.dicts = set()            # names holding a dict of ints (association list, unique keys, insertion order)
        self.optslices = set()        # local variables declared `optslice`
        self.local_obj = False        # the object is created by the function itself (`x = cls()`)
        self.objname = "self"         # name of the parameter declared "obj:..."
        self.mro = [cls]              # the class and its base classes (same file), for properties of `self`
        self.consts = {}              # module-level `NAME = <int literal>` of the file
        self.oracles = []             # results of event calls: extra parameters (name, Lean type)
        self.localfns = {}            # nested `def f(x): return e` -> (parameter names, e)
        self.tmp_ty = {}              # hoisted temporaries -> Lean type
        self.rec_elems = {}           # list-of-records parameter -> attribute names
        self.aux = []                 # definitions of loop bodies, emitted in front of the function
        # ---- structured types (fifth round) ----
        self.new = False              # the function uses structured types (new-style typing and narrowing)
        self.dty = {}                 # Lean name -> structured type (parameters, declared variables, loop variables)
        self.vartypes = {}            # declared local variables (Python name) -> structured type
        self.chain = {}               # dict variables -> [default of a missing key (Lean expr) or None = KeyError, ...]
        self.env = {}                 # environment objects: name -> {"attrs": {attr: T}, "getitem": (Tkey, Tval)}
        self.ufields = {}             # variable known to be an instance of a union class -> (cls, {field: (lean, T)})
        self.opt_inner = {}           # narrowed name -> Lean type of the narrowed value

    # ---- helpers -------------------------------------------------------------
    def callee(self, qual):
        """Lean name of an already translated function (definition order = FUNCS order)"""
        if qual not in self.done:
            raise NotImplementedError("call of %s, which is not translated (earlier in FUNCS)" % qual)
        ret = self.done[qual][0]
        if ret not in ("int", "bool", "tup2", "tup3"):
            raise NotImplementedError("call of %s : %s inside an expression" % (qual, ret))
        return lean_name(qual), ret

    def self_attr(self, n):
        """`self.x`: ("state", lean name) / ("prop", lean call, type) / None"""
        if not (isinstance(n, ast.Attribute) and isinstance(n.value, ast.Name) and n.value.id == self.objname
                and self.objname in self.types):
            return None
        if self.types[self.objname] == "obj":
            if n.attr in self.attrs:
                return ("state", self.objname + "_" + n.attr)
            # a property translated earlier (in this class or a base class) that reads the same attributes and
            # assigns none: its value is the first component of the state-passing result
            for c in self.mro:
                qual = "%s.%s" % (c, n.attr)
                d = self.done.get(qual)
                if d is None:
                    continue
                rt = d[0][4:] if d[0].startswith("exc:") else d[0]
                if d[1][:1] == [self.obj_spec] and len(d[1]) == 1 and not d[2] and rt in ("int", "bool", "bytes"):
                    call = "(%s %s)" % (lean_name(qual), " ".join(self.objname + "_" + a for a in self.attrs))
                    if d[0].startswith("exc:"):
                        t = self.raising(call)
                        self.tmp_ty[t + ".1"] = BASE_TY[rt]
                        return ("prop", t + ".1", rt)
                    return ("prop", call + ".1", rt)
            raise NotImplementedError("attribute %s.%s is not declared as state" % (self.objname, n.attr))
        if self.types["self"] == "int" and self.cls is not None:
            f, t = self.callee(self.cls + "." + n.attr)
            return ("prop", "(%s self)" % f, t)
        return None

    def self_method_call(self, n):
        """`self.m()` for a translated method of the same object reading the same attributes"""
        if not (isinstance(n, ast.Call) and isinstance(n.func, ast.Attribute) and isinstance(n.func.value, ast.Name)
                and n.func.value.id == self.objname and self.types.get(self.objname) == "obj" and not n.args and not n.keywords):
            return None
        qual = "%s.%s" % (self.cls, n.func.attr)
        d = self.done.get(qual)
        if d is None or d[1] != [self.obj_spec] or d[2] or d[0] not in ("int", "bool"):
            return None
        return "(%s %s).1" % (lean_name(qual), " ".join(self.objname + "_" + a for a in self.attrs)), d[0]

    def tmp(self):
        self.ntmp += 1
        return "t%d_" % self.ntmp

    def is_exc(self):
        return self.ret.startswith("exc:")

    def base(self):
        b = self.ret[4:] if self.is_exc() else self.ret
        return b[3:] if b.startswith("ev:") else b

    def has_events(self):
        return (self.ret[4:] if self.is_exc() else self.ret).startswith("ev:")

    def event_call(self, c):
        """a call recorded as an event (EVENT_CALLS): -> (Lean `PyEvent` expression, result type or None) or None"""
        if not (isinstance(c, ast.Call) and isinstance(c.func, ast.Attribute) and c.func.attr in EVENT_CALLS):
            return None
        # the receiver must be `self`, an attribute chain of `self` or a module name (never a translated value)
        r = c.func.value
        while isinstance(r, ast.Attribute):
            r = r.value
        if not (isinstance(r, ast.Name) and (r.id == "self" or r.id not in self.lty)):
            return None
        kinds, result = EVENT_CALLS[c.func.attr]
        if not self.has_events():
            if c.func.attr in EFFECTS:
                return None                   # recorded as a `calls:` tuple instead
            raise NotImplementedError("event call %s in a function not declared ev:" % c.func.attr)
        if kinds is None:
            return "(PyEvent.mk \"%s\" [] [])" % c.func.attr, result          # arguments not modelled (messages)
        if c.keywords or len(c.args) != len(kinds):
            raise NotImplementedError("event call %s with %d arguments" % (c.func.attr, len(c.args)))
        ints = [self.e(a) for a, k in zip(c.args, kinds) if k == "int"]
        bys = [self.e(a) for a, k in zip(c.args, kinds) if k == "bytes"]
        if len(bys) > 1 or any(self.tyof(a) != ("Int" if k == "int" else "List Int") for a, k in zip(c.args, kinds)):
            raise NotImplementedError("event call %s: argument types" % c.func.attr)
        return "(PyEvent.mk \"%s\" [%s] %s)" % (c.func.attr, ", ".join(ints), bys[0] if bys else "[]"), result

    def is_stream(self):
        """a generator / a function observed through its effect calls: the result is the list `out_`"""
        return self.base().startswith(("gen:", "calls:"))

    def enum_member(self, n):
        """`Enum.member` / `module.Enum.member` -> int value or None"""
        if isinstance(n, ast.Attribute) and isinstance(n.value, ast.Attribute) and isinstance(n.value.value, ast.Name) \
                and n.value.value.id in self.module_enums and n.value.value.id not in self.lty:
            en = self.module_enums[n.value.value.id]
            if n.value.attr in en:
                if n.attr not in en[n.value.attr]:
                    raise NotImplementedError("%s has no member %s" % (n.value.attr, n.attr))
                return en[n.value.attr][n.attr]
        if isinstance(n, ast.Attribute) and isinstance(n.value, ast.Name) and n.value.id in self.enums \
                and n.value.id not in self.lty:
            members = self.enums[n.value.id]
            if n.attr not in members:
                raise NotImplementedError("%s has no member %s" % (n.value.id, n.attr))
            return members[n.attr]
        return None

    def enum_values(self, n):
        """an IntEnum class `Enum` / `module.Enum` -> its member values, or None"""
        if isinstance(n, ast.Name) and n.id in self.enums and n.id not in self.lty:
            return list(self.enums[n.id].values())
        if isinstance(n, ast.Attribute) and isinstance(n.value, ast.Name) and n.value.id in self.module_enums \
                and n.value.id not in self.lty and n.attr in self.module_enums[n.value.id]:
            return list(self.module_enums[n.value.id][n.attr].values())
        return None

    def none_test(self, n):
        """`x is None` / `x is not None` on an optional -> (optional Lean expr, key, is_none) or None"""
        if not (isinstance(n, ast.Compare) and len(n.ops) == 1 and isinstance(n.ops[0], (ast.Is, ast.IsNot))
                and isinstance(n.comparators[0], ast.Constant) and n.comparators[0].value is None):
            return None
        o = self.opt_expr(n.left)
        if o is None:
            raise NotImplementedError("`is None` test of " + ast.dump(n.left)[:60])
        return o[0], o[1], isinstance(n.ops[0], ast.Is)

    def opt_expr(self, n):
        """an optional-int expression: (Lean expr : Option Int, key, narrowed name) or None"""
        if self.new and isinstance(n, ast.Attribute) and isinstance(n.value, ast.Name) and ident(n.value.id) in self.ufields:
            f = self.ufields[ident(n.value.id)][1].get(n.attr)
            if f is not None and f[1][0] == "opt":
                self.opt_inner[f[0] + "_v"] = dlean(f[1][1])
                return f[0], ast.dump(n), f[0] + "_v"
        if isinstance(n, ast.Name) and self.types.get(n.id) == "optint":
            return ident(n.id), ast.dump(n), ident(n.id) + "_v"
        if isinstance(n, ast.Name) and n.id in self.optslices and self.lty.get(ident(n.id)) == "Option (Int × Int)":
            return ident(n.id), ast.dump(n), ident(n.id) + "_v"
        if isinstance(n, ast.Name) and self.lty.get(ident(n.id)) == "Option Int" and n.id not in self.types:
            return ident(n.id), ast.dump(ast.Name(id=n.id, ctx=ast.Load())), ident(n.id) + "_v"   # a local that holds int or None
        if isinstance(n, ast.Attribute) and isinstance(n.value, ast.Name) and self.types.get(n.value.id) == "oslice" \
                and n.attr in ("start", "stop", "step"):
            i = ("start", "stop", "step").index(n.attr)
            return proj(ident(n.value.id), i, 3), ast.dump(n), "%s_%s" % (ident(n.value.id), n.attr)
        if isinstance(n, ast.Attribute) and isinstance(n.value, ast.Name) and n.value.id == self.objname \
                and self.types.get(self.objname) == "obj" and n.attr in self.attrs \
                and self.lty.get(self.objname + "_" + n.attr) == "Option Int":
            nm = self.objname + "_" + n.attr
            return nm, ast.dump(n), nm + "_v"
        return None


    # ---- structured types: dicts of dicts, defaultdicts, typed records, environment objects ------------------
    def is_narrow(self, name):
        return ast.dump(ast.Name(id=name, ctx=ast.Load())) in self.narrow

    def dtyof(self, n):
        """structured type of an expression, or None when it has none / is not known"""
        if not self.new:
            return None
        if isinstance(n, ast.Name):
            T = self.dty.get(ident(n.id))
            if T is None and n.id in self.vartypes:
                T = self.vartypes[n.id]
            if T is not None and T[0] == "opt" and self.is_narrow(n.id):
                return T[1]
            return T
        if isinstance(n, ast.Constant) and isinstance(n.value, bool):
            return ("bool",)
        if isinstance(n, ast.Constant) and isinstance(n.value, int):
            return ("int",)
        if isinstance(n, ast.Attribute) and isinstance(n.value, ast.Name):
            if n.value.id in self.env and n.value.id not in self.lty:
                return self.env[n.value.id]["attrs"].get(n.attr)
            if ident(n.value.id) in self.ufields:
                f = self.ufields[ident(n.value.id)][1].get(n.attr)
                if f is None:
                    return None
                if f[1][0] == "opt" and ast.dump(n) in self.narrow:
                    return f[1][1]
                return f[1]
        if isinstance(n, ast.Attribute) and n.attr in ("start", "stop"):
            T = self.dtyof(n.value)
            if T in (("slice",), ("opt", ("slice",))):
                return ("int",)
        if isinstance(n, ast.Subscript) and not isinstance(n.slice, ast.Slice):
            if isinstance(n.value, ast.Name) and n.value.id in self.env and n.value.id not in self.lty:
                g = self.env[n.value.id].get("getitem")
                return g[1] if g else None
            T = self.dtyof(n.value)
            if T is not None and T[0] == "dict":
                return T[2]
        if isinstance(n, ast.Call) and isinstance(n.func, ast.Attribute) and n.func.attr == "get" and len(n.args) == 2 \
                and not n.keywords:
            T = self.dtyof(n.func.value)
            if T is not None and T[0] == "dict":
                return T[2]
        if isinstance(n, ast.Call) and isinstance(n.func, ast.Name) and n.func.id == "slice" and len(n.args) == 2 \
                and "slice" not in self.lty:
            return ("slice",)
        if isinstance(n, ast.DictComp):
            return None
        return None

    def chain_of(self, n):
        """defaults of the (nested) dict denoted by `n`: [Lean default or None = KeyError or "?" = unknown, ...]"""
        if isinstance(n, ast.Name):
            return self.chain.get(n.id, [None] * 4)
        if isinstance(n, ast.Subscript):
            if isinstance(n.value, ast.Name) and n.value.id in self.env:
                return [None] * 4
            return self.chain_of(n.value)[1:] + [None]
        if isinstance(n, ast.Attribute):
            return [None] * 4
        return ["?"] * 4            # e.g. the result of `.get(k, {})`: a defaultdict or the plain default

    def empty_literal(self, n):
        return (isinstance(n, ast.Dict) and not n.keys) or (isinstance(n, (ast.List, ast.Tuple)) and not n.elts)

    def dict_read_raises(self, n):
        """shape test: is the subscript `n` a read that may raise (KeyError / the environment's error)?"""
        if not (self.new and isinstance(n, ast.Subscript) and not isinstance(n.slice, ast.Slice)
                and isinstance(n.ctx, ast.Load)):
            return False
        if isinstance(n.value, ast.Name) and n.value.id in self.env:
            return True
        T = self.dtyof(n.value)
        return T is not None and T[0] == "dict" and self.chain_of(n.value)[0] is None

    def e_new(self, n):
        """expressions of the structured subset -> Lean text, or None (not one of them)"""
        if not self.new:
            return None
        if isinstance(n, ast.Name):
            T = self.dty.get(ident(n.id))
            if T is not None and T[0] == "opt" and ident(n.id) in self.lty:
                if self.is_narrow(n.id):
                    return self.narrow[ast.dump(ast.Name(id=n.id, ctx=ast.Load()))]
                raise NotImplementedError("optional `%s` used as a value without an `is None` test" % n.id)
            return None
        if isinstance(n, ast.Attribute) and isinstance(n.value, ast.Name):
            if n.value.id in self.env and n.value.id not in self.lty:
                if n.attr not in self.env[n.value.id]["attrs"]:
                    raise NotImplementedError("attribute %s.%s of the environment object is not declared" % (n.value.id, n.attr))
                return "%s_%s" % (ident(n.value.id), n.attr)
            if ident(n.value.id) in self.ufields:
                f = self.ufields[ident(n.value.id)][1].get(n.attr)
                if f is None:
                    raise NotImplementedError("attribute %s.%s is not declared" % (n.value.id, n.attr))
                if f[1][0] == "opt":
                    if ast.dump(n) in self.narrow:
                        return self.narrow[ast.dump(n)]
                    raise NotImplementedError("optional attribute %s.%s used without an `is None` test" % (n.value.id, n.attr))
                return f[0]
        if isinstance(n, ast.Attribute) and n.attr in ("start", "stop"):
            T = self.dtyof(n.value)
            sel = ".1" if n.attr == "start" else ".2"
            if T == ("slice",):
                return self.e(n.value) + sel
            if T == ("opt", ("slice",)) and isinstance(n.value, ast.Name):
                # an attribute of a value that may be None: AttributeError when it is
                t = self.raising("(pyOptGet %s)" % ident(n.value.id))
                self.tmp_ty[t] = "Int × Int"
                return t + sel
        if isinstance(n, ast.Subscript) and not isinstance(n.slice, ast.Slice):
            if isinstance(n.value, ast.Name) and n.value.id in self.env and n.value.id not in self.lty:
                g = self.env[n.value.id].get("getitem")
                if g is None:
                    raise NotImplementedError("subscript of the environment object " + n.value.id)
                t = self.raising("(%s_getitem %s)" % (ident(n.value.id), self.e(n.slice)))
                self.tmp_ty[t] = dlean(g[1])
                return t
            T = self.dtyof(n.value)
            if T is not None and T[0] == "dict":
                d = self.e(n.value)
                dflt = self.chain_of(n.value)[0]
                k = self.e(n.slice)
                if dflt == "?":
                    raise NotImplementedError("subscript of a dict whose kind (dict / defaultdict) is not known")
                if dflt is None:
                    t = self.raising("(pyDictGet %s %s)" % (d, k))
                    self.tmp_ty[t] = dlean(T[2])
                    return t
                return "(pyDictGetD %s %s %s)" % (d, k, dflt)
        if isinstance(n, ast.Call) and isinstance(n.func, ast.Attribute) and n.func.attr == "get" and len(n.args) == 2 \
                and not n.keywords:
            T = self.dtyof(n.func.value)
            if T is not None and T[0] == "dict":
                dflt = "[]" if self.empty_literal(n.args[1]) else self.e(n.args[1])
                inner = self.chain_of(n.func.value)[0]
                if inner not in (None, "?") and inner != dflt:
                    raise NotImplementedError(".get with a default other than the defaultdict's own")
                return "(pyDictGetD %s %s %s)" % (self.e(n.func.value), self.e(n.args[0]), dflt)
        if isinstance(n, ast.Call) and isinstance(n.func, ast.Name) and n.func.id == "slice" and len(n.args) == 2 \
                and not n.keywords and "slice" not in self.lty:
            return "(%s, %s)" % (self.e(n.args[0]), self.e(n.args[1]))
        if isinstance(n, ast.DictComp) and len(n.generators) == 1 and not n.generators[0].ifs \
                and isinstance(n.generators[0].target, ast.Name) and isinstance(n.key, ast.Name) \
                and n.key.id == n.generators[0].target.id:
            # {k: e for k in D}: one item per key of D, in D's order (keys stay unique)
            T = self.dtyof(n.generators[0].iter)
            if T is not None and T[0] == "dict":
                var = ident(n.key.id)
                saved = dict(self.lty)
                self.lty[var] = dlean(T[1])
                self.bind_dty(var, T[1])
                body = self.e(n.value)
                self.lty = saved
                return "(%s.map (fun (kv_ : %s) => let %s : %s := kv_.1; (%s, %s)))" % (
                    self.e(n.generators[0].iter), prod([dlean(T[1]), dlean(T[2])]), var, dlean(T[1]), var, body)
        return None

    def bind_dty(self, name, T):
        """a Lean name gets a structured type (one type per name in a function)"""
        if T is None:
            return
        if self.dty.get(name, T) != T:
            raise NotImplementedError("variable %s used at two structured types" % name)
        self.dty[name] = T

    def dict_root(self, n):
        """`d[k1]...[kn]` rooted at a dict-typed NAME -> (name, [k1, ..., kn]) or None"""
        keys = []
        while isinstance(n, ast.Subscript) and not isinstance(n.slice, ast.Slice):
            keys.insert(0, n.slice)
            n = n.value
        if self.new and keys and isinstance(n, ast.Name) and (self.dtyof(n) or ("",))[0] == "dict" \
                and n.id not in self.env:
            return n.id, keys
        return None

    def append_stmt(self, s):
        """`d[k1]...[kn].append(v)` as a statement -> (name, keys, v) or None"""
        if not (self.new and isinstance(s, ast.Expr) and isinstance(s.value, ast.Call)
                and isinstance(s.value.func, ast.Attribute) and s.value.func.attr == "append"
                and len(s.value.args) == 1 and not s.value.keywords):
            return None
        r = self.dict_root(s.value.func.value)
        return None if r is None else (r[0], r[1], s.value.args[0])

    def ev(self, n, want):
        """a value stored where the structured type `want` is expected (an optional may be stored as it is)"""
        if want is not None and want[0] == "opt":
            if isinstance(n, ast.Name) and self.dty.get(ident(n.id)) == want and ident(n.id) in self.lty:
                return ident(n.id)
            if isinstance(n, ast.Constant) and n.value is None:
                return "none"
            return "(some %s)" % self.e(n)
        return self.e(n)

    def block_new(self, s, rest, ind, tail):
        """statements of the structured subset -> translated block, or None"""
        pad = "  " * ind
        if not self.new:
            return None
        # x = {} / defaultdict(...) / {k: e for k in D} for a declared dict variable
        if isinstance(s, ast.Assign) and len(s.targets) == 1 and isinstance(s.targets[0], ast.Name) \
                and s.targets[0].id in self.vartypes and self.vartypes[s.targets[0].id][0] == "dict":
            nm, T = ident(s.targets[0].id), self.vartypes[s.targets[0].id]
            if dict_creation(s.value) is not None:
                val = "[]"
            elif isinstance(s.value, ast.DictComp):
                val = self.e(s.value)
            else:
                raise NotImplementedError("value assigned to the dict variable " + nm)
            self.lty[nm] = dlean(T)
            self.bind_dty(nm, T)
            return self.seq(pad, "%slet %s : %s := %s\n" % (pad, nm, dlean(T), val), rest, ind, tail)
        # d[k] = v
        if isinstance(s, ast.Assign) and len(s.targets) == 1 and self.dict_root(s.targets[0]) is not None:
            name, keys = self.dict_root(s.targets[0])
            if len(keys) != 1:
                raise NotImplementedError("store into a nested dict")
            T = self.dtyof(ast.Name(id=name, ctx=ast.Load()))
            nm = ident(name)
            v = self.ev(s.value, T[2])
            text = "%slet %s : %s := (pyDictSet %s %s %s)\n" % (pad, nm, dlean(T), nm, self.e(keys[0]), v)
            return self.seq(pad, text, rest, ind, tail)
        # d[k1]...[kn].append(v): every level must be a defaultdict (a missing key is created)
        ap = self.append_stmt(s)
        if ap is not None:
            name, keys, v = ap
            nm = ident(name)
            T = self.dtyof(ast.Name(id=name, ctx=ast.Load()))
            ch = self.chain_of(ast.Name(id=name, ctx=ast.Load()))
            Ts, cur = [], T
            for _ in keys:
                if cur[0] != "dict":
                    raise NotImplementedError("append: subscript of a value that is not a dict")
                Ts.append(cur)
                cur = cur[2]
            if cur[0] != "list" or any(ch[i] in (None, "?") for i in range(len(keys))):
                raise NotImplementedError("append to an entry of a plain dict / a value that is not a list")
            text = "(fun (l_ : %s) => l_ ++ [%s])" % (dlean(cur), self.ev(v, cur[1]))
            for i in reversed(range(len(keys))):
                var = nm if i == 0 else "d%d_" % i
                text = "(pyDictMod %s %s %s %s)" % (var, self.e(keys[i]), ch[i], text)
                if i > 0:
                    text = "(fun (d%d_ : %s) => %s)" % (i, dlean(Ts[i]), text)
            return self.seq(pad, "%slet %s : %s := %s\n" % (pad, nm, dlean(T), text), rest, ind, tail)
        # x = e for a value of a structured type (list / dict / slice ...): the variable takes that type
        if isinstance(s, ast.Assign) and len(s.targets) == 1 and isinstance(s.targets[0], ast.Name) \
                and s.targets[0].id not in self.optslices and s.targets[0].id not in self.vartypes:
            T = self.dtyof(s.value)
            if T is not None and T[0] in ("list", "dict", "slice", "tup2", "key"):
                nm = ident(s.targets[0].id)
                val = self.e(s.value)
                self.lty[nm] = dlean(T)
                self.bind_dty(nm, T)
                return self.seq(pad, "%slet %s : %s := %s\n" % (pad, nm, dlean(T), val), rest, ind, tail)
        return None

    def union_test(self, n):
        """`isinstance(v, Cls)` for a variable of a union type -> (Lean name of v, union type, cls, fields) or None"""
        if not (self.new and isinstance(n, ast.Call) and isinstance(n.func, ast.Name) and n.func.id == "isinstance"
                and len(n.args) == 2 and isinstance(n.args[0], ast.Name) and isinstance(n.args[1], ast.Name)):
            return None
        T = self.dty.get(ident(n.args[0].id))
        if T is None or T[0] != "union" or ident(n.args[0].id) not in self.lty:
            return None
        if n.args[0].id in self.assigned_anywhere_py - self.loop_targets:
            raise NotImplementedError("isinstance of a variable that is assigned")
        for cls, fields in T[2]:
            if cls == n.args[1].id:
                return ident(n.args[0].id), T, cls, fields
        raise NotImplementedError("isinstance(%s, %s): not a class of the declared union" % (n.args[0].id, n.args[1].id))

    # ---- types ----------------------------------------------------------------
    def tyof(self, n):
        """Lean type of the value of an expression (only as precise as the loop-state annotations need)"""
        T_ = self.dtyof(n)
        if T_ is not None:
            return dlean(T_)
        if isinstance(n, ast.Name):
            if n.id in self.optslices and ast.dump(n) in self.narrow:
                return "Int × Int"
            if self.lty.get(ident(n.id)) == "Option Int" and n.id not in self.types \
                    and ast.dump(ast.Name(id=n.id, ctx=ast.Load())) in self.narrow:
                return "Int"
            return self.lty.get(ident(n.id), "Int")
        if isinstance(n, ast.Constant) and isinstance(n.value, bool):
            return "Bool"
        if isinstance(n, ast.Constant) and isinstance(n.value, float):
            return "φ"
        if isinstance(n, ast.BinOp) and isinstance(n.op, (ast.Pow, ast.Mult)) and (
                self.tyof(n.left) == "φ" or self.tyof(n.right) == "φ"):
            return "φ"
        if isinstance(n, ast.Call) and isinstance(n.func, ast.Name) and n.func.id == "float" and "float" not in self.lty:
            return "φ"
        if isinstance(n, ast.Constant) and isinstance(n.value, bytes):
            return "List Int"
        if isinstance(n, ast.DictComp) or (isinstance(n, ast.Call) and isinstance(n.func, ast.Attribute)
                                           and n.func.attr == "copy" and self.dict_name(n.func.value)):
            return "List (Int × Int)"
        if isinstance(n, ast.Call) and isinstance(n.func, ast.Name) and n.func.id in ("any", "all"):
            return "Bool"
        if isinstance(n, ast.SetComp):
            return "List Int"
        if isinstance(n, ast.Call) and self.record_value(n) is not None:
            return prod([self.tyof(a) for a in self.record_value(n)])
        if isinstance(n, ast.Call) and self.struct_call(n) is not None:
            return "List Int"
        if isinstance(n, ast.Attribute) and isinstance(n.value, ast.Name) and n.value.id == self.objname \
                and self.types.get(self.objname) == "obj" and n.attr not in self.attrs:
            for c in self.mro:
                d = self.done.get("%s.%s" % (c, n.attr))
                if d is not None:
                    return lean_ty(d[0][4:] if d[0].startswith("exc:") else d[0])
        if isinstance(n, ast.BinOp) and isinstance(n.op, (ast.Add, ast.Mult)) and self.tyof(n.left).startswith("List "):
            return self.tyof(n.left)
        sa_ = self.self_attr(n) if isinstance(n, ast.Attribute) and self.types.get(self.objname) == "obj" else None
        if sa_ is not None and sa_[0] == "state":
            return self.lty[sa_[1]]
        if isinstance(n, (ast.Tuple,)):
            return prod([self.tyof(x) for x in n.elts])
        if isinstance(n, ast.List):
            return "List " + paren(self.tyof(n.elts[0])) if n.elts else "List Int"
        if isinstance(n, ast.Subscript) and isinstance(n.value, ast.Name) and isinstance(n.slice, ast.Constant):
            cs = components(self.lty.get(ident(n.value.id), "Int"))
            i = n.slice.value
            if isinstance(i, int) and 0 <= i < len(cs):
                return cs[i]
        if (isinstance(n, ast.Subscript) and isinstance(n.value, ast.Subscript)
                and isinstance(n.value.value, ast.Name) and n.value.value.id in TABLES2D):
            return "Int × Int"
        if self.is_list_index(n):
            return self.elem_ty(n.value.id)
        if (isinstance(n, ast.Subscript) and isinstance(n.value, ast.Name) and isinstance(n.slice, ast.Slice)
                and self.lty.get(ident(n.value.id), "").startswith("List ")):
            return self.lty[ident(n.value.id)]
        if isinstance(n, ast.Subscript) and isinstance(n.slice, ast.Slice) and isinstance(n.value, ast.Attribute):
            return self.tyof(n.value)
        if isinstance(n, ast.IfExp):
            return self.tyof(n.body)
        if isinstance(n, (ast.Compare, ast.BoolOp)) or (isinstance(n, ast.UnaryOp) and isinstance(n.op, ast.Not)):
            return "Bool"
        if isinstance(n, ast.Call) and isinstance(n.func, ast.Name) and n.func.id in self.done:
            return lean_ty(self.done[n.func.id][0])
        if isinstance(n, ast.Call) and isinstance(n.func, ast.Name) and n.func.id == "isinstance":
            return "Bool"
        return "Int"

    def raising(self, lean_exc_expr):
        """a raising sub-expression (`Except String _`): hoisted in front of the current statement / condition leaf;
        returns the name of its value"""
        if not self.is_exc() or self.cond_depth:
            raise NotImplementedError("raising expression in a conditionally evaluated position / "
                                      "function not declared exc:")
        t = self.tmp()
        self.pending.append((t, lean_exc_expr))
        return t

    def is_list_index(self, n):
        return (isinstance(n, ast.Subscript) and isinstance(n.value, ast.Name)
                and self.lty.get(ident(n.value.id), "").startswith("List ") and not isinstance(n.slice, ast.Slice)
                and not (self.new and (self.dtyof(n.value) or ("",))[0] == "dict"))

    def has_raising(self, nodes):
        """does any of the AST nodes contain a construct translated as a raising expression?"""
        for x in nodes:
            for n in ast.walk(x):
                if self.is_list_index(n) or self.pair_dict(n) is not None or self.key_dict(n) is not None:
                    return True
                if self.dict_read_raises(n):
                    return True
                if self.new and isinstance(n, ast.Attribute) and n.attr in ("start", "stop") \
                        and isinstance(n.value, ast.Name) and n.value.id in self.optslices:
                    return True            # (an over-approximation: AttributeError when the value is None)
                if isinstance(n, ast.Call) and self.struct_call(n) is not None:
                    return True
                if isinstance(n, ast.Call) and isinstance(n.func, ast.Name) and n.func.id in self.done \
                        and self.done[n.func.id][0].startswith("exc:") and n.func.id not in self.lty:
                    return True
                if isinstance(n, ast.Attribute) and isinstance(n.value, ast.Name) and n.value.id == self.objname \
                        and self.types.get(self.objname) == "obj" and n.attr not in self.attrs \
                        and any(self.done.get("%s.%s" % (c, n.attr), ("",))[0].startswith("exc:") for c in self.mro):
                    return True
                if isinstance(n, ast.Call) and isinstance(n.func, ast.Name) and n.func.id == "sqrt":
                    return True
                if isinstance(n, ast.Call) and isinstance(n.func, ast.Name) and n.func.id in self.localfns \
                        and self.has_raising([self.localfns[n.func.id][1]]):
                    return True
        return False

    def elem_ty(self, name):
        t = self.lty[ident(name)][5:]
        return t[1:-1] if t.startswith("(") and t.endswith(")") else t

    # ---- expressions --------------------------------------------------------
    def pair_dict(self, n):
        """`D[(a, b)]` / `module.D[(a, b)]` for D in PAIR_DICTS -> (D, a, b) or None"""
        if not (isinstance(n, ast.Subscript) and isinstance(n.slice, ast.Tuple) and len(n.slice.elts) == 2):
            return None
        v = n.value
        name = v.id if isinstance(v, ast.Name) else v.attr if (
            isinstance(v, ast.Attribute) and isinstance(v.value, ast.Name) and v.value.id in self.module_enums) else None
        if name in PAIR_DICTS and name not in self.lty:
            return name, n.slice.elts[0], n.slice.elts[1]
        return None

    def struct_call(self, n):
        """`struct.pack(fmt, ...)` / `struct.unpack_from(fmt, buf[, off])` / `struct.unpack(fmt, buf)` with a literal
        format -> (kind, big-endian?, items, other args) or None"""
        if not (isinstance(n, ast.Call) and isinstance(n.func, ast.Attribute) and isinstance(n.func.value, ast.Name)
                and n.func.value.id == "struct" and "struct" not in self.lty
                and n.func.attr in ("pack", "unpack", "unpack_from") and n.args and not n.keywords):
            return None
        f = n.args[0]
        if isinstance(f, ast.Attribute) and isinstance(f.value, ast.Name) and f.value.id not in self.lty \
                and f.attr in self.module_strs.get(f.value.id, {}):
            f = ast.Constant(value=self.module_strs[f.value.id][f.attr])     # `consts.NAME`: a string constant
        if not (isinstance(f, ast.Constant) and isinstance(f.value, (str, bytes))):
            raise NotImplementedError("struct format that is not a literal")
        fmt = f.value.decode() if isinstance(f.value, bytes) else f.value
        if fmt[:1] not in ("<", ">", "!"):
            raise NotImplementedError("struct format without explicit byte order: " + fmt)
        items, count = [], ""
        for ch in fmt[1:]:
            if ch.isdigit():
                count += ch
            elif ch in "BHIx":
                items += [ch] * (int(count) if count else 1)
                count = ""
            elif ch == " ":
                continue
            else:
                raise NotImplementedError("struct format character " + ch)
        if count:
            raise NotImplementedError("struct format " + fmt)
        return n.func.attr, fmt[0] != "<", items, n.args[1:]

    def struct_expr(self, n):
        """a struct call as a raising expression of type `List Int` (the packed bytes / the unpacked values)"""
        kind, big, items, args = self.struct_call(n)
        its = "[" + ", ".join("PyFmt." + c for c in items) + "]"
        b = "true" if big else "false"
        if kind == "pack":
            t = self.raising("(pyStructPack %s %s [%s])" % (b, its, ", ".join(self.e(a) for a in args)))
        elif kind == "unpack":
            if len(args) != 1:
                raise NotImplementedError("struct.unpack arguments")
            t = self.raising("(pyStructUnpack %s %s %s)" % (b, its, self.e(args[0])))
        else:
            if len(args) not in (1, 2):
                raise NotImplementedError("struct.unpack_from arguments")
            off = self.e(args[1]) if len(args) == 2 else "(0 : Int)"
            t = self.raising("(pyStructUnpackFrom %s %s %s %s)" % (b, its, self.e(args[0]), off))
        self.tmp_ty[t] = "List Int"
        return t, len([c for c in items if c != "x"])

    def key_dict(self, n):
        """`D[k]` / `module.D[k]` for a Nat-keyed, Nat-valued generated table (KEY_DICTS) -> (Lean table, key AST)"""
        if not isinstance(n, ast.Subscript) or isinstance(n.slice, (ast.Slice, ast.Tuple)):
            return None
        v = n.value
        name = v.id if isinstance(v, ast.Name) else v.attr if (
            isinstance(v, ast.Attribute) and isinstance(v.value, ast.Name) and v.value.id in self.module_enums) else None
        if name in KEY_DICTS and name not in self.lty:
            return KEY_DICTS[name], n.slice
        return None

    def record_value(self, n):
        """`Rec(args...)` / `module.Rec(args...)` for a record in VALUE_RECORDS -> the kept positional arguments"""
        if not (isinstance(n, ast.Call) and not n.keywords):
            return None
        f = n.func
        name = f.id if isinstance(f, ast.Name) else f.attr if (
            isinstance(f, ast.Attribute) and isinstance(f.value, ast.Name) and f.value.id not in self.lty) else None
        if name in VALUE_RECORDS and name not in self.lty and len(n.args) == VALUE_RECORDS[name]:
            return n.args
        return None

    def dict_name(self, n):
        return isinstance(n, ast.Name) and ident(n.id) in self.dicts and self.lty.get(ident(n.id)) == "List (Int × Int)"

    def dict_view(self, n):
        """`iteritems(d)` / `d.items()` -> ("items", d); `itervalues(d)` / `d.values()` -> ("values", d);
        `iterkeys(d)` / `d.keys()` / `d` -> ("keys", d); else None"""
        if isinstance(n, ast.Call) and not n.keywords:
            if isinstance(n.func, ast.Name) and n.func.id in ("iteritems", "itervalues", "iterkeys") and len(n.args) == 1 \
                    and self.dict_name(n.args[0]) and n.func.id not in self.lty:
                return n.func.id[4:], ident(n.args[0].id)
            if isinstance(n.func, ast.Attribute) and n.func.attr in ("items", "values", "keys") and not n.args \
                    and self.dict_name(n.func.value):
                return n.func.attr, ident(n.func.value.id)
        if self.dict_name(n):
            return "keys", ident(n.id)
        return None

    def as_float(self, n):
        """an operand of a float operation: a float as it is, an int through `float(k)` (OverflowError)"""
        if self.tyof(n) == "φ":
            return self.e(n)
        if self.tyof(n) == "Int":
            t = self.raising("(F.ofInt %s)" % self.e(n))
            self.tmp_ty[t] = "φ"
            return t
        raise NotImplementedError("float operand of type " + self.tyof(n))

    def e(self, n):
        r_ = self.e_new(n)
        if r_ is not None:
            return r_
        # ---- Python floats: the operations of the `PyFloatOps` parameter `F` of the generated definition ----
        if isinstance(n, ast.BinOp) and isinstance(n.op, ast.Pow) and isinstance(n.left, ast.Constant) \
                and isinstance(n.left.value, float) and n.left.value == 2.0 and self.tyof(n.right) == "Int":
            self.uses_float = True
            t = self.raising("(F.pow2 %s)" % self.e(n.right))          # 2.0 ** n (OverflowError)
            self.tmp_ty[t] = "φ"
            return t
        if isinstance(n, ast.BinOp) and isinstance(n.op, ast.Mult) and "φ" in (self.tyof(n.left), self.tyof(n.right)):
            self.uses_float = True
            a = self.as_float(n.left)
            b = self.as_float(n.right)
            return "(F.mul %s %s)" % (a, b)
        if isinstance(n, ast.Call) and isinstance(n.func, ast.Name) and n.func.id == "float" and len(n.args) == 1 \
                and not n.keywords and "float" not in self.lty:
            self.uses_float = True
            return self.as_float(n.args[0])
        if (isinstance(n, ast.Call) and isinstance(n.func, ast.Name) and n.func.id == "int" and len(n.args) == 1
                and not n.keywords and isinstance(n.args[0], ast.Call) and isinstance(n.args[0].func, ast.Name)
                and n.args[0].func.id == "log" and len(n.args[0].args) == 2 and not n.args[0].keywords
                and isinstance(n.args[0].args[1], ast.Constant) and n.args[0].args[1].value == 2
                and self.tyof(n.args[0].args[0]) == "Int" and "log" not in self.lty and self.imports_log):
            self.uses_float = True
            return self.raising("(F.ilog2 %s)" % self.e(n.args[0].args[0]))   # int(math.log(k, 2)): float logarithm
        if isinstance(n, ast.Call) and isinstance(n.func, ast.Name) and n.func.id == "int" and len(n.args) == 1 \
                and not n.keywords and self.tyof(n.args[0]) == "φ":
            self.uses_float = True
            return self.raising("(F.toInt %s)" % self.e(n.args[0]))     # int(x): truncation, OverflowError for inf
        # ---- dicts of ints (association lists with unique keys, in insertion order) ----
        if isinstance(n, ast.Call) and isinstance(n.func, ast.Attribute) and n.func.attr == "get" and len(n.args) == 2 \
                and not n.keywords and self.dict_name(n.func.value):
            return "((%s.lookup %s).getD %s)" % (ident(n.func.value.id), self.e(n.args[0]), self.e(n.args[1]))
        if isinstance(n, ast.Call) and isinstance(n.func, ast.Attribute) and n.func.attr == "copy" and not n.args \
                and not n.keywords and self.dict_name(n.func.value):
            return ident(n.func.value.id)            # values are immutable ints: a copy is the same association list
        if isinstance(n, ast.DictComp) and len(n.generators) == 1 and not n.generators[0].ifs:
            g = n.generators[0]
            dv = self.dict_view(g.iter)
            if dv is None or dv[0] != "items" or not (isinstance(g.target, ast.Tuple) and len(g.target.elts) == 2
                                                        and all(isinstance(x, ast.Name) for x in g.target.elts)):
                raise NotImplementedError("dict comprehension over " + ast.dump(g.iter)[:60])
            kn, vn = [ident(x.id) for x in g.target.elts]
            if not (isinstance(n.key, ast.Name) and ident(n.key.id) == kn):
                raise NotImplementedError("dict comprehension whose key is not the iterated key (uniqueness / order)")
            saved = dict(self.lty)
            self.lty[kn] = self.lty[vn] = "Int"
            body = self.e(n.value)
            self.lty = saved
            return "(%s.map (fun (kv_ : Int × Int) => let %s : Int := kv_.1; let %s : Int := kv_.2; (%s, %s)))" % (
                dv[1], kn, vn, kn, body)
        if isinstance(n, ast.Call) and isinstance(n.func, ast.Name) and n.func.id in ("any", "all") and len(n.args) == 1 \
                and isinstance(n.args[0], ast.GeneratorExp) and n.func.id not in self.lty:
            return "(decide %s)" % self.p(n)
        if isinstance(n, ast.SetComp) and len(n.generators) == 1 and len(n.generators[0].ifs) == 1 \
                and isinstance(n.generators[0].target, ast.Name) and isinstance(n.elt, ast.Name) \
                and n.elt.id == n.generators[0].target.id and self.enum_values(n.generators[0].iter) is not None:
            # {r for r in Enum if c}: the set of member values satisfying c, as the list in definition order
            var = ident(n.generators[0].target.id)
            saved = dict(self.lty)
            self.lty[var] = "Int"
            c = self.p(n.generators[0].ifs[0])
            self.lty = saved
            return "(([%s] : List Int).filter (fun (%s : Int) => decide %s))" % (
                ", ".join(str(v) for v in self.enum_values(n.generators[0].iter)), var, c)
        rv = self.record_value(n)
        if rv is not None:
            return "(" + ", ".join(self.e(a) for a in rv) + ")"
        if isinstance(n, ast.Subscript) and isinstance(n.slice, ast.Constant) and isinstance(n.slice.value, int) \
                and isinstance(n.value, ast.Call) and self.struct_call(n.value) is not None \
                and self.struct_call(n.value)[0] != "pack":
            t, n_vals = self.struct_expr(n.value)
            if not (0 <= n.slice.value < n_vals):
                raise NotImplementedError("index %d of %d unpacked values" % (n.slice.value, n_vals))
            return "(%s.getD %d 0)" % (t, n.slice.value)
        if self.struct_call(n) is not None:
            if self.struct_call(n)[0] != "pack":
                raise NotImplementedError("struct.unpack outside a tuple assignment")
            return self.struct_expr(n)[0]
        kd = self.key_dict(n)
        if kd is not None:
            return self.raising("(pyKeyGet %s %s)" % (kd[0], self.e(kd[1])))
        if isinstance(n, ast.Constant) and isinstance(n.value, bytes):
            return "([%s] : List Int)" % ", ".join(str(b) for b in bytearray(n.value))
        if isinstance(n, ast.BinOp) and isinstance(n.op, ast.Mult) and self.tyof(n.left).startswith("List ") \
                and self.tyof(n.right) == "Int":
            return "(List.replicate (%s).toNat %s).flatten" % (self.e(n.right), self.e(n.left))   # b * n (n <= 0: empty)
        if isinstance(n, ast.BinOp) and isinstance(n.op, ast.Add) and self.tyof(n.left).startswith("List ") \
                and self.tyof(n.right) == self.tyof(n.left):
            return "(%s ++ %s)" % (self.e(n.left), self.e(n.right))
        pd = self.pair_dict(n)
        if pd is not None:
            lean, rows, cols = PAIR_DICTS[pd[0]]
            a, b = self.e(pd[1]), self.e(pd[2])
            return self.raising("(pyPairGet %s %d %d %s %s)" % (lean, rows, cols, a, b))
        if (isinstance(n, ast.Subscript) and isinstance(n.slice, ast.Slice) and (
                (isinstance(n.value, ast.Name) and self.lty.get(ident(n.value.id), "").startswith("List "))
                or (isinstance(n.value, ast.Attribute) and (self.self_attr(n.value) or ("", ""))[0] == "state"
                    and self.tyof(n.value).startswith("List ")))):
            # l[a:b] (no step): Python's clamping slice
            if n.slice.step is not None:
                raise NotImplementedError("slice with a step")
            l = ident(n.value.id) if isinstance(n.value, ast.Name) else self.self_attr(n.value)[1]
            a = self.e(n.slice.lower) if n.slice.lower is not None else "(0 : Int)"
            b = self.e(n.slice.upper) if n.slice.upper is not None else "((%s).length : Int)" % l
            return "(pySlice %s %s %s)" % (l, a, b)
        if self.is_list_index(n):
            # l[i]: IndexError outside the list, negative indices count from the end
            t = self.raising("(pyGet %s %s)" % (ident(n.value.id), self.e(n.slice)))
            self.tmp_ty[t] = self.elem_ty(n.value.id)
            if ident(n.value.id) in self.rec_elems:
                self.recs[t] = self.rec_elems[ident(n.value.id)]
            return t
        if isinstance(n, ast.Call) and isinstance(n.func, ast.Name) and n.func.id in self.localfns \
                and n.func.id not in self.lty:
            params, body = self.localfns[n.func.id]
            if len(params) != len(n.args) or n.keywords:
                raise NotImplementedError("call of the local function " + n.func.id)
            args = [self.e(a) for a in n.args]
            saved_l, saved_r = dict(self.lty), dict(self.recs)
            binds = ""
            for pn, a, an in zip(params, args, n.args):
                ty = self.tmp_ty.get(a, self.tyof(an))
                self.lty[ident(pn)] = ty
                if a in self.recs:
                    self.recs[ident(pn)] = self.recs[a]
                binds += "let %s : %s := %s; " % (ident(pn), ty, a)
            r = "(%s%s)" % (binds, self.e(body))
            self.lty, self.recs = saved_l, saved_r
            return r
        if isinstance(n, ast.Constant) and isinstance(n.value, bool):
            return "true" if n.value else "false"
        if isinstance(n, ast.Constant) and isinstance(n.value, int) and not isinstance(n.value, bool):
            return "(%d : Int)" % n.value if n.value >= 0 else "(-%d : Int)" % -n.value
        if isinstance(n, ast.Name):
            if n.id in ("True", "False", "None", "self", "cls") and n.id not in self.types:
                raise NotImplementedError("name " + n.id)
            if self.types.get(n.id) == "obj":
                raise NotImplementedError("the object `%s` itself used as a value" % n.id)
            if self.lty.get(ident(n.id)) == "Option Int" and n.id not in self.types:
                key = ast.dump(ast.Name(id=n.id, ctx=ast.Load()))
                if key in self.narrow:
                    return self.narrow[key]
                raise NotImplementedError("optional `%s` used as a value without an `is None` test" % n.id)
            if n.id in self.optslices and self.lty.get(ident(n.id)) == "Option (Int × Int)":
                if ast.dump(n) in self.narrow:
                    return self.narrow[ast.dump(n)]
                raise NotImplementedError("optional slice `%s` used without an `is None` test" % n.id)
            if self.types.get(n.id) in ("optint", "oslice") and ident(n.id) in self.lty \
                    and self.lty[ident(n.id)].startswith("Option"):
                if ast.dump(n) in self.narrow:
                    return self.narrow[ast.dump(n)]
                raise NotImplementedError("optional `%s` used as a value without an `is None` test" % n.id)
            if ident(n.id) not in self.lty:
                if n.id in self.consts and n.id not in self.assigned_anywhere_py:
                    return "(%d : Int)" % self.consts[n.id]        # module-level integer constant
                raise NotImplementedError("name `%s` is not (definitely) bound here" % n.id)
            return ident(n.id)
        if isinstance(n, ast.Tuple):
            return "(" + ", ".join(self.e(x) for x in n.elts) + ")"
        if isinstance(n, ast.Subscript) and isinstance(n.value, ast.Name) and isinstance(n.slice, ast.Constant) \
                and n.value.id not in TABLES2D and n.value.id not in SUBSCRIPT_DICTS:
            nm = ident(n.value.id)
            if nm not in self.lty:
                raise NotImplementedError("name `%s` is not (definitely) bound here" % n.value.id)
            cs = components(self.lty[nm])
            i = n.slice.value
            if len(cs) < 2 or not isinstance(i, int) or not (0 <= i < len(cs)) or self.lty[nm].startswith("List") \
                    or self.lty[nm].startswith("Option"):
                raise NotImplementedError("subscript of %s : %s" % (n.value.id, self.lty[nm]))
            return proj(nm, i, len(cs))
        # TABLE[a][b]
        if (isinstance(n, ast.Subscript) and isinstance(n.value, ast.Subscript)
                and isinstance(n.value.value, ast.Name) and n.value.value.id in TABLES2D):
            lean, dflt = TABLES2D[n.value.value.id]
            return "((%s.getD (%s).toNat []).getD (%s).toNat %s)" % (lean, self.e(n.value.slice), self.e(n.slice), dflt)
        # DICT.get(key)
        if (isinstance(n, ast.Call) and isinstance(n.func, ast.Attribute) and n.func.attr == "get"
                and isinstance(n.func.value, ast.Name) and n.func.value.id in DICTS and len(n.args) == 1):
            return "(%s.lookup %s)" % (DICTS[n.func.value.id], self.e(n.args[0]))
        # call of another translated function
        if isinstance(n, ast.Call) and isinstance(n.func, ast.Name) and n.func.id in [f[1] for f in FUNCS]:
            f, t = self.callee(n.func.id)
            if t == "bool":
                raise NotImplementedError("boolean call %s used as an integer" % n.func.id)
            if n.keywords:
                raise NotImplementedError("keyword arguments")
            return "(%s %s)" % (f, " ".join(self.call_arg(a, pt) for a, pt in zip(n.args, self.done[n.func.id][1])))
        v = self.enum_member(n)
        if v is not None:
            return "(%d : Int)" % v
        o_ = self.opt_expr(n) if isinstance(n, ast.Attribute) else None
        if o_ is not None and isinstance(n.value, ast.Name) and n.value.id == self.objname:
            if o_[1] in self.narrow:
                return self.narrow[o_[1]]
            raise NotImplementedError("optional attribute used as a value without an `is None` test: " + n.attr)
        sa = self.self_attr(n)
        if sa is not None:
            if sa[0] == "state":
                return sa[1]
            if sa[2] == "bool":
                raise NotImplementedError("boolean property self.%s used as an integer" % n.attr)
            return sa[1]
        sm = self.self_method_call(n)
        if sm is not None and sm[1] == "int":
            return sm[0]
        o = self.opt_expr(n)
        if o is not None:
            if o[1] in self.narrow:
                return self.narrow[o[1]]
            raise NotImplementedError("optional used as a value without an `is None` test: " + ast.dump(n)[:60])
        if isinstance(n, ast.Attribute) and isinstance(n.value, ast.Name) and n.value.id in self.optslices \
                and n.attr in ("start", "stop"):
            key = ast.dump(ast.Name(id=n.value.id, ctx=ast.Load()))
            if key not in self.narrow:
                raise NotImplementedError("optional slice `%s` used without an `is None` test" % n.value.id)
            return self.narrow[key] + (".1" if n.attr == "start" else ".2")
        if isinstance(n, ast.Attribute) and isinstance(n.value, ast.Name) and self.types.get(n.value.id) == "slice":
            if n.attr == "start":
                return n.value.id + ".1"
            if n.attr == "stop":
                return n.value.id + ".2"
        if isinstance(n, ast.Attribute) and isinstance(n.value, ast.Attribute) and isinstance(n.value.value, ast.Name) \
                and ident(n.value.value.id) in self.recs and ident(n.value.value.id) in self.lty:
            # rec.a.b for a record declared with the dotted field `a.b`
            fields = self.recs[ident(n.value.value.id)]
            dotted = n.value.attr + "." + n.attr
            if dotted not in fields:
                raise NotImplementedError("attribute %s.%s is not declared" % (n.value.value.id, dotted))
            return proj(ident(n.value.value.id), fields.index(dotted), len(fields))
        if isinstance(n, ast.Attribute) and isinstance(n.value, ast.Name) and ident(n.value.id) in self.recs \
                and ident(n.value.id) in self.lty:
            fields = self.recs[ident(n.value.id)]
            if n.attr not in fields:
                raise NotImplementedError("attribute %s.%s is not declared" % (n.value.id, n.attr))
            return proj(ident(n.value.id), fields.index(n.attr), len(fields))
        if isinstance(n, ast.UnaryOp):
            if isinstance(n.op, ast.USub):
                return "(-%s)" % self.e(n.operand)
            if isinstance(n.op, ast.UAdd):
                return self.e(n.operand)
            if isinstance(n.op, ast.Invert):
                return "(Int.lnot %s)" % self.e(n.operand)
            if isinstance(n.op, ast.Not):
                return "(!%s)" % self.b(n.operand)
        if isinstance(n, ast.BinOp):
            a, b = self.e(n.left), self.e(n.right)
            op = type(n.op)
            if op in (ast.Add, ast.Sub, ast.Mult):
                return "(%s %s %s)" % (a, {ast.Add: "+", ast.Sub: "-", ast.Mult: "*"}[op], b)
            if op is ast.FloorDiv:
                return "(Int.fdiv %s %s)" % (a, b)
            if op is ast.Mod:
                return "(Int.fmod %s %s)" % (a, b)
            if op is ast.BitAnd:
                return "(Int.land %s %s)" % (a, b)
            if op is ast.BitOr:
                return "(Int.lor %s %s)" % (a, b)
            if op is ast.BitXor:
                return "(Int.xor %s %s)" % (a, b)
            if op is ast.Pow:
                return "(%s ^ (%s).toNat)" % (a, b)
            if op is ast.LShift:
                return "(%s <<< (%s).toNat)" % (a, b)
            if op is ast.RShift:
                return "(%s >>> (%s).toNat)" % (a, b)
        if isinstance(n, ast.IfExp):
            return self.ite(n.test, lambda: self.e(n.body), lambda: self.e(n.orelse))
        if isinstance(n, ast.Call) and isinstance(n.func, ast.Name):
            f = n.func.id
            if f in ("min", "max") and not n.keywords:
                # min(a, b, ...) / min((a, b, ...)) over ints (a literal tuple / list as the single argument)
                xs = n.args
                if len(xs) == 1 and isinstance(xs[0], (ast.Tuple, ast.List)):
                    xs = xs[0].elts
                if len(xs) >= 2 and all(self.tyof(x) == "Int" for x in xs):
                    r = self.e(xs[0])
                    for x in xs[1:]:
                        r = "(%s %s %s)" % (f, r, self.e(x))
                    return r
            # int(sqrt(e)): raising, hoisted in front of the statement
            if (f == "int" and len(n.args) == 1 and isinstance(n.args[0], ast.Call)
                    and isinstance(n.args[0].func, ast.Name) and n.args[0].func.id == "sqrt"
                    and len(n.args[0].args) == 1 and self.imports_sqrt):
                return self.raising("(pyIsqrt %s)" % self.e(n.args[0].args[0]))
            if f == "int" and len(n.args) == 1:
                if self.tyof(n.args[0]) != "Int" or isinstance(n.args[0], ast.Call):
                    raise NotImplementedError("int() of " + ast.dump(n.args[0])[:60])
                return self.e(n.args[0])
            if f == "abs" and len(n.args) == 1:
                return "((Int.natAbs %s : Nat) : Int)" % self.e(n.args[0])
            if f == "len" and len(n.args) == 1 and self.tyof(n.args[0]).startswith("List"):
                return "((%s).length : Int)" % self.e(n.args[0])
            if f == "sum" and len(n.args) == 1 and isinstance(n.args[0], ast.GeneratorExp):
                g = n.args[0]
                c = g.generators[0]
                if (isinstance(g.elt, ast.Constant) and g.elt.value == 1 and len(g.generators) == 1
                        and isinstance(c.iter, ast.Call) and getattr(c.iter.func, "id", "") == "range"
                        and len(c.iter.args) == 1 and isinstance(c.iter.args[0], ast.Constant)
                        and len(c.ifs) == 1 and isinstance(c.target, ast.Name)):
                    var = c.target.id
                    saved = dict(self.lty)
                    self.lty[var] = "Int"
                    cond = self.p(c.ifs[0])
                    self.lty = saved
                    return "(((List.range %d).countP (fun (%s_n : Nat) => let %s : Int := (%s_n : Int); decide (%s)) : Nat) : Int)" % (
                        c.iter.args[0].value, var, var, var, cond)
        if isinstance(n, ast.Compare) or isinstance(n, ast.BoolOp):
            return "(decide %s)" % self.p(n)
        raise NotImplementedError(ast.dump(n)[:120])

    def call_arg(self, a, ptype):
        """an argument of a call of a translated function; `(d - s for s, d in zip(x, y))` for a 3-tuple parameter"""
        if isinstance(a, ast.GeneratorExp):
            g = a.generators
            if (ptype == "tup3" and len(g) == 1 and not g[0].ifs and isinstance(g[0].iter, ast.Call)
                    and isinstance(g[0].iter.func, ast.Name) and g[0].iter.func.id == "zip"
                    and len(g[0].iter.args) == 2 and all(isinstance(z, ast.Name) for z in g[0].iter.args)
                    and all(self.lty.get(ident(z.id)) == "Int × Int × Int" for z in g[0].iter.args)
                    and isinstance(g[0].target, ast.Tuple) and len(g[0].target.elts) == 2
                    and all(isinstance(x, ast.Name) for x in g[0].target.elts)):
                za, zb = [ident(z.id) for z in g[0].iter.args]
                na, nb = [ident(x.id) for x in g[0].target.elts]
                comps = []
                saved = dict(self.lty)
                self.lty[na] = self.lty[nb] = "Int"
                body = self.e(a.elt)
                self.lty = saved
                for i in range(3):
                    comps.append("(let %s : Int := %s; let %s : Int := %s; %s)" % (
                        na, proj(za, i, 3), nb, proj(zb, i, 3), body))
                return "(" + ", ".join(comps) + ")"
            raise NotImplementedError("generator expression argument")
        return self.e(a)

    def ite(self, test, then, orelse):
        """conditional expression / statement head with optional narrowing: (if c then A else B) or a match"""
        nt = self.none_test(test)
        self.cond_depth += 1
        try:
            if nt is not None:
                oexpr, key, is_none = nt
                name = self.opt_expr(test.left)[2]
                saved = dict(self.narrow)
                if is_none:
                    a = then()
                    self.narrow[key] = name
                    b = orelse()
                    self.narrow = saved
                    return "(match %s with | none => %s | some %s => %s)" % (oexpr, a, name, b)
                self.narrow[key] = name
                a = then()
                self.narrow = saved
                b = orelse()
                return "(match %s with | some %s => %s | none => %s)" % (oexpr, name, a, b)
            c = self.p(test)
            return "(if %s then %s else %s)" % (c, then(), orelse())
        finally:
            self.cond_depth -= 1

    def p(self, n):
        """a Python expression used as a condition -> Lean Prop"""
        if isinstance(n, ast.Compare) and len(n.ops) == 1 and isinstance(n.ops[0], (ast.In, ast.NotIn)):
            # `x in Enum` / `x not in Enum` for an IntEnum class: value membership (Python >= 3.12)
            c = n.comparators[0]
            neg = isinstance(n.ops[0], ast.NotIn)
            sa = self.self_attr(c) if isinstance(c, ast.Attribute) else None
            if sa is not None and sa[0] == "state" and self.lty.get(sa[1], "").startswith("List (") \
                    and self.lty[sa[1]][5:].strip("()") == self.tyof(n.left):
                # t in self.<set of tuples> (the set as a list; only membership is used)
                m = "(%s.contains %s = true)" % (sa[1], self.e(n.left))
                return "(¬ %s)" % m if neg else m
            if isinstance(c, ast.Name) and c.id == self.objname and self.types.get(c.id) == "obj":
                # t in self: the translated `__contains__` of the class for a tuple of that arity
                for cname in self.mro:
                    for q, d in self.done.items():
                        if q.startswith("%s.__contains__" % cname) and d[1][:1] == [self.obj_spec] and len(d[1]) == 2 \
                                and lean_ty(d[1][1]) == self.tyof(n.left) and d[0] == "bool" and not d[2]:
                            m = "((%s %s %s).1 = true)" % (lean_name(q), " ".join(
                                self.objname + "_" + a for a in self.attrs), self.e(n.left))
                            return "(¬ %s)" % m if neg else m
                raise NotImplementedError("`in self` without a translated __contains__")
            vals = self.enum_values(n.comparators[0])
            if vals is None and isinstance(c, (ast.List, ast.Tuple)) and c.elts and all(
                    self.tyof(x) == "Int" for x in c.elts) and self.tyof(n.left) == "Int":
                vals = [self.e(x) for x in c.elts]          # `x in [a, b, c]` over ints
            if vals is None:
                raise NotImplementedError("`in` " + ast.dump(n.comparators[0])[:60])
            m = "(([%s] : List Int).contains %s = true)" % (", ".join(str(v) for v in vals), self.e(n.left))
            return m if isinstance(n.ops[0], ast.In) else "(¬ %s)" % m
        if isinstance(n, ast.Compare):
            if any(isinstance(o, (ast.Is, ast.IsNot)) for o in n.ops):
                nt = self.none_test(n)
                if nt is None:
                    raise NotImplementedError("`is` comparison")
                return "(%s %s none)" % (nt[0], "=" if nt[2] else "≠")
            # `opt == e` / `opt != e` for an optional that is not known to be an int here (None == 1 is False)
            if len(n.ops) == 1 and isinstance(n.ops[0], (ast.Eq, ast.NotEq)):
                o = self.opt_expr(n.left)
                if o is not None and o[1] not in self.narrow:
                    return "(%s %s some %s)" % (o[0], "=" if isinstance(n.ops[0], ast.Eq) else "≠", self.e(n.comparators[0]))
            # a op b op c  =  (a op b) and (b op c); operands are pure, so evaluating b twice is harmless
            ops = {ast.Lt: "<", ast.LtE: "≤", ast.Gt: ">", ast.GtE: "≥", ast.Eq: "=", ast.NotEq: "≠"}
            terms = [self.e(n.left)] + [self.e(c) for c in n.comparators]
            parts = []
            for i, o in enumerate(n.ops):
                if type(o) not in ops:
                    raise NotImplementedError("comparison " + ast.dump(o))
                parts.append("(%s %s %s)" % (terms[i], ops[type(o)], terms[i + 1]))
            return parts[0] if len(parts) == 1 else "(" + " ∧ ".join(parts) + ")"
        # boolean property of `self` / call of a translated boolean function
        sa = self.self_attr(n) if isinstance(n, ast.Attribute) else None
        if sa is not None and sa[0] == "prop" and sa[2] == "bool":
            return "(%s = true)" % sa[1]
        if isinstance(n, ast.Call) and isinstance(n.func, ast.Name) and n.func.id in [f[1] for f in FUNCS]:
            f, t = self.callee(n.func.id)
            if t == "bool":
                return "((%s %s) = true)" % (f, " ".join(self.e(a) for a in n.args))
        if (isinstance(n, ast.Call) and isinstance(n.func, ast.Name) and n.func.id == "isinstance" and len(n.args) == 2
                and isinstance(n.args[0], ast.Name) and self.types.get(n.args[0].id) == "oslice"
                and isinstance(n.args[1], ast.Name) and n.args[1].id == "slice"):
            return "True"
        if isinstance(n, ast.Call) and isinstance(n.func, ast.Name) and n.func.id in ("any", "all") and len(n.args) == 1 \
                and isinstance(n.args[0], ast.GeneratorExp) and n.func.id not in self.lty:
            g = n.args[0]
            if len(g.generators) != 1 or g.generators[0].ifs or not isinstance(g.generators[0].target, ast.Name):
                raise NotImplementedError("any / all over " + ast.dump(g)[:60])
            dv = self.dict_view(g.generators[0].iter)
            if dv is not None:
                lst = {"items": None, "values": "(%s.map Prod.snd)" % dv[1], "keys": "(%s.map Prod.fst)" % dv[1]}[dv[0]]
                ety = "Int"
                if lst is None:
                    raise NotImplementedError("any / all over items")
            else:
                lst, ety = self.iter_expr(g.generators[0].iter)
            var = ident(g.generators[0].target.id)
            saved = dict(self.lty)
            self.lty[var] = ety
            self.cond_depth += 1
            try:
                c = self.p(g.elt)
            finally:
                self.cond_depth -= 1
                self.lty = saved
            return "(%s.%s (fun (%s : %s) => decide %s) = true)" % (lst, n.func.id, var, ety, c)
        if isinstance(n, ast.BoolOp):
            # `a and b` / `a or b`: later operands are evaluated conditionally (no raising construct allowed there)
            j = " ∧ " if isinstance(n.op, ast.And) else " ∨ "
            self.cond_depth += 1
            try:
                parts = [self.p(v) for v in n.values]
            finally:
                self.cond_depth -= 1
            return "(" + j.join(parts) + ")"
        if isinstance(n, ast.UnaryOp) and isinstance(n.op, ast.Not):
            return "(¬ %s)" % self.p(n.operand)
        if isinstance(n, ast.Constant) and n.value is True:
            return "True"
        if isinstance(n, ast.Constant) and n.value is False:
            return "False"
        # truthiness
        t = self.tyof(n)
        if t == "Bool":
            return "(%s = true)" % self.e(n)
        if t.startswith("List"):
            return "(%s ≠ [])" % self.e(n)
        if t != "Int":
            raise NotImplementedError("truthiness of a value of type " + t)
        return "(%s ≠ 0)" % self.e(n)

    def b(self, n):
        return "(decide %s)" % self.p(n)

    def pexc(self, n):
        """a condition with raising sub-expressions -> Lean `Except String Bool`, evaluated left to right with
        Python's short-circuit rules"""
        if isinstance(n, ast.BoolOp):
            stop = "false" if isinstance(n.op, ast.And) else "true"
            parts = [self.pexc(v) for v in n.values]
            text = parts[-1]
            for q in reversed(parts[:-1]):
                text = "(match %s with | Except.ok %s => Except.ok %s | Except.ok _ => %s | Except.error e_ => Except.error e_)" % (
                    q, stop, stop, text)
            return text
        if isinstance(n, ast.UnaryOp) and isinstance(n.op, ast.Not):
            return "(match %s with | Except.ok v_ => Except.ok (!v_) | Except.error e_ => Except.error e_)" % self.pexc(n.operand)
        saved, self.pending = self.pending, []
        depth, self.cond_depth = self.cond_depth, 0
        try:
            c = self.b(n)
        finally:
            self.cond_depth = depth
        pend, self.pending = self.pending, saved
        text = "(Except.ok %s)" % c
        for t, ex in reversed(pend):
            text = "(match %s with | Except.error e_ => Except.error e_ | Except.ok %s => %s)" % (ex, t, text)
        return text

    # ---- iterables -----------------------------------------------------------
    def iter_expr(self, n):
        """an iterable -> (Lean list expression, element type)"""
        self.iter_dty = None
        if self.new:
            d = None
            if isinstance(n, ast.Call) and not n.keywords and isinstance(n.func, ast.Name) and n.func.id == "iteritems" \
                    and len(n.args) == 1 and "iteritems" not in self.lty:
                d = n.args[0]
            if isinstance(n, ast.Call) and not n.keywords and isinstance(n.func, ast.Attribute) and n.func.attr == "items" \
                    and not n.args:
                d = n.func.value
            if d is not None:
                T = self.dtyof(d)
                if T is None or T[0] != "dict":
                    raise NotImplementedError("items of " + ast.dump(d)[:60])
                self.iter_dty = [T[1], T[2]]
                return self.e(d), prod([dlean(T[1]), dlean(T[2])])
            T = self.dtyof(n)
            if T is not None and T[0] == "list":
                self.iter_dty = [T[1]]
                return self.e(n), dlean(T[1])
        if isinstance(n, ast.Call) and isinstance(n.func, ast.Name) and n.func.id == "reversed" and len(n.args) == 1:
            l, t = self.iter_expr(n.args[0])
            return "(%s).reverse" % l, t
        if isinstance(n, ast.Call) and isinstance(n.func, ast.Name) and n.func.id == "range" and not n.keywords:
            a = [self.e(x) for x in n.args]
            if len(a) == 1:
                return "(pyRange1 (0 : Int) %s)" % a[0], "Int"
            if len(a) == 2:
                return "(pyRange1 %s %s)" % (a[0], a[1]), "Int"
            if len(a) == 3:
                st = n.args[2]
                if isinstance(st, ast.UnaryOp) and isinstance(st.op, ast.USub) and isinstance(st.operand, ast.Constant):
                    val = -st.operand.value
                elif isinstance(st, ast.Constant):
                    val = st.value
                else:
                    val = None
                if not isinstance(val, int) or isinstance(val, bool) or val == 0:
                    raise NotImplementedError("range step must be a non-zero integer literal")
                return "(pyRange %s %s %s)" % (a[0], a[1], a[2]), "Int"
        if isinstance(n, (ast.Tuple, ast.List)) and n.elts:
            ts = set(self.tyof(x) for x in n.elts)
            if len(ts) != 1:
                raise NotImplementedError("iterable literal with mixed element types")
            t = ts.pop()
            return "([" + ", ".join(self.e(x) for x in n.elts) + "] : List %s)" % paren(t), t
        if isinstance(n, ast.Name) and self.lty.get(ident(n.id), "").startswith("List "):
            t = self.lty[ident(n.id)][5:]
            if t.startswith("(") and t.endswith(")"):
                t = t[1:-1]
            return ident(n.id), t
        raise NotImplementedError("iterable " + ast.dump(n)[:100])

    # ---- statements ---------------------------------------------------------
    def target_names(self, t):
        """Lean names bound by an assignment target"""
        if isinstance(t, ast.Name):
            return [ident(t.id)]
        if isinstance(t, ast.Tuple) and all(isinstance(x, ast.Name) for x in t.elts):
            return [ident(x.id) for x in t.elts]
        if isinstance(t, ast.Tuple):
            return [nm for x in t.elts for nm in self.target_names(x)]
        if self.dict_root(t) is not None:
            return [ident(self.dict_root(t)[0])]           # d[k] = v rebinds the dict d
        sa = self.self_attr(t)
        if sa is not None and sa[0] == "state":
            return [sa[1]]
        raise NotImplementedError("assignment target " + ast.dump(t)[:80])

    def proc_call(self, s):
        """`f(obj, args...)` as a statement, `f` translated earlier with an object parameter whose attributes are
        among ours (same types), returning nothing: -> (callee, Lean call) or None"""
        if not (isinstance(s, ast.Expr) and isinstance(s.value, ast.Call) and isinstance(s.value.func, ast.Name)):
            return None
        c = s.value
        d = self.done.get(c.func.id)
        if d is None or not d[1] or not d[1][0].startswith("obj:") or not c.args or c.keywords \
                or not (isinstance(c.args[0], ast.Name) and c.args[0].id == self.objname):
            return None
        if (d[0][4:] if d[0].startswith("exc:") else d[0]) != "none" or len(c.args) != len(d[1]):
            raise NotImplementedError("call of %s on the object" % c.func.id)
        spec = [x for x in d[1][0][4:].split(";")[0].split(",") if x]
        mine = dict(zip(self.attrs, self.attr_specs))
        args = []
        for x in spec:
            a = x.split(":")[0]
            if mine.get(a) != x:
                raise NotImplementedError("attribute %s of the callee %s is not an attribute here" % (a, c.func.id))
            args.append(self.objname + "_" + a)
        args += [self.e(a) for a in c.args[1:]]
        return c.func.id, "(%s %s)" % (lean_name(c.func.id), " ".join(args))

    def is_event_stmt(self, s):
        """shape test only (no translation of the arguments): is `s` an event call / its assignment?"""
        c = s.value if isinstance(s, (ast.Expr, ast.Assign)) else None
        if not (isinstance(c, ast.Call) and isinstance(c.func, ast.Attribute) and c.func.attr in EVENT_CALLS):
            return False
        if not self.has_events():
            return False
        r = c.func.value
        while isinstance(r, ast.Attribute):
            r = r.value
        return isinstance(r, ast.Name) and (r.id == "self" or r.id not in self.lty)

    def event_stmt(self, s):
        """`X.m(...)` / `v = X.m(...)` for an EVENT_CALLS method -> (event expression, result type, target) or None"""
        if isinstance(s, ast.Expr):
            ec = self.event_call(s.value)
            return None if ec is None else (ec[0], ec[1], None)
        if isinstance(s, ast.Assign) and len(s.targets) == 1 and isinstance(s.targets[0], ast.Name):
            ec = self.event_call(s.value)
            if ec is None:
                return None
            if ec[1] is None:
                raise NotImplementedError("the result of an event call without a declared result type")
            return ec[0], ec[1], s.targets[0].id
        return None

    def is_emit(self, s):
        """`yield e` / `self.<EFFECT>(...)` as a statement -> the emitted value's AST (tuple for calls) or None"""
        if not isinstance(s, ast.Expr):
            return None
        if isinstance(s.value, ast.Yield):
            if not self.base().startswith("gen:") or s.value.value is None:
                raise NotImplementedError("yield in a function not declared gen:")
            v = s.value.value
            if isinstance(v, ast.Call) and isinstance(v.func, ast.Name) and v.func.id in RECORD_CALLS \
                    and v.func.id not in self.lty:
                spec = RECORD_CALLS[v.func.id]
                if spec and isinstance(spec[0], tuple):
                    # only the listed positional arguments are kept (the others are opaque objects passed through)
                    ignored, keep = spec
                    if any(k.arg not in ignored for k in v.keywords) or max(keep) >= len(v.args):
                        raise NotImplementedError("record %s" % v.func.id)
                    return v.args[keep[0]] if len(keep) == 1 else ast.Tuple(elts=[v.args[i] for i in keep], ctx=ast.Load())
                ignored = spec
                n = len(self.base()[4:].split(","))
                if len(v.args) != n or any(k.arg not in ignored for k in v.keywords):
                    raise NotImplementedError("record %s with %d positional arguments" % (v.func.id, len(v.args)))
                return ast.Tuple(elts=list(v.args), ctx=ast.Load())
            return v
        c = s.value
        if self.is_event_stmt(s):
            return None                   # recorded as an event of an `ev:` function
        if (isinstance(c, ast.Call) and isinstance(c.func, ast.Attribute) and isinstance(c.func.value, ast.Name)
                and c.func.value.id == "self" and c.func.attr in EFFECTS):
            # keyword arguments follow the positional ones, in source order (the declared `calls:` arity fixes the shape)
            args = list(c.args) + [k.value for k in c.keywords]
            if not self.base().startswith("calls:") or any(k.arg is None for k in c.keywords) \
                    or len(args) != len(calls_types(self.base())):
                raise NotImplementedError("effect call %s with %d arguments in a function declared %s"
                                          % (c.func.attr, len(args), self.ret))
            return ast.Tuple(elts=args, ctx=ast.Load())
        return None

    def assigned(self, stmts):
        out = []

        def add(nm):
            if nm not in out:
                out.append(nm)
        for s in stmts:
            if self.is_event_stmt(s):
                add("out_")
            if self.append_stmt(s) is not None:
                add(ident(self.append_stmt(s)[0]))
                continue
            if isinstance(s, ast.Assign):
                for t in s.targets:
                    for nm in self.target_names(t):
                        add(nm)
            elif isinstance(s, ast.AugAssign):
                for nm in self.target_names(s.target):
                    add(nm)
            elif isinstance(s, ast.If):
                for v in self.assigned(s.body) + self.assigned(s.orelse):
                    add(v)
            elif isinstance(s, (ast.For, ast.While)):
                if isinstance(s, ast.For):
                    for nm in self.target_names(s.target):
                        add(nm)
                for v in self.assigned(s.body) + self.assigned(s.orelse):
                    add(v)
            elif isinstance(s, ast.Expr) and (isinstance(s.value, ast.Yield) or self.is_emit(s) is not None):
                add("out_")
        return out

    def definitely_assigned(self, stmts):
        """names assigned on every path through stmts that reaches their end"""
        out = set()
        for s in stmts:
            if self.is_event_stmt(s):
                out.add("out_")
            if self.append_stmt(s) is not None:
                out.add(ident(self.append_stmt(s)[0]))
                continue
            if isinstance(s, ast.Assign):
                for t in s.targets:
                    out.update(self.target_names(t))
            elif isinstance(s, ast.AugAssign):
                out.update(self.target_names(s.target))
            elif isinstance(s, ast.If):
                out.update(set(self.definitely_assigned(s.body)) & set(self.definitely_assigned(s.orelse)))
            elif isinstance(s, ast.Expr) and self.is_emit(s) is not None:
                out.add("out_")
        return out

    def returns(self, stmts):
        """every path through stmts ends in return / raise"""
        return bool(stmts) and (isinstance(stmts[-1], (ast.Return, ast.Raise)) or (
            isinstance(stmts[-1], ast.If) and self.returns(stmts[-1].body) and self.returns(stmts[-1].orelse)))

    def has_exit(self, stmts):
        return any(isinstance(n, (ast.Return, ast.Raise, ast.Break, ast.Continue)) for s in stmts for n in ast.walk(s))

    def with_state(self, v):
        """the function's result: the returned value, the final values of the state attributes and (functions
        declared `ev:`) the list of events"""
        base = self.base()
        comps = ([] if base == "none" else [v]) + [self.objname + "_" + a for a in self.attrs] + (["out_"] if self.has_events() else [])
        if not comps:
            return "()"
        return comps[0] if len(comps) == 1 else "(" + ", ".join(comps) + ")"

    def attrs_tuple(self):
        vs = [self.objname + "_" + a for a in self.attrs]
        return vs[0] if len(vs) == 1 else "(" + ", ".join(vs) + ")"

    def ret_value(self, v):
        """`return v`"""
        if self.is_stream():
            if v is not None:
                raise NotImplementedError("return with a value in a generator")
            return "(Except.ok out_)" if self.is_exc() else "out_"
        base = self.base()
        if base.startswith("opt:"):
            # `return None` / `return e` of a function whose result may be None
            if v is None or (isinstance(v, ast.Constant) and v.value is None):
                r = self.with_state("none")
            else:
                r = self.with_state("(some %s)" % self.e(v))
            return "(Except.ok %s)" % r if self.is_exc() else r
        if v is None or (isinstance(v, ast.Constant) and v.value is None):
            if base != "none":
                raise NotImplementedError("return None in a function declared " + self.ret)
            r = self.with_state("()")
            return "(Except.ok %s)" % r if self.is_exc() else r
        if base == "none":
            raise NotImplementedError("return of a value in a function declared " + self.ret)
        if base == "bool":
            r = self.with_state(self.b(v))
            return "(Except.ok %s)" % r if self.is_exc() else r
        if not self.is_exc():
            return self.with_state(self.e(v))
        # Cls(e) / cls(e): lookup of an IntEnum member by value
        if (isinstance(v, ast.Call) and isinstance(v.func, ast.Name) and len(v.args) == 1 and not v.keywords
                and (v.func.id in self.local_enums
                     or (v.func.id == "cls" and self.is_classmethod and self.cls in self.local_enums))):
            vals = self.local_enums[self.cls if v.func.id == "cls" else v.func.id]
            x = self.e(v.args[0])
            return "(let v : Int := %s; if (%s : List Int).contains v then Except.ok v else Except.error \"ValueError\")" % (
                x, "[" + ", ".join(str(i) for i in vals) + "]")
        # D[key]
        if isinstance(v, ast.Subscript) and isinstance(v.value, ast.Name) and v.value.id in SUBSCRIPT_DICTS:
            lean, val, vt = SUBSCRIPT_DICTS[v.value.id]
            if vt != base:
                raise NotImplementedError("%s[...] : %s returned from a function declared %s" % (v.value.id, vt, self.ret))
            key = self.e(v.slice)
            look = "%s.lookup %s" % (lean, key)
            if v.value.id in NAT_KEYED:
                look = "(if %s < 0 then none else %s.lookup (%s).toNat)" % (key, lean, key)
            return "(match %s with | some v => Except.ok %s | none => Except.error \"KeyError\")" % (look, val)
        # Cls(...) for a listed class: the tuple of its integer arguments
        if (isinstance(v, ast.Call) and isinstance(v.func, ast.Name) and v.func.id in CONSTRUCTORS
                and not v.keywords and v.func.id in self.classes):
            keep = CONSTRUCTORS[v.func.id]
            if max(keep) >= len(v.args):
                raise NotImplementedError("constructor %s with %d arguments" % (v.func.id, len(v.args)))
            return "(Except.ok %s)" % self.with_state("(" + ", ".join(self.e(v.args[i]) for i in keep) + ")")
        return "(Except.ok %s)" % self.with_state(self.e(v))

    def raise_value(self, s):
        exc = s.exc.func if isinstance(s.exc, ast.Call) else s.exc
        if not self.is_exc() or not isinstance(exc, ast.Name) or s.cause is not None:
            raise NotImplementedError("raise in a function not declared exc: / raise of a non-name")
        return "(Except.error \"%s\")" % exc.id

    def exit_with(self, result):
        """leave the function with `result` (a Lean expression of the function's result type) from here"""
        if not self.loops:
            return result
        return self.loops[-1].tuple("true", "(some %s)" % result)

    def wrap_pending(self, pad, text):
        """put the raising sub-expressions collected while translating a statement in front of it"""
        pend, self.pending = self.pending, []
        for t, ex in reversed(pend):
            text = "%smatch %s with\n%s| Except.error e_ => %s\n%s| Except.ok %s =>\n%s" % (
                pad, ex, pad, self.exit_with("(Except.error e_)"), pad, t, text)
        return text

    def seq(self, pad, text, rest, ind, tail):
        """`text` (one translated statement, its raising sub-expressions pending) followed by the rest"""
        mine, self.pending = self.pending, []
        text += self.block(rest, ind, tail)
        self.pending = mine
        return self.wrap_pending(pad, text)

    def bind(self, names, ty=None):
        for nm, t in zip(names, ty or ["Int"] * len(names)):
            self.lty[nm] = t

    def block(self, stmts, ind, tail=None):
        """stmts followed by the expression `tail` (or ending in return)"""
        pad = "  " * ind
        if not stmts:
            if tail is None:
                if self.fn_tail is None:
                    raise NotImplementedError("function does not end in return")
                return pad + self.fn_tail()
            return pad + tail
        s, rest = stmts[0], stmts[1:]
        if isinstance(s, ast.Expr) and isinstance(s.value, ast.Constant):
            return self.block(rest, ind, tail)          # docstring
        if isinstance(s, ast.Pass):
            return self.block(rest, ind, tail)
        r_ = self.block_new(s, rest, ind, tail)
        if r_ is not None:
            return r_
        if isinstance(s, ast.FunctionDef):
            # a nested `def f(x, ...): return e` (no defaults, no decorators): calls are expanded in place
            body = [x for x in s.body if not (isinstance(x, ast.Expr) and isinstance(x.value, ast.Constant))]
            a = s.args
            if (s.decorator_list or a.vararg or a.kwarg or a.kwonlyargs or a.defaults or len(body) != 1
                    or not isinstance(body[0], ast.Return) or body[0].value is None):
                raise NotImplementedError("nested function %s is not of the form `def f(x): return e`" % s.name)
            free = set(n.id for n in ast.walk(body[0].value) if isinstance(n, ast.Name)) - set(x.arg for x in a.args)
            if any(ident(v) in self.assigned_anywhere for v in free):
                raise NotImplementedError("nested function %s reads a variable of the enclosing function" % s.name)
            self.localfns[s.name] = ([x.arg for x in a.args], body[0].value)
            return self.block(rest, ind, tail)
        if isinstance(s, ast.Assert):
            if not self.is_exc():
                return self.block(rest, ind, tail)
            c = self.p(s.test)
            mine, self.pending = self.pending, []
            text = "%sif %s then\n%s\n%selse\n%s  %s" % (pad, c, self.block(rest, ind + 1, tail), pad, pad,
                                                       self.exit_with("(Except.error \"AssertionError\")"))
            self.pending = mine
            return self.wrap_pending(pad, text)
        if (self.local_obj and isinstance(s, ast.Assign) and len(s.targets) == 1 and isinstance(s.targets[0], ast.Name)
                and s.targets[0].id == self.objname):
            c = s.value
            if not isinstance(c, ast.Call):
                raise NotImplementedError("the local object must be the result of a call")
            # `cls()` / `Class()` / any other call whose result is not modelled (`self.fields.get_field(...)`): 
            # the fresh object is its attribute parameters (the values the constructor leaves)
            return self.block(rest, ind, tail)
        pc = self.proc_call(s)
        if pc is not None:
            callee, call = pc
            cattrs = [x.split(":")[0] for x in self.done[callee][1][0][4:].split(";")[0].split(",") if x]
            t = self.raising(call) if self.done[callee][0].startswith("exc:") else None
            src = t if t is not None else call
            text = ""
            for i, a in enumerate(cattrs):
                nm = self.objname + "_" + a
                text += "%slet %s : %s := %s\n" % (pad, nm, self.lty[nm], proj(src, i, len(cattrs)))
            return self.seq(pad, text, rest, ind, tail)
        if isinstance(s, ast.Return) and self.local_obj and isinstance(s.value, ast.Name) and s.value.id == self.objname:
            s = ast.Return(value=None)           # `return <the object>`: its attributes are the result
        ev = self.event_stmt(s)
        if ev is not None:
            expr, result, target = ev
            if self.loops and target is not None:
                raise NotImplementedError("the result of an event call used inside a loop")
            text = "%slet out_ : List PyEvent := out_ ++ [%s]\n" % (pad, expr)
            if target is not None:
                # what the environment answers is an input of the generated definition
                name = ident(target) + "_in"
                if name in [o[0] for o in self.oracles]:
                    raise NotImplementedError("two event calls assigned to " + target)
                self.oracles.append((name, BASE_TY[result]))
                text += "%slet %s : %s := %s\n" % (pad, ident(target), BASE_TY[result], name)
                self.lty[ident(target)] = BASE_TY[result]
            return self.seq(pad, text, rest, ind, tail)
        em = self.is_emit(s)
        if em is not None:
            v = self.e(em)
            text = "%slet out_ : %s := out_ ++ [%s]\n" % (pad, self.lty["out_"], v)
            return self.seq(pad, text, rest, ind, tail)
        if isinstance(s, (ast.Break, ast.Continue)):
            if not self.loops:
                raise NotImplementedError("break / continue outside a loop")
            return pad + self.loops[-1].tuple("true" if isinstance(s, ast.Break) else "false")
        if isinstance(s, ast.Return) and self.base().startswith("calls:") and s.value is not None:
            # `return self.<EFFECT>(...)` / `return self.<EFFECT>(...).attr`: the call is recorded; what the machine
            # answers (and hence the returned value) is not part of a `calls:` result
            c = s.value.value if isinstance(s.value, ast.Attribute) else s.value
            if self.is_emit(ast.Expr(value=c)) is None:
                raise NotImplementedError("return with a value in a function declared calls:")
            return self.block([ast.Expr(value=c), ast.Return(value=None)] + rest, ind, tail)
        if isinstance(s, ast.Return):
            if tail is not None and not self.loops:
                raise NotImplementedError("return in this position")
            v = self.ret_value(s.value)
            return self.wrap_pending(pad, pad + self.exit_with(v))
        if isinstance(s, ast.Raise):
            if tail is not None and not self.loops:
                raise NotImplementedError("raise in this position")
            return pad + self.exit_with(self.raise_value(s))
        if isinstance(s, ast.Assign) and len(s.targets) == 1 and isinstance(s.value, ast.Call) \
                and self.struct_call(s.value) is not None and self.struct_call(s.value)[0] != "pack":
            # `a, b = struct.unpack_from(...)`: the values are the elements of the unpacked list (its length is that
            # of the format, `pyStructUnpack*_length`; the defaults of `getD` are never used)
            tmp, n_vals = self.struct_expr(s.value)
            t = s.targets[0]
            names = self.target_names(t)
            if not isinstance(t, ast.Tuple) or len(names) != n_vals:
                raise NotImplementedError("unpacking %d struct values into %d targets" % (n_vals, len(names)))
            text = ""
            for i, nm in enumerate(names):
                if nm == "_":
                    continue
                ty = self.lty.get(nm, "Int")
                if ty == "Option Int":
                    text += "%slet %s : Option Int := some (%s.getD %d 0)\n" % (pad, nm, tmp, i)
                elif ty == "Int":
                    text += "%slet %s : Int := (%s.getD %d 0)\n" % (pad, nm, tmp, i)
                    self.lty[nm] = "Int"
                else:
                    raise NotImplementedError("struct value assigned to %s : %s" % (nm, ty))
            return self.seq(pad, text, rest, ind, tail)
        if isinstance(s, ast.Assign) and len(s.targets) == 1 and isinstance(s.targets[0], ast.Name) \
                and s.targets[0].id in self.optslices:
            v = s.value
            nm = ident(s.targets[0].id)
            if isinstance(v, ast.Constant) and v.value is None:
                val = "none"
            elif (isinstance(v, ast.Call) and isinstance(v.func, ast.Name) and v.func.id == "slice" and len(v.args) == 2
                  and not v.keywords and "slice" not in self.lty):
                val = "(some (%s, %s))" % (self.e(v.args[0]), self.e(v.args[1]))
            else:
                raise NotImplementedError("value assigned to the optional slice " + nm)
            self.narrow.pop(ast.dump(ast.Name(id=s.targets[0].id, ctx=ast.Load())), None)   # no longer known
            self.lty[nm] = "Option (Int × Int)"
            if self.new and val != "none":
                # (structured subset) the slice just assigned is known: `x.stop` needs no `is None` test
                text = "%slet %s_v : Int × Int := %s\n%slet %s : Option (Int × Int) := (some %s_v)\n" % (
                    pad, nm, val[6:-1], pad, nm, nm)
                self.lty[nm + "_v"] = "Int × Int"
                self.narrow[ast.dump(ast.Name(id=s.targets[0].id, ctx=ast.Load()))] = nm + "_v"
                return self.seq(pad, text, rest, ind, tail)
            text = "%slet %s : Option (Int × Int) := %s\n" % (pad, nm, val)
            return self.seq(pad, text, rest, ind, tail)
        if (isinstance(s, ast.Assign) and len(s.targets) == 1 and isinstance(s.targets[0], ast.Name)
                and isinstance(s.value, ast.Attribute) and self.opt_expr(s.value) is not None
                and self.opt_expr(s.value)[1] not in self.narrow and isinstance(s.value.value, ast.Name)
                and s.value.value.id == self.objname):
            # x = obj.attr for an attribute that may be None: x is an optional local
            nm = ident(s.targets[0].id)
            self.narrow.pop(ast.dump(ast.Name(id=s.targets[0].id, ctx=ast.Load())), None)
            self.lty[nm] = "Option Int"
            text = "%slet %s : Option Int := %s\n" % (pad, nm, self.opt_expr(s.value)[0])
            return self.seq(pad, text, rest, ind, tail)
        if isinstance(s, ast.Assign) and len(s.targets) == 1:
            t = s.targets[0]
            names = self.target_names(t)
            pat = names[0] if len(names) == 1 else "(" + ", ".join(names) + ")"
            vty = self.tyof(s.value)
            ty = " : " + vty if len(names) == 1 and not isinstance(s.value, ast.Tuple) else ""
            val = self.call_arg(s.value, None)
            if len(names) == 1 and isinstance(t, ast.Name):
                self.narrow.pop(ast.dump(ast.Name(id=t.id, ctx=ast.Load())), None)
            if len(names) == 1 and isinstance(t, ast.Attribute) and self.lty.get(names[0]) == "Option Int" and vty == "Int":
                val, vty, ty = "(some %s)" % val, "Option Int", " : Option Int"     # an int stored in an int-or-None attribute
            if len(names) == 1:
                self.bind(names, [vty])
            else:
                cs = components(vty)
                if len(cs) != len(names) or (not isinstance(s.value, ast.Tuple) and any(c != "Int" for c in cs)):
                    raise NotImplementedError("unpacking %s into %d names" % (vty, len(names)))
                if isinstance(s.value, ast.Tuple):
                    cs = [self.tyof(x) for x in s.value.elts]
                self.bind(names, cs)
            if len(names) == 1 and vty == "List (Int × Int)" and (isinstance(s.value, ast.DictComp) or (
                    isinstance(s.value, ast.Call) and isinstance(s.value.func, ast.Attribute) and s.value.func.attr == "copy")):
                self.dicts.add(names[0])
            text = "%slet %s%s := %s\n" % (pad, pat, ty, val)
            return self.seq(pad, text, rest, ind, tail)
        if isinstance(s, ast.AugAssign) and isinstance(s.target, ast.Subscript) and self.dict_name(s.target.value) \
                and isinstance(s.op, (ast.Add, ast.Sub)):
            # d[k] += e / d[k] -= e: KeyError when k is absent (the old value is read first)
            d = ident(s.target.value.id)
            t = self.raising("(pyDictUpd %s %s (fun (v_ : Int) => v_ %s %s))" % (
                d, self.e(s.target.slice), "+" if isinstance(s.op, ast.Add) else "-", self.e(s.value)))
            text = "%slet %s : List (Int × Int) := %s\n" % (pad, d, t)
            return self.seq(pad, text, rest, ind, tail)
        if isinstance(s, ast.AugAssign):
            names = self.target_names(s.target)
            if len(names) != 1:
                raise NotImplementedError("augmented assignment " + ast.dump(s)[:80])
            tgt = ast.Attribute(value=s.target.value, attr=s.target.attr, ctx=ast.Load()) \
                if isinstance(s.target, ast.Attribute) else ast.Name(id=s.target.id, ctx=ast.Load())
            v = ast.BinOp(left=tgt, op=s.op, right=s.value)
            vty = self.tyof(v)
            val = self.e(v)
            self.bind(names, [vty])
            text = "%slet %s : %s := %s\n" % (pad, names[0], vty, val)
            return self.seq(pad, text, rest, ind, tail)
        if isinstance(s, ast.If):
            return self.if_stmt(s, rest, ind, tail)
        if isinstance(s, ast.For):
            return self.for_stmt(s, rest, ind, tail)
        if isinstance(s, ast.While):
            return self.while_stmt(s, rest, ind, tail)
        raise NotImplementedError(ast.dump(s)[:120])

    def static_test(self, n):
        """a condition decided by the DECLARED types alone: `isinstance(x, str)` / `isinstance(x, Iterable)` is False
        for an int-typed parameter `x`; and / or / not of such -> True / False / None (not static)"""
        if (isinstance(n, ast.Call) and isinstance(n.func, ast.Name) and n.func.id == "isinstance" and len(n.args) == 2
                and isinstance(n.args[0], ast.Name) and self.types.get(n.args[0].id) == "int"
                and n.args[0].id not in self.assigned_anywhere_py
                and isinstance(n.args[1], ast.Name) and n.args[1].id in ("str", "Iterable", "bytes", "list", "tuple")):
            return False
        if (isinstance(n, ast.Compare) and len(n.ops) == 1 and isinstance(n.ops[0], ast.Eq)
                and isinstance(n.left, ast.Call) and isinstance(n.left.func, ast.Name) and n.left.func.id == "len"
                and len(n.left.args) == 1 and isinstance(n.left.args[0], ast.Name)
                and self.types.get(n.left.args[0].id) in ("tup2", "tup3")
                and n.left.args[0].id not in self.assigned_anywhere_py
                and isinstance(n.comparators[0], ast.Constant) and isinstance(n.comparators[0].value, int)):
            # len(t) of a parameter declared as a tuple of known arity
            return {"tup2": 2, "tup3": 3}[self.types[n.left.args[0].id]] == n.comparators[0].value
        if isinstance(n, ast.UnaryOp) and isinstance(n.op, ast.Not):
            v = self.static_test(n.operand)
            return None if v is None else not v
        if isinstance(n, ast.BoolOp):
            vs = [self.static_test(v) for v in n.values]
            if isinstance(n.op, ast.And) and vs[0] is False:
                return False                     # later operands are not evaluated
            if isinstance(n.op, ast.Or) and vs[0] is True:
                return True
            if all(v is not None for v in vs):
                return all(vs) if isinstance(n.op, ast.And) else any(vs)
        return None

    def if_stmt(self, s, rest, ind, tail):
        try:
            saved = (dict(self.lty), dict(self.narrow), list(self.pending), len(self.aux), self.ntmp, list(self.oracles))
            return self.if_stmt_(s, rest, ind, tail, False)
        except NotImplementedError as e:
            if "different types in the branches" not in str(e) or self.loops:
                raise
            self.lty, self.narrow, self.pending = saved[0], saved[1], saved[2]
            del self.aux[saved[3]:]
            self.ntmp, self.oracles = saved[4], saved[5]
            return self.if_stmt_(s, rest, ind, tail, True)

    def if_stmt_(self, s, rest, ind, tail, force_dup):
        st = self.static_test(s.test)
        if st is not None:
            # decided by the declared parameter types: only the live branch exists
            return self.block((s.body if st else s.orelse) + rest, ind, tail)
        pad = "  " * ind
        ut = self.union_test(s.test)
        nt = self.none_test(s.test) if ut is None else None
        saved_l, saved_n = dict(self.lty), dict(self.narrow)
        saved_u = dict(self.ufields)

        def branch(stmts, narrowed, i, t):
            self.lty, self.narrow = dict(saved_l), dict(saved_n)
            self.ufields = dict(saved_u)
            if narrowed == "union":
                # the variable is an instance of the class: its fields are variables of the scope
                fs = {}
                for f, T in ut[3]:
                    ln = "%s_%s" % (ut[0], f)
                    fs[f] = (ln, T)
                    self.lty[ln] = dlean(T)
                    self.bind_dty(ln, T)
                self.ufields[ut[0]] = (ut[2], fs)
            elif narrowed:
                self.narrow[nt[1]] = self.opt_expr(s.test.left)[2]
                # the narrowed value is a variable of the scope (loop bodies may capture it)
                self.lty[self.opt_expr(s.test.left)[2]] = self.opt_inner.get(self.opt_expr(s.test.left)[2]) or (
                    "Int × Int" if (isinstance(s.test.left, ast.Name) and s.test.left.id in self.optslices) else "Int")
            try:
                return self.block(stmts, i, t)
            finally:
                self.ufields = dict(saved_u)

        def head(a, b, pad2):
            """if / match around the two translated branches"""
            if ut is not None:
                return "match %s with\n%s| %s.%s %s =>\n%s\n%s| _ =>\n%s" % (
                    ut[0], pad2, ut[1][1], ut[2], " ".join("%s_%s" % (ut[0], f) for f, _ in ut[3]), a, pad2, b)
            if nt is None:
                return "if %s then\n%s\n%selse\n%s" % (cond, a, pad2, b)
            name = self.opt_expr(s.test.left)[2]
            if nt[2]:
                return "match %s with\n%s| none =>\n%s\n%s| some %s =>\n%s" % (nt[0], pad2, a, pad2, name, b)
            return "match %s with\n%s| some %s =>\n%s\n%s| none =>\n%s" % (nt[0], pad2, name, a, pad2, b)

        cond = None if (nt is not None or ut is not None) else self.p(s.test)
        my_pending, self.pending = self.pending, []
        then_narrow = "union" if ut is not None else (nt is not None and not nt[2])
        else_narrow = nt is not None and nt[2]
        if not force_dup and not self.has_exit([s]) and self.has_raising(s.body + s.orelse) and not self.loops:
            # no return / raise statement, but a raising EXPRESSION inside a branch: the branches compute
            # `Except String <tuple of the variables they assign>`, an error leaves the function
            da = self.definitely_assigned(s.body) & self.definitely_assigned(s.orelse)
            vs = [v for v in self.assigned([s]) if v in saved_l or v in da]
            if not vs:
                raise NotImplementedError("`if` without effect")
            tup = vs[0] if len(vs) == 1 else "(" + ", ".join(vs) + ")"
            a = branch(s.body, then_narrow, ind + 2, "(Except.ok %s)" % tup)
            tys_a = dict(self.lty)
            b = branch(s.orelse, else_narrow, ind + 2, "(Except.ok %s)" % tup)
            tys_b = dict(self.lty)
            self.lty, self.narrow = dict(saved_l), dict(saved_n)
            for v in vs:
                ta, tb = tys_a.get(v, saved_l.get(v)), tys_b.get(v, saved_l.get(v))
                if ta != tb:
                    raise NotImplementedError("variable %s has different types in the branches of an if" % v)
                self.lty[v] = ta
            ety = prod([self.lty[v] for v in vs])
            text = "%smatch ((%s) : Except String (%s)) with\n%s| Except.error e_ => %s\n%s| Except.ok %s =>\n" % (
                pad, head(a, b, pad + "  "), ety, pad, self.exit_with("(Except.error e_)"), pad, tup)
            text += self.block(rest, ind, tail)
            self.pending = my_pending
            return self.wrap_pending(pad, text)
        if force_dup or self.has_exit([s]) or self.has_raising(s.body + s.orelse):
            if tail is None and not self.loops and self.returns(s.body) and (self.returns(s.orelse) or not s.orelse):
                a = branch(s.body, then_narrow, ind + 1, None)
                b = branch(s.orelse if s.orelse else rest, else_narrow, ind + 1, None)
            else:
                # an exit on some path: the continuation is duplicated into both branches
                a = branch(s.body + rest, then_narrow, ind + 1, tail)
                b = branch(s.orelse + rest, else_narrow, ind + 1, tail)
            self.pending = my_pending
            return self.wrap_pending(pad, pad + head(a, b, pad))
        # no exit: both branches produce the tuple of the variables they assign
        da = self.definitely_assigned(s.body) & self.definitely_assigned(s.orelse)
        vs = [v for v in self.assigned([s]) if v in saved_l or v in da]
        if not vs:
            raise NotImplementedError("`if` without effect")
        tup = vs[0] if len(vs) == 1 else "(" + ", ".join(vs) + ")"
        a = branch(s.body, then_narrow, ind + 2, tup)
        tys_a = dict(self.lty)
        b = branch(s.orelse, else_narrow, ind + 2, tup)
        tys_b = dict(self.lty)
        self.lty, self.narrow = dict(saved_l), dict(saved_n)
        for v in vs:
            ta, tb = tys_a.get(v, saved_l.get(v)), tys_b.get(v, saved_l.get(v))
            if ta != tb:
                raise NotImplementedError("variable %s has different types in the branches of an if" % v)
            self.lty[v] = ta
        self.forget_narrow(s)
        if nt is None and ut is None:
            text = "%slet %s := (if %s then\n%s\n%s  else\n%s)\n" % (pad, tup, cond, a, pad, b)
        else:
            text = "%slet %s := (%s)\n" % (pad, tup, head(a, b, pad + "  "))
        text += self.block(rest, ind, tail)
        self.pending = my_pending
        return self.wrap_pending(pad, text)

    def loop_info(self, s):
        """(has break/continue-as-break flag, has return/raise) of a loop statement"""
        own = list(walk_no_nested_loops(s.body))
        def forever(w):
            return isinstance(w.test, ast.Constant) and w.test.value is True
        has_ret = any(isinstance(n, (ast.Return, ast.Raise)) or (isinstance(n, ast.Assert) and self.is_exc())
                      or (isinstance(n, ast.While) and not forever(n))      # its fuel may run out
                      for x in s.body for n in ast.walk(x))
        has_ret = has_ret or self.has_raising(s.body + ([s.test] if isinstance(s, ast.While) else []))
        has_brk = has_ret or any(isinstance(n, ast.Break) for n in own)
        return has_brk, has_ret

    def forget_narrow(self, s, after=False):
        """(structured subset) what is known about optionals assigned in the loop / if statement `s` is forgotten"""
        if not self.new:
            return
        names = set(self.assigned(s.body + s.orelse))
        for k in list(self.narrow):
            if any(k == ast.dump(ast.Name(id=v, ctx=ast.Load())) for v in names):
                del self.narrow[k]

    def used_outside(self, name, s):
        """is the Python variable `name` read anywhere in the function outside the loop statement `s`?
        (structured subset: reads in the body of ANOTHER `for` loop / comprehension that binds the name itself are
        reads of that binding)"""
        inside = set(id(n) for n in ast.walk(s))
        if self.new:
            for o in ast.walk(self.fn):
                if o is s:
                    continue
                if isinstance(o, ast.For) and any(isinstance(x, ast.Name) and x.id == name for x in ast.walk(o.target)):
                    inside |= set(id(n) for b in o.body for n in ast.walk(b))
                if isinstance(o, (ast.DictComp, ast.ListComp, ast.SetComp, ast.GeneratorExp)) and any(
                        isinstance(x, ast.Name) and x.id == name for g in o.generators for x in ast.walk(g.target)):
                    inside |= set(id(n) for n in ast.walk(o)) - set(
                        id(n) for n in ast.walk(o.generators[0].iter))
        return any(isinstance(n, ast.Name) and n.id == name and isinstance(n.ctx, ast.Load) and id(n) not in inside
                   for n in ast.walk(self.fn))

    def state_setup(self, s, extra_first=()):
        """state components of a loop: flags, then variables that exist before the loop and are assigned in it"""
        has_brk, has_ret = self.loop_info(s)
        body_assigned = self.assigned(s.body)
        vars_ = [v for v in list(extra_first) + body_assigned if v in self.lty]
        seen, vs = set(), []
        for v in vars_:
            if v not in seen:
                seen.add(v)
                vs.append(v)
        comps = (["brk_"] if has_brk else []) + (["ret_"] if has_ret else []) + vs
        tys = [("Bool" if c == "brk_" else "Option (%s)" % self.full_ret_ty if c == "ret_" else self.lty[c]) for c in comps]
        return has_brk, has_ret, comps, tys

    def unpack(self, pad, st, comps, tys, skip=()):
        """bind the components of the loop state `st` (an expression) to their names: a `match` on the tuple
        (so that no sub-term is duplicated when a proof unfolds the definition)"""
        if len(comps) == 1:
            return "" if comps[0] in skip else "%slet %s : %s := %s\n" % (pad, comps[0], tys[0], st)
        pat = ", ".join("_" if c in skip else c for c in comps)
        return "%smatch %s with\n%s| (%s) =>\n" % (pad, st, pad, pat)

    def after_loop(self, pad, ind, st, comps, tys, has_brk, has_ret, orelse, rest, tail):
        """code after a loop whose final state is bound to `st`"""
        text = self.unpack(pad, st, comps, tys, skip=() if (orelse and has_brk) else ("brk_",))
        cont = rest
        if has_ret:
            a = pad + "  " + (self.loops[-1].tuple("true", "(some r_)") if self.loops else "r_")
            if orelse and has_brk:
                b = "%s  if brk_ = true then\n%s\n%s  else\n%s" % (
                    pad, self.block(cont, ind + 2, tail), pad, self.block(orelse + cont, ind + 2, tail))
            else:
                b = self.block(orelse + cont, ind + 1, tail)
            return text + "%smatch ret_ with\n%s| some r_ =>\n%s\n%s| none =>\n%s" % (pad, pad, a, pad, b)
        if orelse and has_brk:
            saved = dict(self.lty)
            a = self.block(cont, ind + 1, tail)
            self.lty = dict(saved)
            b = self.block(orelse + cont, ind + 1, tail)
            return text + "%sif brk_ = true then\n%s\n%selse\n%s" % (pad, a, pad, b)
        return text + self.block(orelse + cont, ind, tail)

    def captured(self, scope, comps, text):
        """variables of the enclosing scope that the translated loop body `text` mentions (parameters of its definition)"""
        return [v for v in scope if v not in comps
                and re.search(r"(?<![\w.])%s(?![\w])" % re.escape(v), text)]

    def new_loop(self, s):
        self.nloops += 1
        return "%s_loop%d" % (self.lean_fn, self.nloops)

    def for_stmt(self, s, rest, ind, tail):
        """`for` loop: the loop body becomes a definition `<f>_loop<k> <captured variables> st_ it_` of its own
        (so that companion proofs can talk about it), the loop is `List.foldl` of it"""
        pad = "  " * ind
        name = self.new_loop(s)
        lst, ety = self.iter_expr(s.iter)
        iter_dty = self.iter_dty
        self.forget_narrow(s)
        my_pending, self.pending = self.pending, []
        if isinstance(s.target, ast.Name):
            tnames = [s.target.id]
        elif isinstance(s.target, ast.Tuple) and all(isinstance(x, ast.Name) for x in s.target.elts):
            tnames = [x.id for x in s.target.elts]
        else:
            raise NotImplementedError("loop target " + ast.dump(s.target)[:80])
        ecs = components(ety) if len(tnames) > 1 else [ety]
        if iter_dty is not None and len(iter_dty) == len(tnames):
            ecs = [dlean(T) for T in iter_dty]
        elif self.new and len(tnames) == 1 and isinstance(s.iter, ast.Name) and (self.dty.get(ident(s.iter.id)) or ("",))[0] == "list":
            iter_dty = [self.dty[ident(s.iter.id)][1]]
        if len(ecs) != len(tnames):
            raise NotImplementedError("loop target does not match the element type " + ety)
        # loop variables that live on after the loop (or existed before): part of the state
        leaked, guard = [], False
        for nm, t in zip(tnames, ecs):
            if nm == "_":
                continue
            if ident(nm) in self.lty:
                leaked.append(ident(nm))
            elif self.used_outside(nm, s):
                if t != "Int" or not self.is_exc() or self.loops:
                    raise NotImplementedError("loop variable %s is read after the loop" % nm)
                leaked.append(ident(nm))
                guard = True
        pre = ""
        if guard:
            for nm in leaked:
                if nm not in self.lty:
                    pre += "%slet %s : Int := (0 : Int)\n" % (pad, nm)
                    self.lty[nm] = "Int"
        has_brk, has_ret, comps, tys = self.state_setup(s, extra_first=leaked)
        if not comps:
            raise NotImplementedError("loop without effect")
        sty = prod(tys)
        init = Loop(comps).tuple("false", "(none : Option (%s))" % self.full_ret_ty)
        saved = dict(self.lty)
        self.loops.append(Loop(comps))
        body = self.unpack("  ", "st_", comps, tys, skip=("ret_",) if has_ret else ())
        if has_brk:
            body += "  if brk_ = true then st_ else\n"
        # bind the loop variables
        if len(tnames) == 1:
            if tnames[0] != "_":
                body += "  let %s : %s := it_\n" % (ident(tnames[0]), ety)
                self.lty[ident(tnames[0])] = ety
        else:
            for i, (nm, t) in enumerate(zip(tnames, ecs)):
                if nm != "_":
                    body += "  let %s : %s := %s\n" % (ident(nm), t, proj("it_", i, len(tnames)))
                    self.lty[ident(nm)] = t
        if iter_dty is not None and len(iter_dty) == len(tnames):
            for nm, T in zip(tnames, iter_dty):
                if nm != "_":
                    self.bind_dty(ident(nm), T)
        saved_narrow = dict(self.narrow)
        body += self.block(s.body, 1, self.loops[-1].tuple("false"))
        self.loops.pop()
        self.lty = saved
        if self.new:
            self.narrow = saved_narrow          # what an iteration learns about optionals is not known after the loop
        caps = self.captured(saved, comps, body)
        self.aux.append("/-- body of the `for` loop at line %d of `%s` -/\ndef %s %s(st_ : %s) (it_ : %s) : %s :=\n%s\n" % (
            s.lineno - self.fn.lineno + 1, self.qual, name, "".join("(%s : %s) " % (v, saved[v]) for v in caps),
            sty, ety, sty, body))
        text = pre
        if guard:
            text += "%slet l_ : List %s := %s\n" % (pad, paren(ety), lst)
            lst = "l_"
            text += "%sif %s.isEmpty = true then %s else\n" % (pad, lst, self.exit_with("(Except.error \"UnboundLocalError\")"))
        fold = "(List.foldl (%s) %s %s)" % (" ".join([name] + caps), init, lst)
        text += self.after_loop(pad, ind, fold, comps, tys, has_brk, has_ret, s.orelse, rest, tail)
        self.pending = my_pending
        return self.wrap_pending(pad, text)

    def while_stmt(self, s, rest, ind, tail):
        """`while` loop: condition and body become definitions `<f>_loop<k>_cond`, `<f>_loop<k>`; the loop is
        `pyWhile cond body fuel init`"""
        pad = "  " * ind
        name = self.new_loop(s)
        self.forget_narrow(s)
        has_brk, has_ret, comps, tys = self.state_setup(s)
        if not comps:
            raise NotImplementedError("loop without effect")
        sty = prod(tys)
        init = Loop(comps).tuple("false", "(none : Option (%s))" % self.full_ret_ty)
        forever = isinstance(s.test, ast.Constant) and s.test.value is True
        self.uses_fuel = True
        saved = dict(self.lty)
        where = "at line %d of `%s`" % (s.lineno - self.fn.lineno + 1, self.qual)
        if forever and not has_brk:
            # an infinite loop: only meaningful in a generator, observed through its first `fuel` iterations
            if not self.base().startswith("gen:") or rest or s.orelse or self.loops:
                raise NotImplementedError("`while True` without break outside a generator / followed by code")
            self.loops.append(Loop(comps))
            body = self.unpack("  ", "st_", comps, tys) + self.block(s.body, 1, self.loops[-1].tuple())
            self.loops.pop()
            self.lty = saved
            caps = self.captured(saved, comps, body)
            self.aux.append("/-- body of the `while True` loop %s -/\ndef %s %s(st_ : %s) (_ : Nat) : %s :=\n%s\n" % (
                where, name, "".join("(%s : %s) " % (v, saved[v]) for v in caps), sty, sty, body))
            fold = "(List.foldl (%s) %s (List.range fuel))" % (" ".join([name] + caps), init)
            return self.unpack(pad, fold, comps, tys) + self.block([], ind, tail)
        if not self.is_exc():
            raise NotImplementedError("a while loop in a function not declared exc: (fuel may run out)")
        raising_cond = not forever and self.has_raising([s.test])
        self.loops.append(Loop(comps))
        if raising_cond:
            # the condition can raise: it is evaluated at the start of the body (`while True: if not c: break; ...`)
            c = "true"
            head = "  match %s with\n  | Except.error e_ => %s\n  | Except.ok false => %s\n  | Except.ok true =>\n" % (
                self.pexc(s.test), self.exit_with("(Except.error e_)"), self.loops[-1].tuple("true"))
        else:
            self.cond_depth += 1
            c = "true" if forever else self.b(s.test)
            self.cond_depth -= 1
            head = ""
        cond = self.unpack("  ", "st_", comps, tys, skip=("ret_",)) + "  " + (("(!brk_ && %s)" % c) if has_brk else c)
        saved_narrow = dict(self.narrow)
        body = self.unpack("  ", "st_", comps, tys, skip=("ret_", "brk_")) + head + self.block(s.body, 1, self.loops[-1].tuple("false"))
        self.loops.pop()
        self.lty = saved
        if self.new:
            self.narrow = saved_narrow
        ccaps = self.captured(saved, comps, cond)
        caps = self.captured(saved, comps, body)
        self.aux.append("/-- condition of the `while` loop %s -/\ndef %s_cond %s(st_ : %s) : Bool :=\n%s\n" % (
            where, name, "".join("(%s : %s) " % (v, saved[v]) for v in ccaps), sty, cond))
        self.aux.append("/-- body of the `while` loop %s -/\ndef %s %s(st_ : %s) : %s :=\n%s\n" % (
            where, name, "".join("(%s : %s) " % (v, saved[v]) for v in caps), sty, sty, body))
        fuel_exit = self.exit_with("(Except.error \"fuel\")")
        text = "%smatch pyWhile (%s) (%s) fuel %s with\n%s| none => %s\n%s| some st_ =>\n" % (
            pad, " ".join([name + "_cond"] + ccaps), " ".join([name] + caps), init, pad, fuel_exit, pad)
        text += self.after_loop(pad + "  ", ind + 1, "st_", comps, tys, has_brk, has_ret, s.orelse, rest, tail)
        return self.wrap_pending(pad, text)


def int_enums(tree, values_only=True):
    """IntEnum classes of a file: name -> member values (every member must be `name = <int literal>`)"""
    out = {}
    for c in ast.walk(tree):
        if not isinstance(c, ast.ClassDef):
            continue
        if not any((isinstance(b, ast.Name) and b.id == "IntEnum") or (isinstance(b, ast.Attribute) and b.attr == "IntEnum")
                   for b in c.bases):
            continue
        vals, names, ok = [], {}, True
        for n in c.body:
            if isinstance(n, ast.Assign):
                if (len(n.targets) == 1 and isinstance(n.targets[0], ast.Name) and isinstance(n.value, ast.Constant)
                        and isinstance(n.value.value, int) and not isinstance(n.value.value, bool)):
                    vals.append(n.value.value)
                    names[n.targets[0].id] = n.value.value
                else:
                    ok = False
        if ok and vals:
            out[c.name] = vals if values_only else names
    return out


def visible_enums(repo, rel, tree):
    """IntEnum classes usable as `Enum.member` in a file: its own and those imported by
    `from <module of the repo> import Name` (no aliases): name -> {member: value}"""
    out = dict(int_enums(tree, values_only=False))
    pkg = os.path.dirname(rel).split("/")
    for n in tree.body:
        if not isinstance(n, ast.ImportFrom) or n.module is None:
            continue
        parts = (pkg[:len(pkg) - (n.level - 1)] if n.level else []) + n.module.split(".")
        path = os.path.join(repo, *parts) + ".py"
        if not os.path.exists(path):
            continue
        en = int_enums(ast.parse(open(path).read()), values_only=False)
        for a in n.names:
            if a.asname is None and a.name in en:
                out[a.name] = en[a.name]
    return out


def module_enums(repo, rel, tree):
    """modules of the repo imported as a name (`from . import consts`, `from rig.machine_control import consts`):
    name -> {Enum: {member: value}}"""
    out = {}
    pkg = os.path.dirname(rel).split("/")
    for n in tree.body:
        if not isinstance(n, ast.ImportFrom):
            continue
        base = (pkg[:len(pkg) - (n.level - 1)] if n.level else []) + (n.module.split(".") if n.module else [])
        for a in n.names:
            path = os.path.join(repo, *(base + [a.name])) + ".py"
            init = os.path.join(repo, *(base + [a.name, "__init__.py"]))
            if a.asname is None and os.path.exists(path):
                out[a.name] = int_enums(ast.parse(open(path).read()), values_only=False)
            elif a.asname is None and os.path.exists(init):
                # a package: the IntEnum classes its __init__ re-exports by `from <module of the repo> import Name`
                out[a.name] = visible_enums(repo, os.path.join(*(base + [a.name, "__init__.py"])),
                                            ast.parse(open(init).read()))
    return out


def module_str_consts(repo, rel, tree):
    """`module.NAME` string constants of modules imported as a name: module -> {NAME: str}"""
    out = {}
    pkg = os.path.dirname(rel).split("/")
    for n in tree.body:
        if not isinstance(n, ast.ImportFrom):
            continue
        base = (pkg[:len(pkg) - (n.level - 1)] if n.level else []) + (n.module.split(".") if n.module else [])
        for a in n.names:
            path = os.path.join(repo, *(base + [a.name])) + ".py"
            if a.asname is None and os.path.exists(path):
                t = ast.parse(open(path).read())
                names = [x.id for m in ast.walk(t) if isinstance(m, ast.Assign) for x in m.targets if isinstance(x, ast.Name)]
                out[a.name] = dict((m.targets[0].id, m.value.value) for m in t.body if isinstance(m, ast.Assign)
                                   and len(m.targets) == 1 and isinstance(m.targets[0], ast.Name)
                                   and isinstance(m.value, ast.Constant) and isinstance(m.value.value, str)
                                   and names.count(m.targets[0].id) == 1)
    return out


def find_def(tree, rel, qual):
    qual = qual.partition("@")[0]
    scope, cls = tree, None
    parts = qual.split(".")
    if len(parts) > 3:
        raise NotImplementedError("nested name " + qual)
    if len(parts) == 3:
        # Class.method.nested: a function defined inside a method
        outer, _ = find_def(tree, rel, ".".join(parts[:2]))
        fn = [n for n in ast.walk(outer) if isinstance(n, ast.FunctionDef) and n.name == parts[2] and n is not outer]
        if len(fn) != 1:
            raise NotImplementedError("%s: %d definitions of %s" % (rel, len(fn), qual))
        return fn[0], parts[0]
    if len(parts) == 2:
        cs = [n for n in tree.body if isinstance(n, ast.ClassDef) and n.name == parts[0]]
        if len(cs) != 1:
            raise NotImplementedError("%s: %d definitions of class %s" % (rel, len(cs), parts[0]))
        scope, cls = cs[0], parts[0]
        fn = []
        for cname in class_mro(tree, parts[0]):        # the method may be inherited (single inheritance, same file)
            c = [n for n in tree.body if isinstance(n, ast.ClassDef) and n.name == cname]
            fn = [n for n in c[0].body if isinstance(n, ast.FunctionDef) and n.name == parts[1]] if c else []
            if fn:
                break
    else:
        fn = [n for n in ast.walk(tree) if isinstance(n, ast.FunctionDef) and n.name == qual]
    if len(fn) != 1:
        raise NotImplementedError("%s: %d definitions of %s" % (rel, len(fn), qual))
    return fn[0], cls


def check_dict_uses(fn, tr):
    """(structured subset) every declared dict variable is created exactly once (`{}`, a dict comprehension,
    `defaultdict(...)`): that statement fixes the defaults of missing keys (`tr.chain`).  Reading `d[k]` on a
    defaultdict also INSERTS the default; the translation keeps only the value, which is sound when the insertion
    cannot be observed: a defaultdict that is read by subscript must not be iterated, measured, tested with `in`,
    copied, returned or passed on, and `.get(k, x)` on it must give a default equal to the factory's (checked where
    `.get` is translated)."""
    for name, T in tr.vartypes.items():
        if T[0] != "dict":
            continue
        creations = [n for n in ast.walk(fn) if isinstance(n, ast.Assign) and any(
            isinstance(t, ast.Name) and t.id == name for t in n.targets)]
        if len(creations) != 1 or len(creations[0].targets) != 1:
            raise NotImplementedError("dict variable %s must be assigned exactly once" % name)
        v = creations[0].value
        ch = dict_creation(v)
        if ch is None:
            if not isinstance(v, ast.DictComp):
                raise NotImplementedError("creation of the dict variable " + name)
            ch = [None]
        tr.chain[name] = ch + [None] * 4
        if ch[0] is None:
            continue
        # a defaultdict: classify every use of the name
        parents = {}
        for n in ast.walk(fn):
            for c in ast.iter_child_nodes(n):
                parents[id(c)] = n
        pure_reads, other = 0, 0
        for n in ast.walk(fn):
            if not (isinstance(n, ast.Name) and n.id == name and isinstance(n.ctx, ast.Load)):
                continue
            par = parents.get(id(n))
            if isinstance(par, ast.Subscript) and par.value is n:
                # d[k]...: a store / append target creates the key for real (modelled); anything else is a read
                top = par
                while isinstance(parents.get(id(top)), ast.Subscript) and parents[id(top)].value is top:
                    top = parents[id(top)]
                pp = parents.get(id(top))
                is_store = isinstance(top.ctx, ast.Store)
                is_append = (isinstance(pp, ast.Attribute) and pp.attr == "append" and isinstance(parents.get(id(pp)), ast.Call)
                             and parents[id(pp)].func is pp and isinstance(parents.get(id(parents[id(pp)])), ast.Expr))
                if not (is_store or is_append):
                    pure_reads += 1
            elif isinstance(par, ast.Attribute) and par.attr == "get" and isinstance(parents.get(id(par)), ast.Call):
                pass                               # .get never inserts
            else:
                other += 1                         # iterated, passed on, returned, ...
        if pure_reads and other:
            raise NotImplementedError("defaultdict %s is read by subscript (which inserts) and also observed as a whole" % name)


def translate(repo, rel, fname, ptypes, ret, done=None):
    if ret == "exc_int":
        ret = "exc:int"
    tree = ast.parse(open(os.path.join(repo, rel)).read())
    fn, cls = find_def(tree, rel, fname)
    if any(t.startswith("->") for t in ptypes):
        # `def f(a): ...; def g(x): ...; return g`: translated as the function of both parameter lists
        inner_name = [t for t in ptypes if t.startswith("->")][0][2:]
        ptypes = [t for t in ptypes if not t.startswith("->")]
        body = [x for x in fn.body if not (isinstance(x, ast.Expr) and isinstance(x.value, ast.Constant))]
        if (len(body) < 2 or not isinstance(body[-2], ast.FunctionDef) or body[-2].name != inner_name
                or not (isinstance(body[-1], ast.Return) and isinstance(body[-1].value, ast.Name)
                        and body[-1].value.id == inner_name)):
            raise NotImplementedError("%s does not end in `def %s(..): ...; return %s`" % (fname, inner_name, inner_name))
        inner = body[-2]
        ia = inner.args
        if inner.decorator_list or ia.vararg or ia.kwarg or ia.kwonlyargs or ia.defaults:
            raise NotImplementedError("%s: inner function %s" % (fname, inner_name))
        outer_names = set(x.arg for x in fn.args.args) | set(
            t.id for m in body[:-2] for w in ast.walk(m) if isinstance(w, (ast.Assign, ast.AugAssign))
            for t in (w.targets if isinstance(w, ast.Assign) else [w.target]) if isinstance(t, ast.Name))
        if any(x.arg in outer_names for x in ia.args):
            raise NotImplementedError("%s: a parameter of %s hides a variable of the outer function" % (fname, inner_name))
        fn = ast.FunctionDef(name=fn.name, args=ast.arguments(posonlyargs=[], args=fn.args.args + ia.args, vararg=fn.args.vararg,
                             kwonlyargs=fn.args.kwonlyargs, kw_defaults=[], kwarg=fn.args.kwarg, defaults=[]),
                             body=body[:-2] + inner.body, decorator_list=fn.decorator_list, lineno=fn.lineno)
    nested_def = fname.partition("@")[0].count(".") == 2
    if nested_def:
        cls = None
    fn.decorator_list = [d for d in fn.decorator_list if not (
        isinstance(d, ast.Call) and not d.args and not d.keywords and isinstance(d.func, ast.Attribute)
        and d.func.attr in TRANSPARENT_DECORATORS)]
    decos = [d.id for d in fn.decorator_list if isinstance(d, ast.Name)]
    if len(decos) != len(fn.decorator_list) or any(
            d not in ("property", "classmethod", "staticmethod") + GUARDS for d in decos):
        raise NotImplementedError("%s: decorators" % fname)
    a = fn.args
    if a.vararg or a.kwarg or a.kwonlyargs or getattr(a, "posonlyargs", []):
        raise NotImplementedError("%s: parameter kinds" % fname)
    params = [x.arg for x in a.args]
    # declared local variables (`var:<name>=optslice`: None or slice(a, b) of ints)
    var_types = dict(t[4:].split("=", 1) for t in ptypes if t.startswith("var:"))
    ptypes = [t for t in ptypes if not t.startswith("var:")]
    # (structured subset) declared local variables of dict types
    struct_vars = dict((k, parse_ty(v)) for k, v in var_types.items() if "[" in v)
    var_types = dict((k, v) for k, v in var_types.items() if "[" not in v)
    new_style = bool(struct_vars) or any("[" in t or t.startswith("env:") for t in ptypes)
    if any(v != "optslice" for v in var_types.values()):
        raise NotImplementedError("%s: variable types %r" % (fname, var_types))
    # a local object (`local:<name>=obj:...`): its attributes - as the constructor leaves them - are parameters
    local_obj = [t[6:].split("=", 1) for t in ptypes if t.startswith("local:")]
    ptypes = [t for t in ptypes if not t.startswith("local:")]
    if len(local_obj) > 1:
        raise NotImplementedError("%s: more than one local object" % fname)
    # closure variables of a nested function (`name=type` entries after the parameters): extra parameters
    closure = [t.split("=", 1) for t in ptypes if "=" in t and not t.startswith("env:")]
    ptypes = [t for t in ptypes if "=" not in t or t.startswith("env:")]
    if closure and fname.count(".") < 2 and not nested_def:
        raise NotImplementedError("%s: closure variables of a function that is not nested" % fname)
    params = params + [c[0] for c in closure]
    ptypes = ptypes + [c[1] for c in closure]
    if local_obj:
        if any(p_ == local_obj[0][0] for p_ in params):
            raise NotImplementedError("%s: local object named like a parameter" % fname)
        params = [params[0]] * (params[:1] == ["cls"]) + [local_obj[0][0]] + params[(params[:1] == ["cls"]):]
        ptypes = [local_obj[0][1]] + ptypes
    is_classmethod = "classmethod" in decos
    if is_classmethod:
        if params[:1] != ["cls"]:
            raise NotImplementedError("%s: classmethod without cls" % fname)
        params = params[1:]
    if len(params) != len(ptypes):
        raise NotImplementedError("%s: parameters %r" % (fname, params))
    local_enums = int_enums(tree)
    attrs, aty, types, sig, recs, lty, skipped, objname = [], [], {}, [], {}, {}, [], "self"
    envs, struct_params = {}, {}
    dict_params = []
    for p, t in zip(params, ptypes):
        if t.startswith("obj:"):
            if attrs or (p != "self" and cls is not None and not nested_def and not local_obj):
                raise NotImplementedError("%s: obj parameter %s" % (fname, p))
            objname = p
            main, _, skip = t[4:].partition(";skip:")
            skipped = [x for x in skip.split(",") if x]
            spec = [x for x in main.split(",") if x]
            attrs = [x.split(":")[0] for x in spec]
            aty = [{"b": "Bool", "y": "List Int", "o": "Option Int", "s2": "List (Int × Int)",
                    "s3": "List (Int × Int × Int)"}.get(x.split(":")[1], None) if ":" in x else "Int"
                   for x in spec]
            if None in aty:
                raise NotImplementedError("%s: attribute type in %s" % (fname, t))
            types[p] = "obj"
            sig += ["(%s_%s : %s)" % (p, x, ty_) for x, ty_ in zip(attrs, aty)]
            for x, ty_ in zip(attrs, aty):
                lty[p + "_" + x] = ty_
        elif t == "ignored":
            types[p] = "ignored"       # a parameter the body must not read (e.g. a parent object that is only stored)
        elif t.startswith("env:"):
            # an object of the environment: declared attributes are parameters, `obj[k]` is a function parameter
            # (what the object answers - a value or an exception - is an input of the generated definition)
            types[p] = "env"
            spec = {"attrs": {}}
            for item in split_top(t[4:], ";"):
                a, _, ty_ = item.partition("=")
                if a == "getitem":
                    kt, _, vt = ty_.partition("->")
                    spec["getitem"] = (parse_ty(kt), parse_ty(vt))
                    sig.append("(%s_getitem : %s → Except String %s)" % (ident(p), paren(dlean(spec["getitem"][0])),
                                                                        paren(dlean(spec["getitem"][1]))))
                    lty["%s_getitem" % ident(p)] = "%s → Except String %s" % (
                        paren(dlean(spec["getitem"][0])), paren(dlean(spec["getitem"][1])))
                else:
                    spec["attrs"][a] = parse_ty(ty_)
                    sig.append("(%s_%s : %s)" % (ident(p), a, dlean(spec["attrs"][a])))
                    lty["%s_%s" % (ident(p), a)] = dlean(spec["attrs"][a])
            envs[p] = spec
        elif "[" in t:
            T = parse_ty(t, "%s_%s_elem" % (lean_name(fname), p))
            types[p] = "struct"
            sig.append("(%s : %s)" % (ident(p), dlean(T)))
            lty[ident(p)] = dlean(T)
            struct_params[ident(p)] = T
        else:
            if p == "self" and not (t == "int" and cls in local_enums) and not t.startswith("rec:"):
                raise NotImplementedError("%s: self : %s outside an IntEnum class" % (fname, t))
            types[p] = t
            sig.append("(%s : %s)" % (ident(p), lean_ty(t)))
            lty[ident(p)] = lean_ty(t)
            if t.startswith("list:rec:"):
                types[p] = "list"
            if t.startswith("rec:"):
                recs[ident(p)] = t[4:].split(",")
            if t == "dict":
                dict_params.append(ident(p))
    tr = Tr(types, cls=cls, enums=visible_enums(repo, rel, tree), done=done, attrs=attrs, recs=recs)
    tr.local_enums = local_enums
    tr.module_enums = module_enums(repo, rel, tree)
    tr.module_strs = module_str_consts(repo, rel, tree)
    tr.obj_spec = next((t for t in ptypes if t.startswith("obj:")), None)
    tr.attr_specs = [x for x in (tr.obj_spec or "obj:")[4:].split(";")[0].split(",") if x]
    tr.objname = objname
    tr.recs.update(recs)
    tr.dicts = set(dict_params)
    tr.local_obj = bool(local_obj)
    tr.optslices = set(var_types)
    tr.new = new_style
    tr.env = envs
    tr.loop_targets = set(x.id for n in ast.walk(fn) if isinstance(n, ast.For) for x in ast.walk(n.target)
                          if isinstance(x, ast.Name))
    if new_style:
        tr.vartypes = dict(struct_vars)
        for v in var_types:
            tr.vartypes[v] = ("opt", ("slice",))
        for nm, T in struct_params.items():
            tr.dty[nm] = T
        for v in tr.optslices:
            tr.dty[ident(v)] = ("opt", ("slice",))

        def unions(T):
            if T[0] == "union":
                yield T
            for x in T[1:]:
                if isinstance(x, tuple) and x and isinstance(x[0], str) and T[0] != "union":
                    for u in unions(x):
                        yield u
        for T in struct_params.values():
            for u in unions(T):
                tr.aux.append(union_decl(u))
        check_dict_uses(fn, tr)
    tr.mro = class_mro(tree, cls) if cls else [None]
    tr.consts = dict((k, v) for k, v in module_int_consts(tree).items())
    tr.lty = lty
    tr.ret = ret
    tr.fn = fn
    tr.qual = fname
    tr.lean_fn = lean_name(fname)
    tr.lty["fuel"] = "Nat"            # the extra parameter of functions with `while` loops
    tr.is_classmethod = is_classmethod
    tr.classes = set(n.name for n in tree.body if isinstance(n, ast.ClassDef))
    tr.imports_log = any(isinstance(n, ast.ImportFrom) and n.module == "math" and any(
        al.name == "log" and al.asname is None for al in n.names) for n in tree.body)
    tr.imports_sqrt = any(isinstance(n, ast.ImportFrom) and n.module == "math" and any(
        al.name == "sqrt" and al.asname is None for al in n.names) for n in tree.body)
    tr.rec_elems = dict((ident(p), t[9:].split(",")) for p, t in zip(params, ptypes) if t.startswith("list:rec:"))
    tr.assigned_anywhere_py = set()
    tr.assigned_anywhere = set()
    for n in ast.walk(fn):
        if isinstance(n, (ast.Assign, ast.AugAssign, ast.For)):
            for t in (n.targets if isinstance(n, ast.Assign) else [n.target]):
                for x in ast.walk(t):
                    if isinstance(x, ast.Name):
                        tr.assigned_anywhere.add(ident(x.id))
    def live_assigned(stmts):
        for st_ in stmts:
            if isinstance(st_, ast.If):
                v = tr.static_test(st_.test)
                for x in live_assigned((st_.body if v is not False else []) + (st_.orelse if v is not True else [])):
                    yield x
            elif isinstance(st_, (ast.For, ast.While)):
                for x in live_assigned(st_.body + st_.orelse):
                    yield x
                if isinstance(st_, ast.For):
                    for x in ast.walk(st_.target):
                        if isinstance(x, ast.Name):
                            yield x.id
            elif isinstance(st_, (ast.Assign, ast.AugAssign)):
                for t in (st_.targets if isinstance(st_, ast.Assign) else [st_.target]):
                    for x in ast.walk(t):
                        if isinstance(x, ast.Name):
                            yield x.id
            elif isinstance(st_, ast.Try):
                for x in live_assigned(st_.body + st_.orelse + st_.finalbody + [h for hh in st_.handlers for h in hh.body]):
                    yield x
    # two passes: a parameter assigned only in code that is dead by its declared type keeps that type
    tr.assigned_anywhere_py = set()
    tr.assigned_anywhere_py = set(live_assigned(fn.body))
    base = ret[4:] if ret.startswith("exc:") else ret
    events = base.startswith("ev:")
    if events:
        base = base[3:]
    stream = base.startswith(("gen:", "calls:"))
    if events and stream:
        raise NotImplementedError("ev: together with gen: / calls:")
    if stream:
        rty = lean_ty(base)
        if any(tr_assigns_attr(n) for n in ast.walk(fn)):
            raise NotImplementedError("a generator / effect function that assigns attributes of self")
    elif base == "none":
        rty = prod(aty) if attrs else "Unit"
    else:
        rty = lean_ty(base) if not attrs else prod([lean_ty(base)] + aty)
    if events:
        rty = "List PyEvent" if rty == "Unit" else prod([rty, "List PyEvent"]) if " × " not in rty else rty + " × List PyEvent"
        tr.lty["out_"] = "List PyEvent"
    if ret.startswith("exc:"):
        rty = "Except String " + paren(rty)
    tr.full_ret_ty = rty
    # what falling off the end of the function means
    if stream:
        tr.lty["out_"] = lean_ty(base)
        tr.fn_tail = lambda: tr.ret_value(None)
    elif base == "none":
        tr.fn_tail = lambda: tr.ret_value(None)
    else:
        tr.fn_tail = None
    # assigning state: `self.x = e` where x is ignored-typed parameter's storage (`self._parent = parent`) is dropped
    body_stmts = drop_skipped([s for s in fn.body if not is_ignored_store(s, types)], skipped)
    # record-typed loop variables: `for entry in entries` binds a record
    orig_for = tr.for_stmt

    def for_stmt(s, rest, ind, tail):
        if isinstance(s.iter, ast.Name) and ident(s.iter.id) in tr.rec_elems and isinstance(s.target, ast.Name):
            tr.recs[ident(s.target.id)] = tr.rec_elems[ident(s.iter.id)]
        return orig_for(s, rest, ind, tail)
    tr.for_stmt = for_stmt
    body = tr.block(body_stmts, 1)
    if stream:
        body = "  let out_ : %s := []\n" % lean_ty(base) + body
    if events:
        body = "  let out_ : List PyEvent := []\n" + body
    sig += ["(%s : %s)" % o for o in tr.oracles]
    if tr.uses_float or "float" in ptypes:
        sig = ["{φ : Type}", "(F : PyFloatOps φ)"] + sig
    if tr.uses_fuel:
        sig.append("(fuel : Nat)")
    assigns_state = any(tr_assigns_attr(n) for n in ast.walk(fn))
    return ("\n".join(tr.aux + [""])[:-1 if not tr.aux else None] + "/-- generated from `%s:%s` -/\ndef %s %s : %s :=\n%s\n" % (
        rel, fname, lean_name(fname), " ".join(sig), rty, body), assigns_state)


def tr_assigns_attr(n):
    if isinstance(n, (ast.Assign, ast.AugAssign)):
        ts = n.targets if isinstance(n, ast.Assign) else [n.target]
        ts = [x for t in ts for x in (t.elts if isinstance(t, ast.Tuple) else [t])]
        return any(isinstance(t, ast.Attribute) and isinstance(t.value, ast.Name) for t in ts)
    return False


def class_mro(tree, cls):
    """the class and its (single-inheritance, same file) base classes"""
    out = [cls]
    by = dict((c.name, c) for c in tree.body if isinstance(c, ast.ClassDef))
    while out[-1] in by and len(by[out[-1]].bases) == 1 and isinstance(by[out[-1]].bases[0], ast.Name) \
            and by[out[-1]].bases[0].id in by:
        out.append(by[out[-1]].bases[0].id)
    return out


def module_int_consts(tree):
    out = {}
    for n in tree.body:
        if (isinstance(n, ast.Assign) and len(n.targets) == 1 and isinstance(n.targets[0], ast.Name)
                and isinstance(n.value, ast.Constant) and isinstance(n.value.value, int)
                and not isinstance(n.value.value, bool)):
            out[n.targets[0].id] = n.value.value
    # a name assigned twice is not a constant
    names = [t.id for n in ast.walk(tree) if isinstance(n, (ast.Assign, ast.AugAssign))
             for t in (n.targets if isinstance(n, ast.Assign) else [n.target]) if isinstance(t, ast.Name)]
    return dict((k, v) for k, v in out.items() if names.count(k) == 1)


def drop_skipped(stmts, skipped):
    """remove the stores `self.<a> = ...` of attributes declared `skip:` (objects that are not modelled; reading
    such an attribute is unsupported anyway) and `if` statements that contain nothing else"""
    if not skipped:
        return stmts
    out = []
    for s in stmts:
        if (isinstance(s, ast.Assign) and len(s.targets) == 1 and isinstance(s.targets[0], ast.Attribute)
                and isinstance(s.targets[0].value, ast.Name) and s.targets[0].value.id == "self"
                and s.targets[0].attr in skipped):
            continue
        if isinstance(s, ast.If):
            body, orelse = drop_skipped(s.body, skipped), drop_skipped(s.orelse, skipped)
            if not body and not orelse:
                continue
            s = ast.If(test=s.test, body=body or [ast.Pass()], orelse=orelse)
        out.append(s)
    return out


def is_ignored_store(s, types):
    """`self.<anything> = <ignored parameter>` / `self.closed = False`-like stores of non-integer state that the
    declared integer state does not include are NOT dropped silently - only the store of an `ignored` parameter is"""
    return (isinstance(s, ast.Assign) and len(s.targets) == 1 and isinstance(s.targets[0], ast.Attribute)
            and isinstance(s.value, ast.Name) and types.get(s.value.id) == "ignored")


def gen_pyfun(repo):
    s = HEADER + "import Mathlib.Data.Int.Bitwise\nimport RigModel.Gen.Spinn5\nimport RigModel.Gen.Links\nimport RigModel.Gen.Scp\nimport RigModel.Gen.LoadSig\nset_option linter.unusedVariables false\nnamespace Rig.Gen.PyFun\n\n"
    s += PRELUDE
    done = {}
    for rel, fname, ptypes, ret in FUNCS:
        try:
            text, assigns = translate(repo, rel, fname, ptypes, ret, done)
            s += text + "\n"
            done[fname] = ("exc:int" if ret == "exc_int" else ret, list(ptypes), assigns)
        except Exception as e:      # noqa
            # The function no longer fits the translated subset (or vanished).  Its definition is
            # omitted, so exactly the companion modules that prove something about it stop building
            # (a broken obligation of those properties only) instead of the whole file going stale.
            s += "-- NOT TRANSLATED: %s:%s (%s)\n\n" % (rel, fname, str(e).replace("\n", " ")[:200])
    s += "end Rig.Gen.PyFun\n"
    return s, len(FUNCS)


GENERATORS = {"PyFun": gen_pyfun}
