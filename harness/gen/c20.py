"""Translator part for C20: boot constants of rig/machine_control/boot.py (by
AST, no import) and the struct tables of rig/boot/sark.struct by an
INDEPENDENT parse (this file does not use rig's read_struct_file; the harness
cross-checks the two parses on every run)."""
import ast
import os
import re
from harness.gen_tables import HEADER, read_source, lean_list

BOOT = "rig/machine_control/boot.py"
CONSTS = "rig/machine_control/consts.py"
STRUCT = "rig/boot/sark.struct"

# Perl pack letters of the struct file -> Python struct characters, as
# documented in struct_file.py.  Read from the source (a dict literal).
def perl_packs(repo):
    tree = ast.parse(read_source(repo, "rig/machine_control/struct_file.py"))
    for node in tree.body:
        if isinstance(node, ast.Assign) and getattr(node.targets[0], "id", None) == "perl_to_python_packs":
            d = ast.literal_eval(node.value)
            return {k.decode(): v.decode() for k, v in d.items()}
    raise ValueError("perl_to_python_packs not found")


def _ev(node, env):
    if isinstance(node, ast.Constant) and isinstance(node.value, int) and not isinstance(node.value, bool):
        return node.value
    if isinstance(node, ast.Name):
        return env[node.id]
    if isinstance(node, ast.BinOp):
        a, b = _ev(node.left, env), _ev(node.right, env)
        ops = {ast.Add: lambda: a + b, ast.Sub: lambda: a - b, ast.Mult: lambda: a * b,
               ast.FloorDiv: lambda: a // b, ast.LShift: lambda: a << b, ast.BitOr: lambda: a | b}
        return ops[type(node.op)]()
    raise ValueError("not a constant integer expression")


def int_consts(repo, rel):
    """top-level NAME = <integer expression over earlier names>"""
    env = {}
    for node in ast.parse(read_source(repo, rel)).body:
        if isinstance(node, ast.Assign) and len(node.targets) == 1 and isinstance(node.targets[0], ast.Name):
            try:
                env[node.targets[0].id] = _ev(node.value, env)
            except Exception:
                pass
    return env


def boot_consts(repo):
    tree = ast.parse(read_source(repo, BOOT))
    env = int_consts(repo, BOOT)
    out = {k: env[k] for k in ("DTCM_SIZE", "BOOT_BYTE_SIZE", "BOOT_WORD_SIZE", "BOOT_MAX_BLOCKS",
                               "BOOT_DATA_OFFSET", "BOOT_DATA_LENGTH")}
    out["BOOT_PORT"] = int_consts(repo, CONSTS)["BOOT_PORT"]
    opts = {}
    for node in tree.body:
        if isinstance(node, ast.Assign) and isinstance(node.targets[0], ast.Name):
            m = re.match(r"spin(\d+)_boot_options$", node.targets[0].id)
            if m:
                opts[int(m.group(1))] = ast.literal_eval(node.value)
        if isinstance(node, ast.ClassDef) and node.name == "BootCommand":
            for s in node.body:
                if isinstance(s, ast.Assign):
                    out["CMD_" + s.targets[0].id.upper()] = ast.literal_eval(s.value)
        if isinstance(node, ast.FunctionDef) and node.name == "boot_packet":
            for s in ast.walk(node):
                if isinstance(s, ast.Assign) and getattr(s.targets[0], "id", None) == "PROTOCOL_VERSION":
                    out["PROTOCOL_VERSION"] = ast.literal_eval(s.value)
                if isinstance(s, ast.Constant) and isinstance(s.value, str) and s.value.startswith("!"):
                    out.setdefault("FORMATS", []).append(s.value)
    out["OPTIONS"] = opts
    return out


def _num(tok):
    return int(tok, 16) if re.match(r"0[xX][0-9a-fA-F]+", tok) else int(tok)


def parse_struct_text(text, packs):
    """Independent parse of a struct file.  Returns an ordered list of
    (name, size, base, fields) with fields an ordered list of
    (fname, python_pack, offset, printf, default, length).  A repeated field
    name replaces the earlier definition but keeps its position (the file is
    documented to define a mapping name -> field)."""
    structs = []
    cur = None
    for line in text.splitlines():
        line = line.split("#", 1)[0].strip()
        if not line:
            continue
        toks = line.split()
        if len(toks) == 3 and toks[1] == "=":
            if toks[0] == "name":
                cur = [toks[2], None, None, []]
                names = [s[0] for s in structs]
                if toks[2] in names:
                    structs[names.index(toks[2])] = cur
                else:
                    structs.append(cur)
            elif toks[0] == "size":
                cur[1] = _num(toks[2])
            elif toks[0] == "base":
                cur[2] = _num(toks[2])
            else:
                raise ValueError("unknown header " + toks[0])
        elif len(toks) == 5:
            fname, pack, off, printf, default = toks
            m = re.match(r"([A-Za-z_])(\d+)", pack)
            pypack = (m.group(2) + packs[m.group(1)]) if m else packs[pack]
            length = 1
            m = re.match(r"(\w+)\[(\d+)\]", fname)
            if m:
                fname, length = m.group(1), _num(m.group(2))
            entry = (fname, pypack, _num(off), printf, _num(default), length)
            names = [f[0] for f in cur[3]]
            if fname in names:
                cur[3][names.index(fname)] = entry
            else:
                cur[3].append(entry)
        else:
            raise ValueError("bad line %r" % line)
    for s in structs:
        if s[1] is None or s[2] is None:
            raise ValueError("size/base missing for " + s[0])
    return [tuple(s) for s in structs]


def parse_struct_file(repo):
    return parse_struct_text(read_source(repo, STRUCT), perl_packs(repo))


def lstr(s):
    return '"%s"' % s.replace("\\", "\\\\").replace('"', '\\"')


def lean_field(f):
    return "(%s, %s, %d, %s, (%d : Int), %d)" % (lstr(f[0]), lstr(f[1]), f[2], lstr(f[3]), f[4], f[5])


def gen_boot(repo):
    c = boot_consts(repo)
    structs = parse_struct_file(repo)
    img = os.path.getsize(os.path.join(repo, "rig/boot/scamp.boot"))
    s = HEADER + "namespace Rig.Gen.C20Boot\n"
    n = 0
    for k in ("DTCM_SIZE", "BOOT_BYTE_SIZE", "BOOT_WORD_SIZE", "BOOT_MAX_BLOCKS", "BOOT_DATA_OFFSET",
              "BOOT_DATA_LENGTH", "BOOT_PORT", "CMD_START", "CMD_SEND_BLOCK", "CMD_END", "PROTOCOL_VERSION"):
        s += "@[reducible] def %s : Nat := %d\n" % (k, c[k])
        n += 1
    s += "def headerFormats : List String := %s\n" % lean_list(sorted(set(c.get("FORMATS", []))), lstr)
    s += "def spinOptions : List (Nat × List (String × Int)) := %s\n" % lean_list(
        sorted(c["OPTIONS"].items()),
        lambda kv: "(%d, %s)" % (kv[0], lean_list(list(kv[1].items()), lambda p: "(%s, (%d : Int))" % (lstr(p[0]), p[1]))))
    s += "def scampBootLength : Nat := %d\n" % img
    n += 3
    s += "/-- (name, size, base, [(field, python pack chars, offset, printf, default, array length)]) -/\n"
    s += "def structs : List (String × Nat × Nat × List (String × String × Nat × String × Int × Nat)) := [\n"
    s += ",\n".join("  (%s, %d, %d, [\n    %s])" % (lstr(st[0]), st[1], st[2], ",\n    ".join(lean_field(f) for f in st[3]))
                    for st in structs)
    s += "]\n"
    n += len(structs)
    # the struct file itself (bytes) and rig's perl -> Python pack table, for the Lean model of read_struct_file
    # (Model/C20Parse.lean); Props/C20Parse.lean proves  parseStructFile sarkStructBytes = the table above
    raw = open(os.path.join(repo, STRUCT), "rb").read()
    packs = perl_packs(repo)
    s += "def perlPacks : List (List Nat × List Nat) := %s\n" % lean_list(
        list(packs.items()), lambda kv: "(%s, %s)" % (list(kv[0].encode("latin-1")), list(kv[1].encode("latin-1"))))
    # (one literal of this length exceeds Lean's elaboration depth: one definition per 64 bytes, then flatten)
    chunks = [raw[i:i + 64] for i in range(0, len(raw), 64)]
    for k, ch in enumerate(chunks):
        s += "def sarkChunk%d : List Nat := [%s]\n" % (k, ", ".join(str(b) for b in ch))
    s += "def sarkStructChunks : List (List Nat) := [%s]\n" % ", ".join("sarkChunk%d" % k for k in range(len(chunks)))
    s += "def sarkStructBytes : List Nat := sarkStructChunks.flatten\n"
    n += 2
    s += "end Rig.Gen.C20Boot\n"
    return s, n


GENERATORS = {"C20Boot": gen_boot}
