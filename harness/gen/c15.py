"""Translator part for C15: wire constants of rig/machine_control/packets.py."""
import ast
from harness.gen_tables import HEADER, read_source, module_consts, lean_list


def gen_packets(repo):
    c = module_consts(repo, "rig/machine_control/packets.py")
    tree = ast.parse(read_source(repo, "rig/machine_control/packets.py"))
    # the pack strings actually used
    fmts = sorted({n.value for n in ast.walk(tree)
                   if isinstance(n, ast.Constant) and isinstance(n.value, str)
                   and n.value.startswith("<") and len(n.value) <= 8})
    s = HEADER + "namespace Rig.Gen.Packets\n"
    s += "def FLAG_REPLY : Nat := %d\n" % c["FLAG_REPLY"]
    s += "def FLAG_NO_REPLY : Nat := %d\n" % c["FLAG_NO_REPLY"]
    s += "def packFormats : List String := %s\n" % lean_list(fmts, lambda x: '"%s"' % x)
    s += "end Rig.Gen.Packets\n"
    return s, 3


GENERATORS = {"Packets": gen_packets}
