"""Translator part for C08: the data of rig/bitfield.py that the model depends on.

* SCAN_SLACK: the scan of `_assign_field` is `for bit in range(0, self.length - length [+ k])`;
  k is read from the AST (0 on the unrepaired tree, 1 with fixes/c08-assign-scan-bound.diff).
* MAX_VALUE_DEFAULT: default of `_Field.__init__(..., max_value=1)`.
Anything else in that position is not understood -> the generator raises (broken obligation).
"""
import ast
from harness.gen_tables import HEADER, read_source


def _find(tree, name):
    for n in ast.walk(tree):
        if isinstance(n, ast.FunctionDef) and n.name == name:
            return n
    raise ValueError("function %s not found" % name)


def _is_self_length(n):
    return (isinstance(n, ast.Attribute) and n.attr == "length" and
            isinstance(n.value, ast.Name) and n.value.id == "self")


def scan_slack(tree):
    fn = _find(tree, "_assign_field")
    loops = [n for n in ast.walk(fn) if isinstance(n, ast.For)]
    if len(loops) != 1:
        raise ValueError("_assign_field: expected exactly one for loop")
    it = loops[0].iter
    if not (isinstance(it, ast.Call) and isinstance(it.func, ast.Name) and it.func.id == "range"
            and len(it.args) == 2 and isinstance(it.args[0], ast.Constant) and it.args[0].value == 0):
        raise ValueError("_assign_field: scan is not range(0, ...)")
    hi = it.args[1]

    def base(n):
        return (isinstance(n, ast.BinOp) and isinstance(n.op, ast.Sub) and _is_self_length(n.left)
                and isinstance(n.right, ast.Name) and n.right.id == "length")
    if base(hi):
        return 0
    if (isinstance(hi, ast.BinOp) and isinstance(hi.op, ast.Add) and base(hi.left)
            and isinstance(hi.right, ast.Constant) and isinstance(hi.right.value, int) and hi.right.value >= 0):
        return hi.right.value
    if (isinstance(hi, ast.BinOp) and isinstance(hi.op, ast.Add) and base(hi.right)
            and isinstance(hi.left, ast.Constant) and isinstance(hi.left.value, int) and hi.left.value >= 0):
        return hi.left.value
    raise ValueError("_assign_field: scan bound not of the form self.length - length [+ k]: %s" % ast.dump(hi))


def max_value_default(tree):
    for n in ast.walk(tree):
        if isinstance(n, ast.ClassDef) and n.name == "_Field":
            init = _find(n, "__init__")
            names = [a.arg for a in init.args.args]
            defaults = dict(zip(names[len(names) - len(init.args.defaults):], init.args.defaults))
            d = defaults.get("max_value")
            if isinstance(d, ast.Constant) and isinstance(d.value, int) and d.value >= 0:
                return d.value
    raise ValueError("_Field.__init__ max_value default not found")


def gen_bitfield(repo):
    tree = ast.parse(read_source(repo, "rig/bitfield.py"))
    s = HEADER + "namespace Rig.Gen.BitfieldConsts\n"
    s += "/-- k in `range(0, self.length - length + k)` of BitField._assign_field -/\n"
    s += "def SCAN_SLACK : Nat := %d\n" % scan_slack(tree)
    s += "/-- default of _Field.__init__(max_value=...) -/\n"
    s += "def MAX_VALUE_DEFAULT : Nat := %d\n" % max_value_default(tree)
    s += "end Rig.Gen.BitfieldConsts\n"
    return s, 2


GENERATORS = {"BitfieldConsts": gen_bitfield}
