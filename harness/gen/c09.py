"""Translator part for C09: flood-fill / signal constants of
rig/machine_control/consts.py and the struct offsets of rig/boot/sark.struct
that load_application relies on (sv.sdram_sys, sv.vcpu_base, vcpu.cpu_state)."""
import importlib
import os
import re
from harness.gen_tables import HEADER


def parse_struct_file(repo):
    """{struct: {"base":, "size":, "fields": {name: offset}}} parsed independently of rig"""
    out, cur = {}, None
    for line in open(os.path.join(repo, "rig", "boot", "sark.struct"), "rb").read().decode().splitlines():
        line = line.split("#")[0].strip()
        if not line:
            continue
        m = re.match(r"(name|size|base)\s*=\s*(\S+)$", line)
        if m:
            if m.group(1) == "name":
                cur = out.setdefault(m.group(2), {"fields": {}})
            else:
                cur[m.group(1)] = int(m.group(2), 0)
            continue
        tok = line.split()
        if len(tok) == 5:
            name = re.sub(r"\[\d+\]$", "", tok[0])
            cur["fields"][name] = (int(tok[2], 0), tok[1])
    return out


def gen_load(repo):
    consts = importlib.import_module("rig.machine_control.consts")
    st = parse_struct_file(repo)
    nn, nc = consts.NNCommands, consts.NNConstants
    cmds = consts.SCPCommands
    d = [
        ("nnFfs", int(nn.flood_fill_start)),
        ("nnFfcs", int(nn.flood_fill_core_select)),
        ("nnFfe", int(nn.flood_fill_end)),
        ("nnForward", int(nc.forward)),
        ("nnRetry", int(nc.retry)),
        ("flagWait", int(consts.AppFlags.wait)),
        ("stWait", int(consts.AppState.wait)),
        ("stRun", int(consts.AppState.run)),
        ("stIdle", int(consts.AppState.idle)),
        ("sigStart", int(consts.AppSignal.start)),
        ("sigStartType", int(consts.signal_types[consts.AppSignal.start])),
        ("diagCount", int(consts.AppDiagnosticSignal.count)),
        ("diagCountType", int(consts.diagnostic_signal_types[consts.AppDiagnosticSignal.count])),
        ("cmdNnp", int(cmds.nearest_neighbour_packet)),
        ("cmdSignal", int(cmds.signal)),
        ("cmdFfd", int(cmds.flood_fill_data)),
        ("svBase", st["sv"]["base"]),
        ("offSdramSys", st["sv"]["fields"]["sdram_sys"][0]),
        ("offVcpuBase", st["sv"]["fields"]["vcpu_base"][0]),
        ("vcpuSize", st["vcpu"]["size"]),
        ("offCpuState", st["vcpu"]["fields"]["cpu_state"][0]),
    ]
    # the fields must have the width the model reads (word, word, byte)
    widths = (st["sv"]["fields"]["sdram_sys"][1], st["sv"]["fields"]["vcpu_base"][1],
              st["vcpu"]["fields"]["cpu_state"][1])
    if widths != ("V", "V", "C"):
        raise ValueError("unexpected struct field types %r" % (widths,))
    s = HEADER + "namespace Rig.Gen.Load\n"
    for k, v in d:
        s += "def %s : Nat := %d\n" % (k, v)
    s += "end Rig.Gen.Load\n"
    return s, len(d)


def gen_loadsig(repo):
    """the enumerations send_signal / count_cores_in_state look their argument up in, and the
    signal -> message type table (`consts.signal_types`)"""
    consts = importlib.import_module("rig.machine_control.consts")

    def names(enum):
        return "[" + ", ".join('("%s", %d)' % (m.name, int(m)) for m in enum) + "]"
    sig_types = "[" + ", ".join("(%d, %d)" % (int(k), int(v)) for k, v in consts.signal_types.items()) + "]"
    diag_types = "[" + ", ".join("(%d, %d)" % (int(k), int(v))
                                 for k, v in consts.diagnostic_signal_types.items()) + "]"
    s = HEADER + "namespace Rig.Gen.LoadSig\n"
    s += "/-- `consts.AppSignal`: (name, value) in definition order -/\n"
    s += "def appSignals : List (String × Nat) := %s\n" % names(consts.AppSignal)
    s += "/-- `consts.signal_types`: signal value -> message type -/\n"
    s += "def signalTypes : List (Nat × Nat) := %s\n" % sig_types
    s += "/-- `consts.AppState`: (name, value) in definition order -/\n"
    s += "def appStates : List (String × Nat) := %s\n" % names(consts.AppState)
    s += "/-- `consts.diagnostic_signal_types`: diagnostic signal value -> message type -/\n"
    s += "def diagSignalTypes : List (Nat × Nat) := %s\n" % diag_types
    s += "end Rig.Gen.LoadSig\n"
    return s, len(consts.AppSignal) + len(consts.signal_types) + len(consts.AppState) + len(consts.diagnostic_signal_types)


GENERATORS = {"Load": gen_load, "LoadSig": gen_loadsig}
