"""C02 (companion) - VARIANTS: the same problem in every form the API legally accepts.

A generated problem carries `var` (absent = the plain form; old replays behave as before):
  scale       every resource quantity (chip resources, exceptions, demands, reservations) multiplied by K in
              {2**28, 2**31, 2**32, 2**53+1, 2**63, 2**64, 2**100}: resource quantities are unbounded ints.  The model and
              the oracle see the scaled numbers.  (The C annealing kernel is an external binary working on C ints: it
              is not run on quantities >= 2**31, see CLAIM.note.)
  links       dead links: none / random / every link that crosses the edge of the machine (no wrap-around: the other
              branch of has_wrap_around_links, used by the annealing kernels)
  containers  seed of the container / class kinds: vertices_resources as OrderedDict, dict, or a subclass of either;
              resource dictionaries as dict subclasses; Machine, Net and the constraint classes as subclasses; nets
              with one sink built as Net(source, sink) (a bare vertex); SameChipConstraint.vertices as list or tuple
  calling     seed of the calling conventions: optional parameters passed by keyword or positionally in the documented
              order, left at their default (random = the `random` module itself, kernel = the default kernel,
              kernel_kwargs, on_temperature_change=None, chip_order of the breadth-first placer) or given; vertex
              orders as list / tuple / generator / dict keys view / dict, chip orders as list / tuple / iterator /
              generator; the annealer through the default name rig.place_and_route.place
"""
import random as _random

SCALES = [2 ** 28, 2 ** 31, 2 ** 32, 2 ** 53 + 1, 2 ** 63, 2 ** 64, 2 ** 100]

RULE_VARIANTS = ("variants (every stream that uses the main generator): 30% of the non-unit problems have every resource "
                 "quantity multiplied by one of 2**28, 2**31, 2**32, 2**53+1, 2**63, 2**64, 2**100; 35% have dead links "
                 "(random, or every edge-crossing link: no wrap-around); 3% have a machine with no resource types; half "
                 "use non-default container / class kinds (dict / OrderedDict / subclasses for vertices_resources and "
                 "resource dictionaries, subclasses of Machine, Net and the constraint classes, Net(source, single_sink), "
                 "tuple for SameChipConstraint.vertices) and non-default calling conventions (optional parameters "
                 "positional / keyword / omitted: module-level `random` as the default RNG - patched to record -, default "
                 "kernel, on_temperature_change=None, chip_order of breadth_first.place; vertex orders as list / tuple / "
                 "generator / keys view / dict; chip orders as list / tuple / iterator / generator; rig.place_and_route."
                 "place as the entry point)")


def draw(rng, prob):
    a, b, c, d, e, f = rng.random(), rng.choice(SCALES), rng.random(), rng.randrange(1, 2 ** 30), rng.randrange(1, 2 ** 30), \
        rng.random()
    var = {"scale": 1, "links": "none", "containers": 0, "calling": 0}
    if a < 0.3 and prob.get("unit_r0") is None:
        var["scale"] = b
    w, h = prob["w"], prob["h"]
    if c < 0.2:
        lr = _random.Random(d)
        prob["dead_links"] = [[x, y, l] for x in range(w) for y in range(h) for l in range(6) if lr.random() < 0.2]
        var["links"] = "random"
    elif c < 0.35:
        # links: 0 E, 1 NE, 2 N, 3 W, 4 SW, 5 S
        dl = set()
        for x in range(w):
            for y in range(h):
                if x == w - 1:
                    dl.update([(x, y, 0), (x, y, 1)])
                if y == h - 1:
                    dl.update([(x, y, 2), (x, y, 1)])
                if x == 0:
                    dl.update([(x, y, 3), (x, y, 4)])
                if y == 0:
                    dl.update([(x, y, 5), (x, y, 4)])
        prob["dead_links"] = [list(t) for t in sorted(dl)]
        var["links"] = "no-wrap"
    if f < 0.5:
        var["containers"] = d
        var["calling"] = e
    prob["var"] = var
    return prob


def scale_of(prob):
    return (prob.get("var") or {}).get("scale", 1)


def too_big_for_c(prob):
    """the C kernel (external binary) stores resource quantities in C ints"""
    k = scale_of(prob)
    top = max([0] + list(prob["res"]) + [x for _, r in prob["exc"] for x in r] + [x for _, d, _ in prob["vr"] for x in d] +
              [c["amt"] for c in prob["cs"] if c["t"] == "res"])
    same = sum(max(d) if d else 0 for _, d, _ in prob["vr"])       # a merged vertex sums its members
    return k * max(top, same) >= 2 ** 31


# ---------------------------------------------------------------------------
# container / class kinds
# ---------------------------------------------------------------------------

_CLASSES = {}


def classes():
    """subclasses of rig's own classes (created once)"""
    if not _CLASSES:
        import collections
        from rig.place_and_route import Machine
        from rig.netlist import Net
        from rig.place_and_route import constraints as C

        class MyMachine(Machine):
            """a user's subclass: extra attribute, overridden __repr__"""
            site = "lab"

            def __repr__(self):
                return "MyMachine(%d, %d) 100%% {}" % (self.width, self.height)

        class MyNet(Net):
            __slots__ = ()

        class MyDict(dict):
            pass

        class MyODict(collections.OrderedDict):
            pass

        sub = lambda cls: type("My" + cls.__name__, (cls,), {})
        _CLASSES.update(Machine=MyMachine, Net=MyNet, dict=MyDict, odict=MyODict,
                        loc=sub(C.LocationConstraint), same=sub(C.SameChipConstraint),
                        res=sub(C.ReserveResourceConstraint), ep=sub(C.RouteEndpointConstraint),
                        align=sub(C.AlignResourceConstraint))
    return _CLASSES


class Kinds(object):
    """decisions of one build, a function of the seed and of the position asked about"""

    def __init__(self, seed):
        self.seed = seed

    def pick(self, what, options):
        if not self.seed:
            return options[0]
        return _random.Random("%d/%s" % (self.seed, what)).choice(options)


class patched_random(object):
    """`with patched_random(rr)`: the functions of the `random` module (rig's default RNG) are rr's recording ones"""
    NAMES = ("sample", "shuffle", "choice", "randint", "random")

    def __init__(self, rr):
        self.rr = rr

    def __enter__(self):
        self.old = {n: getattr(_random, n) for n in self.NAMES}
        for n in self.NAMES:
            setattr(_random, n, getattr(self.rr, n))
        return self

    def __exit__(self, *a):
        for n, f in self.old.items():
            setattr(_random, n, f)
        return False


def vertex_order(kinds, what, objs):
    """a vertex order in one of the iterable kinds"""
    k = kinds.pick(what, ["list", "tuple", "generator", "keys-view", "dict"])
    if k == "list":
        return k, list(objs)
    if k == "tuple":
        return k, tuple(objs)
    if k == "generator":
        return k, (v for v in list(objs))
    d = dict((v, None) for v in objs)
    return (k, d.keys()) if k == "keys-view" else (k, d)


def chip_order(kinds, what, chips):
    k = kinds.pick(what, ["iterator", "list", "tuple", "generator"])
    if k == "iterator":
        return k, iter(list(chips))
    if k == "list":
        return k, list(chips)
    if k == "tuple":
        return k, tuple(chips)
    return k, (c for c in list(chips))
