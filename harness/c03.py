"""C03 - NER routing trees: correspondence of rig/place_and_route/route/ner.py (+ route/utils.py,
geometry.py, machine.py helpers) with the Lean model RigModel/Model/C03.lean, stage by stage, and
the Lean specification predicate `validTree` run as oracle on every tree the implementation returns.

Non-determinism of the implementation is recorded from outside (module attributes are wrapped, the
source is not touched) and handed to the model as oracle input:
  * random.random() / random.randint() of geometry.py and route/utils.py  -> tape of integers
    (draws are k/2^20 so that |m| + r is exact),
  * iteration order of the destination set handed to ner_net,
  * iteration order of the broken-link set returned by copy_and_disconnect_tree.
"""
import itertools
import json
import os
import random as _random

CLAIM = dict(
    text=("Machine-checked proof (Lean 4), for ALL machines, nets, radii, random tie-breaks and set orders: (1) the "
          "executable decision procedure validTree is sound and complete for the declarative ValidTree (rooted at the "
          "source chip; chips pairwise distinct; every hop a working link of a working chip to the adjacent working "
          "chip modulo the machine size; leaves exactly the sinks with their cores / endpoint route), and a valid tree "
          "physically connects the source chip to every sink chip over working links; (2) every path a_star returns "
          "starts in `sources`, runs over working links through chips outside `sources` and ends next to the sink, "
          "a_star reports the machine disconnected only if no chip of `sources` reaches the sink over working "
          "links (aStar_complete), and a_star raises nothing else (aStar_only_disconnected: the search loop and the "
          "path reconstruction cannot fail), so that on a machine the strong-connectivity oracle accepts - the oracle "
          "is proved sound for physical reachability - a_star always succeeds (aStar_succeeds); (3) copy_and_disconnect_tree keeps only working chips and working links between "
          "adjacent chips; (4) every hop of a longest-dimension-first walk, and every edge ner_net creates, is the "
          "link named by its direction; (5) every hop of every tree the model of route() returns (with or without the "
          "dead-link repair, any processing order of the broken links) follows a working link of a working chip to "
          "the adjacent chip, and every leaf is an expected sink leaf; (6) the geometry functions this model "
          "duplicates (mesh / torus length, minimise_xyz, shortest mesh / torus vector, longest_dimension_first, "
          "concentric_hexagons, links_between, link tables) are proved EQUAL to the independent C11 model of "
          "rig/geometry.py, so C11's theorems hold for them: the lengths are graph distances, and the route ner_net "
          "walks to a destination is a shortest walk that visits no chip twice and, on a mesh, never leaves the "
          "machine; (7) nerNet_valid in full: on the fault-free machine (mesh or torus, every w,h >= 1 incl. 1xN and "
          "2xN, every radius, destination order and tape) the forest ner_net builds unfolds to a VALID routing tree "
          "(all five clauses), ner_net has no error other than an oracle error (it never overwrites a tree node), and "
          "the model of route() on such a machine never enters the repair, never fails and returns a valid tree "
          "(routeNet_faultfree); (8) a general lemma: any forest with one entry per chip, one parent per node and a "
          "rank decreasing along edges unfolds to a tree with pairwise distinct chips covering exactly the chips "
          "below the root; (9) ROUND 3, the dead-link repair loop of the FIXED code (parent of an overlapped node "
          "searched in the whole lookup): the forest invariant RInv (one entry per chip, one parent per node, no "
          "cycle, component roots = tree root + heads of the broken links still to reconnect, every entry below "
          "one of them) is established by copy_and_disconnect_tree for any input (copyAndDisconnect_forest) and "
          "preserved by the body of the repair loop for every A* outcome - detours through the orphaned subtree "
          "included - and every processing order (repairOne_preserves, using aStar_path_simple: an A* path "
          "visits no chip twice and avoids the sink); avoidDeadLinks_valid: whenever the model of route() returns "
          "after a repair, its forest unfolds with the oracle's fuel to a tree satisfying ALL clauses of "
          "ValidTree, with every entry of the lookup on the tree; nerNet_leaves_are_dests + routeNet_valid: with "
          "source and destinations on working chips EVERY successful run (repair entered or not, any machine) "
          "returns a valid routing tree rooted at the source chip; (10) route_only_failure for every machine: "
          "with source / sinks on working chips the model of route() has no error other than "
          "MachineHasDisconnectedSubregion and errors of its oracle inputs (never dupNode, KeyError, TypeError, "
          "assertion `Cycle created`, exhausted fuel: copyAndDisconnect_total, repairOne_only_disconnected), "
          "MachineHasDisconnectedSubregion implies the machine is not strongly connected "
          "(route_succeeds_strongly_connected), and the strong-connectivity oracle is complete as well as sound "
          "(stronglyConnected_complete, stronglyConnected_iff), so a Disconnected outcome means two working chips "
          "really cannot reach each other (route_disconnected_is_real); (11) legacy_two_parents_witness: on the "
          "machine of corpus/C03/f3-two-parents-2x4.json the UNFIXED loop (parent searched only inside "
          "lookup[child]) leaves a node with two parent links and an invalid tree, the fixed loop a valid one "
          "(kernel-evaluated); sinkAttach_precedence: the model attaches a sink with a RouteEndpointConstraint by exactly "
          "the constrained route whatever its allocation holds, otherwise one leaf per allocated core (none for an "
          "empty slice), otherwise one leaf without a route - the expected leaves of every case come from this "
          "resolution in the model; (12) ROUND 4, several nets in one route() call: the model routeNets runs the loop body "
          "per net and threads nothing but the oracle tape; routeNets_independent: the call succeeds with results rs "
          "iff net by net routeNet on that net's own inputs and its own part of the tape returns rs[i] - no tree, "
          "lookup or leaf is carried over; routeNets_valid: every net of a successful call gets a valid routing tree "
          "for ITS OWN sinks; routeNets_only_failure: a call fails only with MachineHasDisconnectedSubregion (never "
          "on a strongly connected machine) or an oracle error. VALIDATED, not proved: that the Lean model computes "
          "what the Python code computes - exact stage-wise correspondence of ner_net, route_has_dead_links, "
          "copy_and_disconnect_tree, every a_star path, avoid_dead_links, the attached sinks and the outcome, with "
          "recorded random draws and set orders, both for single nets and, net by net, for route() calls with 2-6 "
          "nets (nets between the same chips with other sink vertices / cores / endpoint routes, identical nets, the "
          "same Net object twice, partially overlapping nets, a vertex that is a sink of several nets) against "
          "routeNets, for large nets (30-150 sinks on 10x10..24x24 machines, radius 0-5: concentric-hexagon search, "
          "fall-back from the source, truncation at the tree) and for extreme shapes (rings / strips up to 2100 chips "
          "long, trees deeper than the interpreter's recursion limit, where any exception other than "
          "MachineHasDisconnectedSubregion on a connected machine - RecursionError included - is a violation; the "
          "model proves termination, not stack depth); and - on the implementation's own output - validTree "
          "evaluated on EVERY net's tree against "
          "that net's own sinks, plus the check that the trees of different Net objects share no RoutingTree node "
          "object; the error clause being decided by the Lean strong-connectivity computation cross-checked against "
          "an independent Python one. The same judgement (model comparison + validTree + permitted failures, plus "
          "`did-not-return` for a call exceeding ~100x its normal CPU time, since the model provably terminates) is "
          "applied to the API-kind options of the single-net stream, to every step of the HISTORY stream (several "
          "route() calls in one freshly reloaded process on objects the caller keeps, edits in place and passes "
          "again; earlier results re-read after later calls) and to the direct a_star / longest_dimension_first "
          "calls in all their calling conventions."),
    design="3/C03",
    note=("All theorems are about the Lean model of the FIXED code (fixes/c03-avoid-dead-links-parent.diff applied: "
          "model flag legacy = false); for the unfixed loop avoidDeadLinks_valid is false (legacy_two_parents_witness). "
          "Hypotheses of routeNet_valid / route_only_failure: source chip and destination / sink chips are working "
          "chips of the machine (what place() guarantees), sinks lie on the source chip or on a destination chip; "
          "avoidDeadLinks_valid itself needs no hypothesis. The oracle inputs of the model (tape, destination order, "
          "processing order of the broken links) are arbitrary in the theorems; tape / badDraw / badOracle errors "
          "mean the inputs handed in are not a recording of a real run. `fault-free` (nerNet_valid, "
          "routeNet_faultfree) for a net routed without wrap-around allows exactly the links that leave the w x h "
          "rectangle to be dead. The earlier parts named ..._partial are kept. Link/route tables are regenerated "
          "from rig/links.py and routing_table/entries.py on every run. Stub branches (childless non-sink nodes) "
          "left behind by the repair are observed on the real code and are not treated as a violation. The harness "
          "also checks the proved facts on the executable model per case (model result valid; model Disconnected "
          "only on a machine the oracle rejects) as a consistency tie between theorems and driver. "
          "SINK KINDS: every vertex (sinks AND the source, several sinks of one net on one chip) is drawn from "
          "{endpoint constraint present / absent} x {allocation with a non-empty core slice / an empty slice / an "
          "entry without the core resource / no entry}, slices touching cores 0, 1, 16, 17 and the whole range 0..18 "
          "(tags sinkkind_*); the unresolved pair (endpoint, slice) is sent to the model, which applies the "
          "precedence. HARDENING CHECKLIST - (1) argument kinds: vertices as int, big int (2^31..2^100), float, str with % and {}, "
          "bytes, tuples of length 0-3, namedtuple, frozenset, plain object (mixed inside one net); nets as list / tuple "
          "/ generator / one-shot iterator / dict keys view; constraints as list / tuple / generator, with unrelated "
          "constraint kinds and a constraint naming a stranger vertex; a single sink given bare (`sinks : list or "
          "vertex`); subclasses of Machine, Net, RouteEndpointConstraint; chips as tuple / namedtuple; dead links as "
          "Links members / plain ints, dead sets as set / frozenset; radius as int / bool / IntEnum member; "
          "vertices_resources real / empty / None (route() never reads it); placements and allocations holding "
          "vertices outside the net. Not applicable: numpy ints (rig passes none into route()), byte strings (no such "
          "argument), sinks as tuple/set (documented: a non-list IS one vertex), chips as lists (used as dict keys: "
          "illegal), slices with None bounds (allocate() never produces them), BIG machine sizes / coordinates "
          "(Machine and has_wrap_around_links enumerate the border: sizes are bounded by what can be enumerated; the "
          "extreme-shape stream goes to 2100 chips), BIG radii: kept OUT of the generators on purpose (radius <= 64 "
          "is generated) because route() materialises all 3r(r+1)+1 hexagon offsets for ANY machine - reported to the "
          "coordinator as a candidate finding. (2) optional parameters: route(allocations, core_resource, radius) "
          "each omitted / default value / non-default value, positionally, by keyword, and all arguments by keyword; "
          "core_resource as str / tuple / object with a decoy entry under the default key; "
          "longest_dimension_first(start, width, height) omitted / given / by keyword; a_star by keyword. Left at "
          "their defaults: ner_net(wrap_around, radius) and avoid_dead_links(wrap_around) have defaults route() "
          "never uses (it always passes both; both values of wrap_around and many radii flow through), "
          "RoutingTree(children=...) is not observable through the property. ATTRIBUTES THE ROUTER DOES NOT READ are a "
          "generator dimension of every stream (single, large, history twins `attrs`, every net of the multi-net "
          "stream): Net.weight (`float or int`) in {argument omitted, 1.0, 0, 0.0, -0.0, 5e-324, 1e-300, 1.7e308, inf, "
          "-1, -0.5, -inf, nan, 3, 0.25, False, True, 2^70, numpy float64 0 / int64 0 / float32 0.25 / float64 nan / "
          "int8 -3}, given positionally / by keyword / assigned after construction; the sinks list as a list "
          "subclass; further attributes set on the Net; vertices with their own __eq__/__hash__ (colliding hashes "
          "n % 2 or constant; the Net names them by EQUAL BUT DISTINCT objects than placements / allocations / "
          "constraints do); half of the multi-net cases hold a zero / negative / nan weight net among ordinary "
          "ones, nets of one call given as list / tuple / generator / dict keys. JUDGE: route() returns a dict "
          "with a RoutingTree for EVERY net handed in (`no-tree-for-net` is a violation - the property demands a "
          "tree for every net; keys besides the nets are a correspondence mismatch), each tree valid per the Lean "
          "predicate. Sinks as tuple / set / generator are not legal (`sinks : list or vertex`: a non-list IS one "
          "vertex). Tags attr_*, err_NoTreeForNet, multi_no_tree_for_net. "
          "(3) scale: extreme-shape stream (2100-chip rings / strips, trees > 1000 levels, repair on them, a "
          "broadcast to all 255 / 575 other chips), large-net stream; nothing in scope is counted in 8 or 16 bits "
          "(cores 0..17 and routes 0..23 are enumerated fully). (4) histories: HISTORY stream - 2-5 calls in one "
          "process after importlib.reload of the router module (module-level state: memoised hexagons, the mutable "
          "default `allocations={}`), the same call repeated, twins differing in exactly one of radius / one dead "
          "link / one revived link / one sink added, removed, moved / one vertex's cores / calling convention / tape "
          "/ a cut-off sink / a different machine, in both orders; the replay payload is the whole history. (5) the "
          "caller keeps and edits: with `share` the SAME Machine (dead_links / dead_chips sets edited in place), "
          "placements / allocations dicts, constraints list and Net object (source, sinks[:] edited) are passed "
          "again; handed-back trees and the routes dict are vandalised (children cleared / reversed / junk and a "
          "cycle appended, chip changed, dict cleared) before the next call; untouched earlier results are "
          "re-serialised after every later call (`earlier-result-changed` is a violation: the property is about the "
          "returned tree); iter(tree) and tree.traverse() are advanced alternately, left half-way and resumed after "
          "the next call (difference = correspondence mismatch, not demanded by the property). (6) faults then "
          "continued use: the only failure in scope is MachineHasDisconnectedSubregion; histories continue on the same "
          "objects after it (cut-off twin, then the healed machine); there is no connection / callback / allocation "
          "to fail. (7) configuration: link and chip states (all streams), Machine chip_resources / "
          "chip_resource_exceptions differing between chips; nothing else configures route(). (8) every "
          "implementation call runs under common.cpu_limit (5 s + w*h/40 s of CPU, lowered after 3 and 10 hangs): "
          "`did-not-return` is a violation because the model terminates by theorem (route_only_failure). (9) tags "
          "api_*, hist_*, direct_*_call_*, radius_beyond_the_machine, err_DidNotReturn."),
    technique="Lean 4 theorems over a hand-written model + differential correspondence + Lean spec as oracle")

THEOREMS = ["link_tables", "validTree_iff", "validTree_connects", "aStar_path", "copyAndDisconnect_live",
            "walk_hops", "ldf_hops", "nerNet_edges_partial", "routeNet_repaired_live", "routeNet_tree_partial",
            # round 2: cross-model consistency with C11 and what it buys
            "cross_link_tables", "cross_lengths", "cross_torusPath", "cross_ldf", "cross_hexagons",
            "cross_linksBetween", "meshLen_is_distance", "torusLen_is_distance", "hexagons_exact", "torus_route",
            "mesh_route", "forest_unfolds", "nerNet_valid", "nerNet_only_oracle_errors", "routeNet_faultfree",
            "aStar_complete", "aStar_only_disconnected", "stronglyConnected_sound", "aStar_succeeds",
            # round 3: the repair loop
            "aStar_path_simple", "RInv_iff", "copyAndDisconnect_forest", "repairOne_preserves",
            "avoidDeadLinks_valid", "legacy_two_parents_witness",
            "copyAndDisconnect_total", "repairOne_only_disconnected", "route_only_failure",
            "route_succeeds_strongly_connected", "stronglyConnected_complete", "stronglyConnected_iff",
            "route_disconnected_is_real", "nerNet_leaves_are_dests", "routeNet_valid", "sinkAttach_precedence",
            # round 4: all nets of one route() call
            "routeNets_independent", "routeNetsRun_eq", "routeNets_valid", "routeNets_only_failure"]
THEOREMS += ['gen_opp']   # translator tie: generated function bodies = model (Props/C03Gen.lean)

RULE = ("machines 1x1..12x12 (incl. 1xN, 2xN), torus / mesh / partly wrapped, 0-30% dead directed links (half of them "
        "dead in one direction only), dead chips; single-net stream: one net per case with fan-out 0-12, sinks on the source chip, "
        "duplicated sinks, the source vertex as its own sink; every vertex's endpoint constraint (present / absent) x "
        "allocation (non-empty / empty core slice, no core resource, no entry), 20% of the nets with 3-8 sinks of all "
        "these combinations on one chip, core slices at 0, 1, 16, 17 and 0..18; radius in "
        "{0,1,2,20}; thorough adds every fault map with <= 2 dead directed links (and each single dead chip) on 2x2, "
        "1x3, 2x3, 3x3; LARGE-net stream (200 quick / 4000 thorough): machines 10x10..24x24 (torus / mesh / partly wrapped, "
        "0-3% dead links, 0-3 dead chips), one net with 30-150 sinks drawn from rows, columns, diagonals, spokes out "
        "of the source, clusters, random chips and sinks a few hops beyond existing ones, radius in {0,1,2,3,5}, so "
        "that ner_net's concentric-hexagon search and its fall-back route from the source (with truncation at the "
        "tree) are taken - tags ner_hexagon_*; exact correspondence with the model (all tie-breaks are recorded) and "
        "the oracle; EXTREME-shape stream (6 quick / 9 thorough fixed shapes with random parameters): 2100x1 and "
        "1x2100 rings, 1x1500 and 2100x1 mesh strips, 1200x2 torus and mesh, sinks > 1000 hops from the source, long "
        "chains of sinks, trees > 1000 levels deep, two of them with one dead directed link on the way so that the "
        "repair runs on a deep tree, plus a broadcast to every other chip of a 16x16 (quick) / 24x24 (thorough) machine; "
        "half of the single-net cases carry API-kind options (see CLAIM.note (1), (2)), radius additionally 3 and 64 "
        "(beyond every machine of the stream); HISTORY stream (250 quick / 6000 thorough): 2-5 route() calls in one "
        "process on machines up to 8x8, twins in both orders, half of them re-using and editing the passed objects "
        "in place, results kept / vandalised / iterated lazily; direct a_star / longest_dimension_first calls in "
        "every calling convention (sources as set / frozenset, Machine subclass, keywords, ldf without width/height "
        "and without start); multi-net stream (500 quick / 15000 thorough): ONE route() call with 2-6 nets drawn from a small "
        "pool of chips - same source chip and same set of sink chips but other vertices / cores / endpoint routes, "
        "identical nets, the same Net object twice, partial overlaps, shared sink vertices - non-trivial when two nets "
        "between the same chips differ in their sinks or an A* detour occurred; every net of every stream carries "
        "attributes the router does not read (Net.weight over 24 values incl. 0, 0.0, negative, nan, inf, numpy "
        "scalars, given in three ways; list subclass; extra attributes), vertices with custom __eq__/__hash__; every "
        "net handed in must get exactly one tree. A single-net case is non-trivial when the dead-link repair ran with at least one A* detour or the net "
        "has >= 3 distinct destination chips; distinct = distinct canonical JSON of the case")

SCALE = 1 << 20
VECS = [(1, 0), (1, 1), (0, 1), (-1, 0), (-1, -1), (0, -1)]


# --------------------------------------------------------------------------------------------
# generators
def gen_machine(rng, sizes):
    w, h = rng.choice(sizes)
    kind = rng.choice(["torus", "torus", "mesh", "mesh", "partial"])
    dead_links = set()
    for x in range(w):
        for y in range(h):
            for l, (dx, dy) in enumerate(VECS):
                if not (0 <= x + dx < w and 0 <= y + dy < h):
                    if kind == "mesh" or (kind == "partial" and rng.random() < 0.5):
                        dead_links.add((x, y, l))
    p = rng.choice([0, 0, 0.03, 0.1, 0.2, 0.3])
    if p:
        for x in range(w):
            for y in range(h):
                for l, (dx, dy) in enumerate(VECS):
                    if rng.random() < p:
                        dead_links.add((x, y, l))
                        if rng.random() < 0.5:
                            dead_links.add(((x + dx) % w, (y + dy) % h, (l + 3) % 6))
    nd = rng.choice([0, 0, 0, 1, 2, (w * h) // 5])
    chips = [(x, y) for x in range(w) for y in range(h)]
    dead_chips = set(rng.sample(chips, min(nd, len(chips) - 1)))
    return dict(w=w, h=h, dead_chips=sorted(map(list, dead_chips)), dead_links=sorted(map(list, dead_links)))


def gen_net(rng, mach):
    dead = set(map(tuple, mach["dead_chips"]))
    live = [(x, y) for x in range(mach["w"]) for y in range(mach["h"]) if (x, y) not in dead]
    src = rng.choice(live)
    fan = rng.choice([0, 1, 1, 2, 3, 4, 6, 8, 12])
    place = {0: list(src)}
    kinds = {0: gen_kind(rng)}
    sinks = []
    for i in range(fan):
        r = rng.random()
        if r < 0.08 and sinks:
            sinks.append(rng.choice(sinks))          # duplicated sink
            continue
        if r < 0.14:
            sinks.append(0)                          # the source vertex is its own sink
            continue
        v = len(place)
        if r < 0.25:
            c = src                                  # a sink on the source chip
        elif r < 0.35 and len(place) > 1:
            c = tuple(place[rng.randrange(1, len(place))])   # shares a chip with another sink
        else:
            c = rng.choice(live)
        place[v] = list(c)
        kinds[v] = gen_kind(rng)
        sinks.append(v)
    if rng.random() < 0.2:
        # several sinks on ONE chip mixing every combination of endpoint constraint and allocation
        c = src if rng.random() < 0.3 else rng.choice(live)
        combos = all_kind_combinations(rng)
        rng.shuffle(combos)
        for kd in combos[:rng.randint(3, 8)]:
            v = len(place)
            place[v] = list(c)
            kinds[v] = kd
            sinks.append(v)
        rng.shuffle(sinks)
    return dict(place={str(k): v for k, v in place.items()}, kinds={str(k): v for k, v in kinds.items()},
                sinks=sinks, radius=rng.choice([0, 1, 2, 20, 20, 20, 3, 64]))


CORE_SLICES = [(0, 1), (1, 2), (0, 2), (16, 17), (17, 18), (16, 18), (0, 18), (1, 17)]


def gen_slice(rng):
    r = rng.random()
    if r < 0.12:
        a = rng.choice([0, 1, 9, 17, 18])
        return a, a                                  # an empty slice
    if r < 0.6:
        return rng.choice(CORE_SLICES)               # touching cores 0, 1, 16, 17, the whole range
    a = rng.randrange(18)
    return a, rng.randrange(a + 1, 19)


def gen_endpoint(rng):
    return rng.randrange(6) if rng.random() < 0.8 else rng.randrange(6, 24)


def gen_kind(rng):
    """what route() is told about a vertex: [0,0,0] no core resource (even vertices: missing from allocations, odd:
    an empty entry); [1,a,b] cores [a,b) (possibly empty); [2,r,f] RouteEndpointConstraint r with an allocation
    entry without the core resource (f=0) / no allocation entry at all (f=1); [3,r,a,b] RouteEndpointConstraint r AND
    cores [a,b) in the allocation"""
    r = rng.random()
    if r < 0.15:
        return [0, rng.randrange(3), 0]
    if r < 0.6:
        a, b = gen_slice(rng)
        return [1, a, b]
    if r < 0.75:
        return [2, gen_endpoint(rng), rng.randrange(2)]
    a, b = gen_slice(rng)
    return [3, gen_endpoint(rng), a, b]


def all_kind_combinations(rng):
    """{endpoint constraint present / absent} x {non-empty core slice / empty slice / no core resource / vertex
    missing from allocations}; which of the last two a [0,0,0] vertex gets depends on the parity of its number"""
    a, b = rng.choice(CORE_SLICES)
    e = rng.choice([0, 1, 17, 18])
    return [[1, a, b], [1, e, e], [0, 1, 0], [0, 2, 0], [3, gen_endpoint(rng), a, b], [3, gen_endpoint(rng), e, e],
            [2, gen_endpoint(rng), 0], [2, gen_endpoint(rng), 1]]


def has_core_alloc(kinds):
    return any(k[0] in (1, 3) for k in kinds.values())


def alloc_of_kind(v, kd, core_key):
    """(allocation entry or None when the vertex is missing from allocations, endpoint route or None)"""
    if kd[0] == 1:
        return {core_key: slice(kd[1], kd[2])}, None
    if kd[0] == 2:
        return ({} if kd[2] == 0 else None), kd[1]
    if kd[0] == 3:
        return {core_key: slice(kd[2], kd[3])}, kd[1]
    if kd[1] in (1, 2):
        return ({} if kd[1] == 1 else None), None          # forced: an entry without the core resource / no entry
    return ({} if v % 2 else None), None


def sink_json(v, chip, kd):
    if kd[0] == 3:
        return [v, chip[0], chip[1], kd[1], [kd[2], kd[3]]]     # unresolved: the model applies the precedence
    if kd[0] == 2:
        return [v, chip[0], chip[1], 2, kd[1], 0]
    return [v, chip[0], chip[1], kd[0], kd[1], kd[2]]


# --------------------------------------------------------------------------------------------
# running the implementation with recorders
class FakeRandom(object):
    """stands in for the `random` module inside geometry.py and route/utils.py"""

    def __init__(self, seed, tape):
        self.r = _random.Random(seed)
        self.tape = tape

    def random(self):
        if self.r.random() < 0.3:
            k = self.r.choice([0, 1, SCALE - 1, SCALE // 2])     # provoke exact ties
        else:
            k = self.r.randrange(SCALE)
        self.tape.append(k)
        return k / float(SCALE)

    def randint(self, lo, hi):
        v = self.r.randint(lo, hi)
        self.tape.append(v)
        return v


def enc_dir(d):
    return 99 if d is None else int(d)


def forest_of_lookup(lookup):
    """{chip: RoutingTree} -> [[x, y, [[dir, cx, cy], ...]], ...] in dict order (RoutingTree children only)"""
    from rig.place_and_route.routing_tree import RoutingTree
    out = []
    for chip, node in lookup.items():
        ch = [[enc_dir(d), c.chip[0], c.chip[1]] for d, c in node.children if isinstance(c, RoutingTree)]
        out.append([chip[0], chip[1], ch])
    return out


def nest(node, budget):
    """nested serialisation of the object graph under `node` (used by harness/c01.py on its small trees; C03
    itself uses the iterative `flat_tree`); the budget bounds the number of RoutingTree expansions so that
    shared nodes / cycles give a finite tree (with repeated chips)"""
    from rig.place_and_route.routing_tree import RoutingTree
    budget[0] -= 1
    subs, leaves = [], []
    for r, ch in node.children:
        if isinstance(ch, RoutingTree):
            if budget[0] > 0:
                subs.append([enc_dir(r), nest(ch, budget)])
            else:
                subs.append([enc_dir(r), [ch.chip[0], ch.chip[1], [], []]])
        else:
            leaves.append([None if r is None else int(r), ch])
    return [node.chip[0], node.chip[1], subs, leaves]


def flat_tree(root, budget, vid=None):
    """Flat pre-order serialisation of the object graph under `root`:
    [[x, y, [[dir, child_index], ...], [[route, vertex], ...]], ...], entry 0 = root, child indices larger than
    the parent's.  Iterative (routing trees may be thousands of hops deep); `budget` bounds the number of
    RoutingTree expansions so that shared nodes / cycles give a finite tree (with repeated chips)."""
    from rig.place_and_route.routing_tree import RoutingTree
    out = []

    def entry(node):
        out.append([node.chip[0], node.chip[1], [], []])
        return len(out) - 1

    budget -= 1
    stack = [(entry(root), iter(list(root.children)))]
    while stack:
        idx, it = stack[-1]
        descended = False
        for r, ch in it:
            if isinstance(ch, RoutingTree):
                j = entry(ch)
                out[idx][2].append([enc_dir(r), j])
                if budget > 0:
                    budget -= 1
                    stack.append((j, iter(list(ch.children))))
                    descended = True
                    break
            else:
                out[idx][3].append([None if r is None else int(r), ch if vid is None else vid(ch)])
        if not descended:
            stack.pop()
    return out


def err_name(e):
    from rig.place_and_route.exceptions import MachineHasDisconnectedSubregion
    if isinstance(e, MachineHasDisconnectedSubregion):
        return "Disconnected"
    return type(e).__name__


def build_machine(mach):
    from rig.place_and_route.machine import Machine
    from rig.links import Links
    return Machine(mach["w"], mach["h"],
                   dead_chips=set(tuple(c) for c in mach["dead_chips"]),
                   dead_links=set((x, y, Links(l)) for x, y, l in mach["dead_links"]))


_HANGS = [0]


def cpu_budget(mach):
    """~100x the normal time of one route() call on a machine of that size; lowered after three hangs"""
    lim = 5 + mach["w"] * mach["h"] / 40.0
    if _HANGS[0] < 3:
        return lim
    return 1.0 if _HANGS[0] < 10 else 0.05      # the run is failing anyway: keep it short


VKINDS = ["int", "int", "str", "tuple0", "tuple1", "tuple2", "tuple3", "namedtuple", "frozenset", "object", "bigint",
          "float", "bytes", "custom_hash", "const_hash"]

# ATTRIBUTES of the problem objects that the router does not read are a generator dimension of every stream:
# Net.weight ("float or int", the strength of the net in application specific units - every number is legal), how it
# is given (omitted / positional / keyword / assigned afterwards), the class of the sinks list, further attributes
# set on the Net.  Every net handed to route() must get exactly one tree whatever these say.
WEIGHTS = ["default", "default", "float1", "int0", "float0", "negzero", "denormal", "tiny", "huge", "inf", "neg_int",
           "neg_float", "neginf", "nan", "int3", "quarter", "bool_false", "bool_true", "bigint", "np_float64_0",
           "np_int64_0", "np_float32_quarter", "np_nan", "np_int8_neg"]


def weight_object(spec):
    """the value of Net.weight for a spec of WEIGHTS (numbers stand for themselves: older corpus cases)"""
    if not isinstance(spec, str):
        return spec
    plain = {"float1": 1.0, "int0": 0, "float0": 0.0, "negzero": -0.0, "denormal": 5e-324, "tiny": 1e-300,
             "huge": 1.7e308, "inf": float("inf"), "neg_int": -1, "neg_float": -0.5, "neginf": float("-inf"),
             "nan": float("nan"), "int3": 3, "quarter": 0.25, "bool_false": False, "bool_true": True,
             "bigint": 2 ** 70}
    if spec in plain:
        return plain[spec]
    import numpy
    return {"np_float64_0": lambda: numpy.float64(0.0), "np_int64_0": lambda: numpy.int64(0),
            "np_float32_quarter": lambda: numpy.float32(0.25), "np_nan": lambda: numpy.float64("nan"),
            "np_int8_neg": lambda: numpy.int8(-3)}[spec]()


def gen_attrs(rng):
    """what the unread attributes of one Net say (JSON)"""
    return dict(weight=rng.choice(WEIGHTS), weight_how=rng.choice(["positional", "keyword", "attribute"]),
                sinks_class=rng.choice(["list", "list", "list_subclass"]), extra_attr=rng.random() < 0.2)


class _SinkList(list):
    """a caller's own list class: `sinks : list`"""


def make_net(NetClass, source, sink_objs, attrs, bare=False):
    """Net(source, sinks[, weight]) spelled as `attrs` says; returns (net, tags)"""
    tags = []
    spec = attrs.get("weight", "default")
    sinks_arg = sink_objs[0] if bare else (_SinkList(sink_objs) if attrs.get("sinks_class") == "list_subclass"
                                           else list(sink_objs))
    if attrs.get("sinks_class") == "list_subclass" and not bare:
        tags.append("attr_sinks_list_subclass")
    how = attrs.get("weight_how", "positional")
    if spec == "default":
        net = NetClass(source, sinks_arg)
    elif how == "keyword":
        net = NetClass(source, sinks_arg, weight=weight_object(spec))
    elif how == "attribute":
        net = NetClass(source, sinks_arg)
        net.weight = weight_object(spec)
    else:
        net = NetClass(source, sinks_arg, weight_object(spec))
    tags.append("attr_weight_%s" % (spec if isinstance(spec, str) else "number_%r" % (spec,)))
    if spec != "default":
        tags.append("attr_weight_given_" + how)
    if attrs.get("extra_attr"):
        net.name = "net %s {}"
        net.enabled = False
        tags.append("attr_net_has_further_attributes")
    return net, tags
_BIG = [2 ** 31, 2 ** 32, 2 ** 53 + 1, 2 ** 63, 2 ** 64, 2 ** 100]


class _HashVertex(object):
    """a vertex with its own __eq__ / __hash__: equal iff same number; hashes collide (n % 2, or 7 for all)"""

    def __init__(self, n, const):
        self.n, self.const = n, const

    def __eq__(self, other):
        return isinstance(other, _HashVertex) and other.n == self.n

    def __ne__(self, other):
        return not self.__eq__(other)

    def __hash__(self):
        return 7 if self.const else self.n % 2

    def __repr__(self):
        return "<hashvertex %d>" % self.n


class _PlainVertex(object):
    __slots__ = ["n"]

    def __init__(self, n):
        self.n = n

    def __repr__(self):
        return "<vertex %% {} {0} %d>" % self.n


def vertex_object(i, kind):
    """the i-th vertex of a case as a hashable identifier of the given kind (pairwise different for different i)"""
    import collections
    if kind == "str":
        return "v%d %%s %%(x)d {} {0} {x}" % i
    if kind == "tuple0":
        return () if i == 0 else ((), i)
    if kind == "tuple1":
        return (i,)
    if kind == "tuple2":
        return ("v", i)
    if kind == "tuple3":
        return (i, None, "v")
    if kind == "namedtuple":
        return collections.namedtuple("Vertex", "index label")(i, "nt")
    if kind == "frozenset":
        return frozenset([i, "v"])
    if kind == "object":
        return _PlainVertex(i)
    if kind == "bigint":
        return _BIG[i % len(_BIG)] + i
    if kind == "float":
        return i + 0.5
    if kind == "bytes":
        return b"v%d" % i
    if kind in ("custom_hash", "const_hash"):
        return _HashVertex(i, kind == "const_hash")      # a NEW (equal) object at every call
    return i


def gen_api(rng, net):
    """how the caller spells the call: argument kinds and calling conventions the API legally accepts"""
    nv = len(net["place"])
    has_cores = has_core_alloc(net["kinds"])
    api = dict(
        vkinds=[rng.choice(VKINDS) for _ in range(nv)] if rng.random() < 0.7 else ["int"] * nv,
        nets_as=rng.choice(["list", "tuple", "generator", "iter", "dictkeys"]),
        constraints_as=rng.choice(["list", "tuple", "generator"]),
        extra_constraints=rng.random() < 0.5, constraint_subclass=rng.random() < 0.4,
        net_subclass=rng.random() < 0.4, machine_subclass=rng.random() < 0.4,
        bare_sink=rng.random() < 0.5,
        allocations=("omitted" if not has_cores and rng.random() < 0.5 else "given"),
        allocations_extra=rng.random() < 0.5,
        core_resource=rng.choice(["positional", "omitted", "keyword", "custom_str", "custom_tuple", "custom_object"]),
        radius_as=rng.choice(["positional", "keyword", "omitted", "bool", "intenum"]),
        call=rng.choice(["positional", "keyword", "mixed"]),
        links_as=rng.choice(["enum", "int"]), dead_as=rng.choice(["set", "frozenset"]),
        chip_as=rng.choice(["tuple", "namedtuple"]),
        machine_resources=rng.random() < 0.5, placements_extra=rng.random() < 0.5,
        resources_arg=rng.choice(["real", "empty", "none"]), weight=rng.choice([1.0, 0, 3, 0.25]))
    return api


def run_impl(case, env=None):
    """route() of the real code on one net; returns (result, rec).  `case["api"]` (optional) says how the caller
    spells the call; `env` (optional, a dict living as long as a history) makes the caller re-use and edit in place
    the objects it passed before"""
    from rig.place_and_route.route import ner
    from rig.place_and_route.route import utils as rutils
    import rig.geometry as geometry
    from rig.place_and_route.machine import Machine, Cores, SDRAM
    from rig.place_and_route.constraints import RouteEndpointConstraint, LocationConstraint, \
        ReserveResourceConstraint, SameChipConstraint
    from rig.place_and_route.routing_tree import RoutingTree
    from rig.netlist import Net
    from rig.routing_table import Routes
    from rig.links import Links
    from harness import common
    import collections
    import enum

    mach, net = case["machine"], case["net"]
    api = case.get("api") or {}
    tags = []
    nv = len(net["place"])
    vk = api.get("vkinds") or ["int"] * nv
    vobj = [vertex_object(i, vk[i] if i < len(vk) else "int") for i in range(nv)]
    vid = {}
    for i, o in enumerate(vobj):
        vid[o] = i
    for k in set(vk):
        if k != "int":
            tags.append("api_vertex_" + k)
    # --- the machine
    link = (lambda l: Links(l)) if api.get("links_as", "enum") == "enum" else (lambda l: int(l))
    mk_set = frozenset if api.get("dead_as") == "frozenset" else set
    dead_chips = mk_set(tuple(c) for c in mach["dead_chips"])
    dead_links = mk_set((x, y, link(l)) for x, y, l in mach["dead_links"])
    mkw = {}
    if api.get("machine_resources"):
        mkw = dict(chip_resources={Cores: 3, SDRAM: 7, "other %s {}": 1},
                   chip_resource_exceptions={(0, 0): {Cores: 0}, (mach["w"] - 1, mach["h"] - 1): {Cores: 17, SDRAM: 1}})
        tags.append("api_machine_resources_differ_between_chips")
    MachineClass = Machine
    if api.get("machine_subclass"):
        class MachineClass(Machine):
            pass
        tags.append("api_machine_subclass")
    if api.get("links_as") == "int":
        tags.append("api_dead_links_as_int")
    shared = env is not None and env.get("share")
    old_m = env.get("machine") if shared else None
    if old_m is not None and (old_m.width, old_m.height) == (mach["w"], mach["h"]) and \
            isinstance(old_m.dead_links, set) and isinstance(old_m.dead_chips, set):
        machine = old_m                       # the caller edits the machine it passed before, in place
        machine.dead_chips.clear()
        machine.dead_chips.update(dead_chips)
        machine.dead_links.clear()
        machine.dead_links.update(dead_links)
        tags.append("hist_machine_edited_in_place")
    else:
        machine = MachineClass(mach["w"], mach["h"], dead_chips=dead_chips, dead_links=dead_links, **mkw)
    if env is not None:
        env["machine"] = machine
    # --- placements, allocations, constraints
    Chip = collections.namedtuple("Chip", "x y")
    mk_chip = (lambda c: Chip(c[0], c[1])) if api.get("chip_as") == "namedtuple" else tuple
    if api.get("chip_as") == "namedtuple":
        tags.append("api_chip_namedtuple")
    kinds = {int(k): v for k, v in net["kinds"].items()}
    cr_mode = api.get("core_resource", "positional")
    core_key = {"custom_str": "cores %s {}", "custom_tuple": ("cores", 0), "custom_object": _PlainVertex(-1)}.get(
        cr_mode, Cores)
    new_place = {vobj[int(k)]: mk_chip(v) for k, v in net["place"].items()}
    new_alloc, new_constraints = {}, []
    EndpointClass = RouteEndpointConstraint
    if api.get("constraint_subclass"):
        class EndpointClass(RouteEndpointConstraint):
            pass
        tags.append("api_constraint_subclass")
    for v, kd in sorted(kinds.items()):
        entry, endpoint = alloc_of_kind(v, kd, core_key)
        if entry is not None:
            if core_key in entry:
                if core_key is not Cores:
                    entry[Cores] = slice((kd[-2] + 5) % 17, 18)             # a decoy under the default key
                if api.get("allocations_extra"):
                    entry[SDRAM] = slice(0, 128)
            new_alloc[vobj[v]] = entry
        if endpoint is not None:
            new_constraints.append(EndpointClass(vobj[v], Routes(endpoint)))
        tags.append("sinkkind_%s_%s" % ("endpoint" if endpoint is not None else "noendpoint",
                                        "missing" if entry is None else "nocoreres" if core_key not in entry else
                                        "emptyslice" if entry[core_key].start == entry[core_key].stop else "cores")
                    + ("_source" if v == 0 else ""))
    if core_key is not Cores:
        tags.append("api_core_resource_" + cr_mode)
    if api.get("extra_constraints"):
        stranger = _PlainVertex(-2)
        new_constraints.insert(0, LocationConstraint(vobj[0], (0, 0)))
        new_constraints.append(ReserveResourceConstraint(Cores, slice(0, 1)))
        new_constraints.append(SameChipConstraint([vobj[0], stranger]))
        new_constraints.append(EndpointClass(stranger, Routes(0)))
        tags.append("api_unrelated_constraints")
    if api.get("placements_extra"):
        new_place[_PlainVertex(-3)] = mk_chip((0, 0))
        new_alloc[_PlainVertex(-4)] = {core_key: slice(0, 18)}
        tags.append("api_vertices_outside_the_net")
    if shared and "placements" in env:
        place, allocations, constraints = env["placements"], env["allocations"], env["constraints"]
        place.clear()
        place.update(new_place)
        allocations.clear()
        allocations.update(new_alloc)
        del constraints[:]
        constraints.extend(new_constraints)
        tags.append("hist_passed_dicts_edited_in_place")
    else:
        place, allocations, constraints = new_place, new_alloc, new_constraints
    if env is not None:
        env["placements"], env["allocations"], env["constraints"] = place, allocations, constraints
    NetClass = Net
    if api.get("net_subclass"):
        class NetClass(Net):
            pass
        tags.append("api_net_subclass")
    # vertices with their own __eq__: the Net names them by other (equal) objects than placements / allocations do
    vobj_net = [vertex_object(i, vk[i]) if i < len(vk) and vk[i] in ("custom_hash", "const_hash") else vobj[i]
                for i in range(nv)]
    sink_objs = [vobj_net[v] for v in net["sinks"]]
    attrs = dict(case.get("attrs") or {})
    if "weight" not in attrs and "weight" in api:
        attrs["weight"] = api["weight"]
    if shared and isinstance(env.get("net"), Net):
        the_net = env["net"]                  # the same Net object, edited in place
        the_net.source = vobj_net[0]
        the_net.sinks[:] = sink_objs
        if attrs.get("weight", "default") != "default":
            the_net.weight = weight_object(attrs["weight"])
            tags.append("attr_weight_%s" % (attrs["weight"],))
        tags.append("hist_net_edited_in_place")
    elif api.get("bare_sink") and len(sink_objs) == 1 and not isinstance(sink_objs[0], list):
        the_net, ntags = make_net(NetClass, vobj_net[0], sink_objs, attrs, bare=True)      # `sinks : list or vertex`
        tags += ntags
        tags.append("api_single_sink_not_in_a_list")
    else:
        the_net, ntags = make_net(NetClass, vobj_net[0], sink_objs, attrs)
        tags += ntags
    if env is not None:
        env["net"] = the_net
    nets_as = api.get("nets_as", "list")
    nets_arg = {"list": lambda: [the_net], "tuple": lambda: (the_net,), "generator": lambda: (n for n in [the_net]),
                "iter": lambda: iter([the_net]), "dictkeys": lambda: {the_net: 1}.keys()}[nets_as]()
    cons_as = api.get("constraints_as", "list")
    cons_arg = {"list": lambda: constraints, "tuple": lambda: tuple(constraints),
                "generator": lambda: (c for c in constraints)}[cons_as]()
    if nets_as != "list":
        tags.append("api_nets_as_" + nets_as)
    if cons_as != "list":
        tags.append("api_constraints_as_" + cons_as)
    res_arg = {"real": {v: {Cores: 1} for v in place}, "empty": {}, "none": None}[api.get("resources_arg", "real")]
    radius = net["radius"]
    r_mode = api.get("radius_as", "positional")
    if r_mode == "bool" and radius in (0, 1):
        radius_arg = bool(radius)
        tags.append("api_radius_bool")
    elif r_mode == "intenum":
        radius_arg = enum.IntEnum("Radius", {"r": radius} if radius else {"z": 0})(radius)
        tags.append("api_radius_intenum")
    else:
        radius_arg = radius
    args = [res_arg, nets_arg, machine, cons_arg, place]
    kwargs = {}
    call = api.get("call", "positional")
    if api.get("allocations") == "omitted" and not has_core_alloc(kinds):
        tags.append("api_allocations_omitted")
        tail = []
    else:
        tail = [("allocations", allocations)]
    omit_cr = cr_mode == "omitted" or (cr_mode == "positional" and not tail)
    if core_key is not Cores or not omit_cr:
        tail.append(("core_resource", core_key))
    else:
        tags.append("api_core_resource_omitted")
    if r_mode == "omitted" and radius == 20:
        tags.append("api_radius_omitted")
    else:
        tail.append(("radius", radius_arg))
    # positional arguments must be a prefix of the documented order; the rest go by keyword
    names = ["allocations", "core_resource", "radius"]
    n_pos = 0
    if call == "positional" or (call == "mixed" and cr_mode != "keyword" and r_mode != "keyword"):
        while n_pos < len(tail) and tail[n_pos][0] == names[n_pos]:
            n_pos += 1
        if cr_mode == "keyword" or r_mode == "keyword":
            n_pos = min(n_pos, 1)
    for i, (k, v) in enumerate(tail):
        if i < n_pos:
            args.append(v)
        else:
            kwargs[k] = v
    if call == "keyword":
        kwargs.update(vertices_resources=args[0], nets=args[1], machine=args[2], constraints=args[3],
                      placements=args[4])
        for k, v in zip(names, args[5:]):
            kwargs[k] = v
        args = []
        tags.append("api_all_arguments_by_keyword")
    elif kwargs:
        tags.append("api_optional_arguments_by_keyword")
    rec = dict(tape=[], dests=None, ner=None, wrap=None, copy=None, order=None, paths=[], astar_calls=[],
               lookup=None, repaired=False, api_tags=tags)
    fake = FakeRandom(case["rseed"], rec["tape"])
    orig = (geometry.random, rutils.random, ner.ner_net, ner.copy_and_disconnect_tree, ner.a_star,
            ner.avoid_dead_links)

    def w_ner_net(source, destinations, width, height, wrap_around=False, radius=10):
        dl = list(destinations)
        rec["dests"] = [list(d) for d in dl]
        rec["wrap"] = bool(wrap_around)
        root, lookup = orig[2](source, dl, width, height, wrap_around, radius)
        rec["ner"] = forest_of_lookup(lookup)
        rec["lookup"] = lookup
        return root, lookup

    def w_copy(root, m):
        new_root, lookup, broken = orig[3](root, m)
        rec["copy"] = dict(lookup=forest_of_lookup(lookup),
                           broken=sorted([p[0], p[1], c[0], c[1]] for p, c in broken),
                           root=list(new_root.chip))
        rec["order"] = [[p[0], p[1], c[0], c[1]] for p, c in broken]
        return new_root, lookup, broken

    def w_a_star(sink, hsrc, sources, m, wrap):
        call = dict(sink=list(sink), hsrc=list(hsrc), sources=sorted(map(list, sources)), wrap=bool(wrap))
        rec["astar_calls"].append(call)
        path = orig[4](sink, hsrc, sources, m, wrap)
        call["path"] = [[int(d), c[0], c[1]] for d, c in path]
        rec["paths"].append(call["path"])
        return path

    def w_avoid(root, m, wrap_around=False):
        rec["repaired"] = True
        root, lookup = orig[5](root, m, wrap_around)
        rec["lookup"] = lookup
        return root, lookup

    # which neighbour search each destination of ner_net used (observed from outside: the per-node scan calls a
    # path-length function for every route node, the concentric-hexagon spiral calls none), and whether the route
    # to it started at the source because nothing was within `radius` hops
    cur = dict(dist_calls=0, source=tuple(net["place"]["0"]), radius=net["radius"])
    rec["branches"] = []
    o_geo = (ner.longest_dimension_first, ner.shortest_mesh_path_length, ner.shortest_torus_path_length)

    def w_mesh_len(a, b):
        cur["dist_calls"] += 1
        return o_geo[1](a, b)

    def w_torus_len(a, b, w, h):
        cur["dist_calls"] += 1
        return o_geo[2](a, b, w, h)

    def w_ldf(vector, start, width, height):
        path = o_geo[0](vector, start, width, height)
        rec["branches"].append(("hex" if cur["dist_calls"] == 0 else "scan",
                                tuple(start) == cur["source"] and len(path) > cur["radius"], len(path)))
        cur["dist_calls"] = 0
        return path

    geometry.random, rutils.random = fake, fake
    ner.ner_net, ner.copy_and_disconnect_tree, ner.a_star, ner.avoid_dead_links = w_ner_net, w_copy, w_a_star, w_avoid
    ner.longest_dimension_first, ner.shortest_mesh_path_length, ner.shortest_torus_path_length = \
        w_ldf, w_mesh_len, w_torus_len
    try:
        try:
            with common.cpu_limit(cpu_budget(mach)):
                routes = ner.route(*args, **kwargs)
        except common.ImplHang as e:
            _HANGS[0] += 1
            return {"err": "DidNotReturn", "msg": str(e)[:200]}, rec
        except RecursionError as e:
            return {"err": "RecursionError"}, rec
        except Exception as e:      # every exception is an outcome to be judged
            return {"err": err_name(e), "msg": str(e)[:200]}, rec
    finally:
        (geometry.random, rutils.random, ner.ner_net, ner.copy_and_disconnect_tree, ner.a_star,
         ner.avoid_dead_links) = orig
        ner.longest_dimension_first, ner.shortest_mesh_path_length, ner.shortest_torus_path_length = o_geo
    # exactly one tree for every net handed in: the result is a dict whose keys are the nets
    bad = None
    try:
        keys = list(routes.keys())
        if any(k is not the_net for k in keys):
            rec["extra_keys"] = len([k for k in keys if k is not the_net])
        root = routes[the_net]
        if not isinstance(root, RoutingTree):
            bad = "route() returned %r (not a RoutingTree) for the net" % (type(root).__name__,)
    except (KeyError, TypeError, AttributeError) as e:
        bad = "route() returned %s; looking the net up in it: %s" % (
            ("a dict with %d key(s)" % len(routes)) if isinstance(routes, dict) else type(routes).__name__, type(e).__name__)
    if bad is not None:
        return {"err": "NoTreeForNet", "msg": "%s; Net.weight = %r" % (bad, getattr(the_net, "weight", None))}, rec
    lookup = rec["lookup"]
    if lookup is None:
        return {"err": "NoTreeForNet", "msg": "route() returned a tree without calling ner_net"}, rec
    forest = forest_of_lookup(lookup)
    # every RoutingTree child must be the node object the lookup has for its chip (one object per chip)
    alias = False
    for chip, node in lookup.items():
        for d, c in node.children:
            if isinstance(c, RoutingTree) and lookup.get(c.chip) is not c:
                alias = True
    leaves = {}
    for chip, node in lookup.items():
        lv = [[None if r is None else int(r), vid.get(c, -1) if _hashable(c) else -1] for r, c in node.children
              if not isinstance(c, RoutingTree)]
        if lv:
            leaves["%d,%d" % chip] = lv
    budget = [2 * mach["w"] * mach["h"] + 10]
    res = {"ok": dict(forest=forest, root=list(root.chip), leaves=leaves, alias=alias,
                      root_is_lookup=lookup.get(root.chip) is root,
                      tree=flat_tree(root, budget[0], lambda c: vid.get(c, -1) if _hashable(c) else -1))}
    if env is not None:
        env["last"] = dict(routes=routes, root=root, net=the_net, vid=vid, budget=budget[0])
    return res, rec


def _hashable(x):
    try:
        hash(x)
        return True
    except TypeError:
        return False


# --------------------------------------------------------------------------------------------
# independent (Python) strong connectivity, compared with the Lean computation
def py_strong(mach):
    w, h = mach["w"], mach["h"]
    dead = set(map(tuple, mach["dead_chips"]))
    dl = set(map(tuple, mach["dead_links"]))
    live = [(x, y) for x in range(w) for y in range(h) if (x, y) not in dead]
    if not live:
        return True
    fwd = {c: [] for c in live}
    bwd = {c: [] for c in live}
    for (x, y) in live:
        for l, (dx, dy) in enumerate(VECS):
            n = ((x + dx) % w, (y + dy) % h)
            if (x, y, l) not in dl and n not in dead:
                fwd[(x, y)].append(n)
                bwd[n].append((x, y))
    for g in (fwd, bwd):
        seen = {live[0]}
        todo = [live[0]]
        while todo:
            c = todo.pop()
            for n in g[c]:
                if n not in seen:
                    seen.add(n)
                    todo.append(n)
        if len(seen) != len(live):
            return False
    return True


def sinks_json(net):
    out = []
    for v in net["sinks"]:
        out.append(sink_json(v, net["place"][str(v)], net["kinds"][str(v)]))
    return out


def mreq(mach, **kw):
    d = dict(suite="c03", w=mach["w"], h=mach["h"], dead_chips=mach["dead_chips"], dead_links=mach["dead_links"])
    d.update(kw)
    return d


def group_leaves(flat):
    out = {}
    for x, y, r, v in flat:
        out.setdefault("%d,%d" % (x, y), []).append([r, v])
    return out


def eval_cases(ctx, cases, impl=None, report=None, count=True):
    """run (unless `impl` is given) and judge single-net cases; `report[i]` is the replayable payload a finding
    on case i is reported with (the whole history for a step of a history)"""
    if impl is None:
        impl = [run_impl(c) for c in cases]
    reqs = []
    for c, (res, rec) in zip(cases, impl):
        mach, net = c["machine"], c["net"]
        reqs.append(mreq(mach, op="machine"))
        src = net["place"]["0"]
        dests = rec["dests"] if rec["dests"] is not None else []
        reqs.append(mreq(mach, op="route", source=src, dests=dests, radius=net["radius"], tape=rec["tape"],
                         order=rec["order"], sinks=sinks_json(net), legacy=False))
        if "ok" in res:
            reqs.append(mreq(mach, op="valid_tree", source=src, sinks=sinks_json(net), flat=res["ok"]["tree"]))
        for call in rec["astar_calls"]:
            if "path" in call:
                reqs.append(mreq(mach, op="path_ok", sink=call["sink"], sources=call["sources"], path=call["path"]))
    replies = iter(ctx.lean(reqs))
    legacy_q = []
    for ci, (c, (res, rec)) in enumerate(zip(cases, impl)):
        mach, net = c["machine"], c["net"]
        rc = report[ci] if report is not None else c
        minfo = next(replies)
        model = next(replies)
        verdict = next(replies) if "ok" in res else None
        for call in rec["astar_calls"]:
            if "path" in call and next(replies) is not True:
                ctx.mismatch("c03.a_star_spec", "the Lean specification pathOk is false on a path a_star returned "
                             "inside route(): %s" % str(call)[:300], rc)
        ctx.traces += 1
        # --- helpers of the specification, model vs independent Python / implementation
        strong = py_strong(mach)
        if minfo.get("strong") != strong:
            ctx.mismatch("c03.strongly_connected", "lean=%r python=%r" % (minfo.get("strong"), strong), rc)
        if rec["wrap"] is not None and minfo.get("wrap") != rec["wrap"]:
            ctx.mismatch("c03.has_wrap_around_links", "lean=%r impl=%r" % (minfo.get("wrap"), rec["wrap"]), rc)
        # --- stage-wise correspondence
        if "proto_error" in model or "proto_error" in minfo:
            ctx.mismatch("c03.protocol", repr(model)[:300], rc)
            continue
        diffs = []
        if "ok" in model:
            mo = model["ok"]
            if rec["ner"] is not None and mo["ner"] != rec["ner"]:
                diffs.append(("ner_net", mo["ner"], rec["ner"]))
            if mo["repaired"] != rec["repaired"]:
                diffs.append(("route_has_dead_links", mo["repaired"], rec["repaired"]))
            if mo.get("model_valid") is not True:
                # routeNet_valid: the model's own result is a valid tree (theorem <-> driver consistency)
                diffs.append(("model_valid_theorem", mo.get("model_valid"), True))
            if rec["copy"] is not None and mo["copy"] is not None:
                mc = dict(mo["copy"], broken=sorted(mo["copy"]["broken"]))
                if mc != rec["copy"]:
                    diffs.append(("copy_and_disconnect_tree", mc, rec["copy"]))
            if mo["paths"] != rec["paths"]:
                diffs.append(("a_star", mo["paths"], rec["paths"]))
            if "ok" in res:
                io = res["ok"]
                if io["forest"] != mo["forest"] or io["alias"] or not io["root_is_lookup"]:
                    diffs.append(("avoid_dead_links", mo["forest"], io["forest"]))
                if io["root"] != mo["root"]:
                    diffs.append(("root", mo["root"], io["root"]))
                if io["leaves"] != group_leaves(mo["leaves"]):
                    diffs.append(("sinks", group_leaves(mo["leaves"]), io["leaves"]))
            else:
                diffs.append(("outcome", "ok", res["err"]))
        else:
            if "ok" in res or res["err"] != model["err"]:
                diffs.append(("outcome", model["err"], res.get("err", "ok")))
            if model["err"] == "Disconnected" and minfo.get("strong"):
                # route_only_failure: the model reports Disconnected only on a machine that is not strongly connected
                diffs.append(("disconnected_theorem", "Disconnected", "stronglyConnected = true"))
        if diffs:
            st, a, b = diffs[0]
            ctx.mismatch("c03." + st, "first differing stage %s: model=%s impl=%s" % (st, str(a)[:400], str(b)[:400]), rc)
            ctx.tag("mismatch_" + st)
        # --- the property oracle on the implementation's own outcome
        if "ok" in res:
            if not verdict.get("valid"):
                why = verdict.get("why") or ["protocol"]
                ctx.violation(why[0], "route() returned a tree that is not a valid routing tree (%s); machine %dx%d, "
                              "source %r, sinks %r" % (",".join(why), mach["w"], mach["h"], net["place"]["0"],
                                                       sinks_json(net)), rc)
            ctx.tag("ok_repaired" if rec["repaired"] else "ok_clean")
            if rec.get("extra_keys"):
                ctx.mismatch("c03.result_keys", "the dict route() returned has %d key(s) besides the net handed in"
                             % rec["extra_keys"], rc)
            if rec.get("lazy_iter_diff"):
                ctx.mismatch("c03.lazy_iteration", rec["lazy_iter_diff"], rc)
            if verdict.get("stubs"):
                ctx.tag("stub_branch_left_by_repair")
        elif res["err"] == "NoTreeForNet":
            ctx.violation("no-tree-for-net",
                          "route() returned normally but NOT a routing tree for the net it was given (%s); machine "
                          "%dx%d, source %r, sinks %r; the property demands a tree for every net, whatever its weight "
                          "or other attributes the router does not need"
                          % (res.get("msg"), mach["w"], mach["h"], net["place"]["0"], sinks_json(net)), rc)
            ctx.tag("err_NoTreeForNet")
        elif res["err"] == "Disconnected":
            if minfo.get("strong") and strong:
                ctx.violation("disconnected-on-connected-machine",
                              "route() raised MachineHasDisconnectedSubregion although every working chip reaches "
                              "every other over working links: %s" % res.get("msg"), rc)
            ctx.tag("err_disconnected")
        elif res["err"] == "DidNotReturn":
            ctx.violation("did-not-return",
                          "route() did not return (%s) on a %dx%d machine, %d sinks, radius %d; the model of route() "
                          "terminates on every input (route_only_failure: fuel is never exhausted)"
                          % (res.get("msg"), mach["w"], mach["h"], len(net["sinks"]), net["radius"]), rc)
            ctx.tag("err_DidNotReturn")
        else:
            ctx.violation("undocumented-exception",
                          "route() raised %s (%s) on a %dx%d machine (%d dead links, %d dead chips, working chips %s "
                          "connected), source chip %r, %d sinks, radius %d, ner_net tree of %s nodes; the only "
                          "permitted failure is MachineHasDisconnectedSubregion"
                          % (res["err"], res.get("msg"), mach["w"], mach["h"], len(mach["dead_links"]),
                             len(mach["dead_chips"]), "strongly" if strong else "NOT strongly", net["place"]["0"],
                             len(net["sinks"]), net["radius"], len(rec["ner"]) if rec["ner"] is not None else "?"), rc)
            ctx.tag("err_" + res["err"])
        # --- distribution
        ctx.tag("wrap" if rec["wrap"] else "nowrap")
        ctx.tag("strong" if strong else "not_strong")
        ctx.tag("radius_%d" % net["radius"])
        if net["radius"] > max(mach["w"], mach["h"]):
            ctx.tag("radius_beyond_the_machine")
        if mach["w"] <= 2 or mach["h"] <= 2:
            ctx.tag("thin_machine")
        if mach["dead_chips"]:
            ctx.tag("dead_chips")
        ndest = len(rec["dests"] or [])
        if rec["ner"] is not None and len(rec["ner"]) > 3 * (3 * net["radius"] * (net["radius"] + 1) + 1):
            ctx.tag("hexagon_search_possible")
        br = rec.get("branches") or []
        if any(b[0] == "hex" for b in br):
            ctx.tag("ner_hexagon_spiral_search")
        if any(b[0] == "hex" and b[1] for b in br):
            ctx.tag("ner_hexagon_search_fell_back_to_source")
        if any(b[0] == "scan" and b[1] for b in br):
            ctx.tag("ner_node_scan_fell_back_to_source")
        if rec["ner"] is not None and 1 + sum(b[2] for b in br) > len(rec["ner"]):
            ctx.tag("ner_route_truncated_at_tree")
        if any(b[0] == "hex" and b[1] for b in br) and rec["ner"] is not None and \
                1 + sum(b[2] for b in br) > len(rec["ner"]):
            ctx.tag("ner_hexagon_fallback_and_truncation")
        if rec["ner"] is not None and len(rec["ner"]) > 990:
            ctx.tag("tree_with_more_than_990_nodes")
        if c.get("stream"):
            ctx.tag("stream_" + c["stream"])
        if rec["paths"]:
            ctx.tag("astar_detours")
            if any(len(p) > 1 for p in rec["paths"]):
                ctx.tag("astar_detour_len>=2")
        if rec["order"] and len(rec["order"]) > 1:
            ctx.tag("broken_links>=2")
        if len(set(net["sinks"])) < len(net["sinks"]):
            ctx.tag("duplicated_sink")
        if any(net["place"][str(v)] == net["place"]["0"] for v in net["sinks"]):
            ctx.tag("sink_on_source_chip")
        if len(rec["tape"]) % 7 and rec["wrap"]:
            ctx.tag("spiral_randint")
        for t in rec.get("api_tags", []):
            ctx.tag(t)
        if count:
            ctx.case(c, bool(rec["paths"]) or ndest >= 3)


# --------------------------------------------------------------------------------------------
# LARGE nets: big trees on 10x10 .. 24x24 machines, small radii, so that ner_net's concentric-hexagon search
# (used once the tree has more than 3 * (3r(r+1)+1) nodes) and its fall-back route from the source are taken
SIZES_L = [(10, 10), (12, 12), (12, 10), (14, 14), (16, 16), (16, 11), (20, 20), (24, 24), (24, 12)]


def gen_large_machine(rng):
    w, h = rng.choice(SIZES_L)
    kind = rng.choice(["torus", "mesh", "mesh", "partial"])
    dead_links = set()
    for x in range(w):
        for y in range(h):
            for l, (dx, dy) in enumerate(VECS):
                if not (0 <= x + dx < w and 0 <= y + dy < h):
                    if kind == "mesh" or (kind == "partial" and rng.random() < 0.5):
                        dead_links.add((x, y, l))
    p = rng.choice([0, 0, 0, 0.01, 0.03])
    if p:
        for x in range(w):
            for y in range(h):
                for l, (dx, dy) in enumerate(VECS):
                    if rng.random() < p:
                        dead_links.add((x, y, l))
                        if rng.random() < 0.5:
                            dead_links.add(((x + dx) % w, (y + dy) % h, (l + 3) % 6))
    chips = [(x, y) for x in range(w) for y in range(h)]
    dead_chips = set(rng.sample(chips, rng.choice([0, 0, 0, 1, 3])))
    return dict(w=w, h=h, dead_chips=sorted(map(list, dead_chips)), dead_links=sorted(map(list, dead_links)))


def gen_large_net(rng, mach):
    w, h = mach["w"], mach["h"]
    dead = set(map(tuple, mach["dead_chips"]))
    live = [(x, y) for x in range(w) for y in range(h) if (x, y) not in dead]
    corner = [c for c in [(0, 0), (w - 1, 0), (0, h - 1), (w // 2, h // 2)] if c in live]
    src = rng.choice(corner) if corner and rng.random() < 0.6 else rng.choice(live)
    want = rng.randint(30, 150)
    chips = []
    while len(chips) < want:
        pat = rng.choice(["random", "row", "column", "diagonal", "cluster", "spokes", "far"])
        if pat == "random":
            chips += [rng.choice(live) for _ in range(rng.randint(5, 40))]
        elif pat == "row":
            y, x0, n, st = rng.randrange(h), rng.randrange(w), rng.randint(5, w), rng.choice([1, 1, 2])
            chips += [((x0 + i * st) % w, y) for i in range(n)]
        elif pat == "column":
            x, y0, n, st = rng.randrange(w), rng.randrange(h), rng.randint(5, h), rng.choice([1, 1, 2])
            chips += [(x, (y0 + i * st) % h) for i in range(n)]
        elif pat == "diagonal":
            x0, y0, n, sg = rng.randrange(w), rng.randrange(h), rng.randint(5, max(w, h)), rng.choice([1, -1])
            chips += [((x0 + i) % w, (y0 + sg * i) % h) for i in range(n)]
        elif pat == "spokes":
            # rays out of the source: along x, along y, along the diagonal (the tree then runs along them)
            n = rng.randint(5, max(w, h) - 1)
            for (dx, dy) in rng.sample([(1, 0), (0, 1), (1, 1), (-1, 0), (0, -1), (-1, -1)], rng.randint(2, 4)):
                chips += [((src[0] + dx * k) % w, (src[1] + dy * k) % h) for k in range(1, n + 1)
                          if 0 <= src[0] + dx * k < w and 0 <= src[1] + dy * k < h or rng.random() < 0.3]
        elif pat == "cluster":
            cx, cy, r = rng.randrange(w), rng.randrange(h), rng.randint(1, 3)
            chips += [((cx + rng.randint(-r, r)) % w, (cy + rng.randint(-r, r)) % h) for _ in range(rng.randint(5, 25))]
        else:
            # a few sinks a little beyond the end of something that is already there
            if chips:
                bx, by = rng.choice(chips)
                k = rng.randint(2, 6)
                dx, dy = rng.choice(VECS)
                chips.append(((bx + dx * k) % w, (by + dy * k) % h))
    chips = [c for c in chips if c not in dead][:want]
    place = {0: list(src)}
    kinds = {0: [1, 0, 1]}
    sinks = []
    for c in chips:
        v = len(place)
        place[v] = list(c)
        kinds[v] = [1, 1, 2] if rng.random() < 0.9 else gen_kind(rng)
        sinks.append(v)
    return dict(place={str(k): v for k, v in place.items()}, kinds={str(k): v for k, v in kinds.items()},
                sinks=sinks, radius=rng.choice([0, 1, 2, 2, 2, 3, 3, 5]))


def gen_large(ctx, n):
    out = []
    for _ in range(n):
        mach = gen_large_machine(ctx.rng)
        out.append(dict(machine=mach, net=gen_large_net(ctx.rng, mach), rseed=ctx.rng.randrange(1 << 30),
                        stream="large_net", attrs=gen_attrs(ctx.rng)))
    return out


# --------------------------------------------------------------------------------------------
# EXTREME shapes: very long / thin machines, sinks more than 1000 hops away, trees more than 1000 levels deep
def strip_machine(w, h, torus, dead_links=()):
    dl = set(map(tuple, dead_links))
    if not torus:
        for x in range(w):
            for y in range(h):
                for l, (dx, dy) in enumerate(VECS):
                    if not (0 <= x + dx < w and 0 <= y + dy < h):
                        dl.add((x, y, l))
    return dict(w=w, h=h, dead_chips=[], dead_links=sorted(map(list, dl)))


def strip_net(chips, src, radius, kind=(1, 1, 2)):
    place = {0: list(src)}
    kinds = {0: [1, 0, 1]}
    sinks = []
    for c in chips:
        v = len(place)
        place[v] = list(c)
        kinds[v] = list(kind)
        sinks.append(v)
    return dict(place={str(k): v for k, v in place.items()}, kinds={str(k): v for k, v in kinds.items()},
                sinks=sinks, radius=radius)


def extreme_cases(ctx):
    rng = ctx.rng
    cases = []

    def add(mach, chips, src, radius):
        cases.append(dict(machine=mach, net=strip_net(chips, src, radius), rseed=rng.randrange(1 << 30),
                          stream="extreme_shape"))

    # a single sink 1040 hops round a fault-free 2100 x 1 ring
    add(strip_machine(2100, 1, True), [(1040, 0)], (0, 0), 20)
    # a chain of sinks along a 1 x 1500 mesh strip (every route continues the previous one)
    step = rng.choice([7, 19, 40])
    add(strip_machine(1, 1500, False), [(0, y) for y in range(step, 1500, step)] + [(0, 1499)], (0, 0),
        rng.choice([0, 1, 20]))
    # 1200 x 2 torus: far sinks on both rows
    add(strip_machine(1200, 2, True), [(590, 1), (300, 0), (597, 0), (rng.randrange(400, 599), rng.randrange(2))],
        (0, 0), rng.choice([0, 2, 20]))
    # 1200 x 2 mesh: the whole length, source at a random end
    e = rng.choice([0, 1199])
    add(strip_machine(1200, 2, False), [(1199 - e, 1), (1199 - e, 0), (600, rng.randrange(2))] +
        [(x, rng.randrange(2)) for x in range(50, 1150, rng.choice([97, 211]))], (e, 0), rng.choice([0, 1, 5, 20]))
    if not ctx.quick:
        add(strip_machine(1, 2100, True), [(0, 1049)], (0, 0), 0)
        add(strip_machine(2100, 1, False), [(2099, 0), (1000, 0)], (0, 0), 3)
        add(strip_machine(1500, 1, False), [(x, 0) for x in range(0, 1500, 13)], (1499, 0), 1)
    # hundreds of sinks: a broadcast to every chip
    n = 16 if ctx.quick else 24
    bm = gen_large_machine(rng)
    bm["w"], bm["h"], bm["dead_chips"] = n, n, []
    bm["dead_links"] = [l for l in bm["dead_links"] if l[0] < n and l[1] < n]
    cases.append(dict(machine=bm, net=strip_net([(x, y) for x in range(n) for y in range(n) if (x, y) != (n // 2, 1)],
                                                (n // 2, 1), rng.choice([1, 2, 20])),
                      rseed=rng.randrange(1 << 30), stream="extreme_shape"))
    # deep trees AND the dead-link repair: one dead directed link on the way (the machine stays strongly
    # connected: the ring can be walked the other way round / the other row is intact)
    add(strip_machine(2100, 1, True, [(5, 0, 0)]), [(1040, 0)], (0, 0), 20)
    add(strip_machine(1200, 2, False, [(30, 0, 0)]), [(1150, 0)], (0, 0), 20)
    return cases


# --------------------------------------------------------------------------------------------
# HISTORIES: several route() calls in ONE process on objects the caller keeps, edits and passes again
def twin_of(rng, step):
    """a case equal to `step` in all but one aspect; returns (twin, what differs)"""
    import copy
    t = copy.deepcopy(step)
    mach, net = t["machine"], t["net"]
    dead = set(map(tuple, mach["dead_chips"]))
    live = [(x, y) for x in range(mach["w"]) for y in range(mach["h"]) if (x, y) not in dead]
    what = rng.choice(["same", "same", "radius", "dead_link", "live_link", "sink_added", "sink_removed", "sink_moved",
                       "cores", "api", "attrs", "attrs", "tape", "cut_off", "other_machine"])
    if what == "radius":
        net["radius"] = rng.choice([r for r in [0, 1, 2, 3, 20, 64] if r != net["radius"]])
    elif what == "dead_link":
        x, y = rng.choice(live)
        l = rng.randrange(6)
        if [x, y, l] not in mach["dead_links"]:
            mach["dead_links"] = sorted(mach["dead_links"] + [[x, y, l]])
    elif what == "live_link":
        if mach["dead_links"]:
            mach["dead_links"].remove(rng.choice(mach["dead_links"]))
    elif what == "sink_added":
        v = len(net["place"])
        net["place"][str(v)] = list(rng.choice(live))
        net["kinds"][str(v)] = gen_kind(rng)
        net["sinks"].append(v)
        if t.get("api"):
            t["api"]["vkinds"] = t["api"]["vkinds"] + [rng.choice(VKINDS)]
    elif what == "sink_removed":
        if net["sinks"]:
            net["sinks"].pop(rng.randrange(len(net["sinks"])))
    elif what == "sink_moved":
        if len(net["place"]) > 1:
            v = rng.randrange(1, len(net["place"]))
            net["place"][str(v)] = list(rng.choice(live))
    elif what == "cores":
        v = rng.randrange(len(net["place"]))
        net["kinds"][str(v)] = gen_kind(rng)
    elif what == "api":
        t["api"] = gen_api(rng, net)
    elif what == "attrs":
        t["attrs"] = gen_attrs(rng)              # the same net with another weight / list class / extra attributes
    elif what == "tape":
        t["rseed"] = rng.randrange(1 << 30)
    elif what == "cut_off":
        # every link INTO one sink chip is dead: the machine is disconnected and route() must say so
        chips = [tuple(net["place"][str(v)]) for v in net["sinks"] if net["place"][str(v)] != net["place"]["0"]]
        if chips:
            cx, cy = rng.choice(chips)
            extra = [[(cx - dx) % mach["w"], (cy - dy) % mach["h"], l] for l, (dx, dy) in enumerate(VECS)]
            mach["dead_links"] = sorted(set(map(tuple, mach["dead_links"])) | set(map(tuple, extra)))
            mach["dead_links"] = [list(e) for e in mach["dead_links"]]
    elif what == "other_machine":
        t["machine"] = gen_machine(rng, SIZES_H)
        t["net"] = gen_net(rng, t["machine"])
        t["api"] = gen_api(rng, t["net"]) if rng.random() < 0.5 else None
        t["attrs"] = gen_attrs(rng)
    if what in ("api", "other_machine") or not t.get("api"):
        pass
    # the api options that depend on the net must stay legal
    if t.get("api"):
        a = t["api"]
        a["vkinds"] = (a["vkinds"] + ["int"] * len(t["net"]["place"]))[:len(t["net"]["place"])]
        if has_core_alloc(t["net"]["kinds"]):
            a["allocations"] = "given"
    return t, what


SIZES_H = [(1, 1), (1, 3), (2, 1), (2, 2), (2, 3), (3, 3), (3, 4), (4, 4), (5, 5), (6, 4), (7, 2), (8, 8)]


def gen_history(rng):
    mach = gen_machine(rng, SIZES_H)
    net = gen_net(rng, mach)
    first = dict(machine=mach, net=net, rseed=rng.randrange(1 << 30),
                 api=gen_api(rng, net) if rng.random() < 0.6 else None, attrs=gen_attrs(rng))
    steps, notes = [first], ["first"]
    for _ in range(rng.randint(1, 4)):
        base = rng.choice(steps)
        t, what = twin_of(rng, base)
        if rng.random() < 0.3 and len(steps) == 1:
            steps.insert(0, t)                   # the twin pair in the other order
            notes.insert(0, what + "_first")
        else:
            steps.append(t)
            notes.append(what)
    for st in steps:
        st["after"] = rng.choice(["keep", "keep", "vandalise", "lazy", "nothing"])
    return dict(kind="history", steps=steps, notes=notes, share=rng.random() < 0.5)


def vandalise(rng_seed, last):
    """the caller edits in place what it was handed back: the routes dict and the tree's nodes"""
    from rig.place_and_route.routing_tree import RoutingTree
    from rig.routing_table import Routes
    r = _random.Random(rng_seed)
    root, routes = last["root"], last["routes"]
    nodes = list(node_ids(root, 5000).values())
    for _ in range(r.randint(1, 4)):
        how = r.randrange(6)
        n = r.choice(nodes)
        if how == 0:
            del n.children[:]
        elif how == 1:
            n.children.append((Routes(r.randrange(6)), "junk %s {}"))
        elif how == 2:
            n.children.reverse()
        elif how == 3:
            n.chip = (n.chip[0] + 1, n.chip[1])
        elif how == 4:
            n.children.append((Routes(r.randrange(6)), root))          # a cycle
        else:
            routes.clear()


def run_history(hist):
    """all steps of a history in order, in one process, after a fresh (re)load of the router module (module-level
    state: the memoised hexagons, default arguments) so that a replay reproduces"""
    import importlib
    from rig.place_and_route.route import ner
    from harness import common
    importlib.reload(ner)
    env = dict(share=bool(hist.get("share")))
    kept, pending, out = [], [], []
    for i, step in enumerate(hist["steps"]):
        res, rec = run_impl(step, env)
        rec["kept_changed"] = []
        # (c) results handed out earlier must still be what they were
        for (j, root, vid, budget, snap) in kept:
            try:
                now = flat_tree(root, budget, lambda c: vid.get(c, -1) if _hashable(c) else -1)
            except Exception as e:
                now = repr(e)
            if now != snap:
                rec["kept_changed"].append(j)
        kept = [k for k in kept if k[0] not in rec["kept_changed"]]
        # (d) iterators handed out earlier are resumed after this call
        for (j, its, full) in pending:
            try:
                with common.cpu_limit(5):
                    rest = [[id(n) for n in its[0]], [t[1] for t in its[1]]]
                got = [its[2][0] + rest[0], its[2][1] + rest[1]]
                if got != full:
                    rec["lazy_iter_diff"] = "iterators over the tree of step %d resumed after a later route() call " \
                        "yield %d / %d items, a fresh iteration %d / %d" % (j, len(got[0]), len(got[1]),
                                                                           len(full[0]), len(full[1]))
            except (Exception, common.ImplHang) as e:
                rec["lazy_iter_diff"] = "resuming the iterators of step %d: %r" % (j, e)
        pending = []
        if "ok" in res:
            last = env["last"]
            after = step.get("after", "nothing")
            rec["api_tags"].append("hist_result_" + after)
            if after == "keep":
                kept.append((i, last["root"], last["vid"], last["budget"], res["ok"]["tree"]))
            elif after == "vandalise":
                vandalise(step["rseed"], last)
            elif after == "lazy":
                root = last["root"]
                try:
                    full = [[id(n) for n in root], [t[1] for t in root.traverse()]]
                    it1, it2 = iter(root), root.traverse()
                    head = [[], []]
                    for _ in range(1 + step["rseed"] % 4):         # advanced alternately, then left half-way
                        n = next(it1, None)
                        if n is not None:
                            head[0].append(id(n))
                        t = next(it2, None)
                        if t is not None:
                            head[1].append(t[1])
                    kept.append((i, root, last["vid"], last["budget"], res["ok"]["tree"]))
                    pending.append((i, (it1, it2, head), full))
                except RecursionError:
                    pass
        out.append((res, rec))
    return out


def eval_history(ctx, hists):
    steps, impl, report = [], [], []
    for h in hists:
        outs = run_history(h)
        for st, o in zip(h["steps"], outs):
            steps.append(st)
            impl.append(o)
            report.append(h)
    eval_cases(ctx, steps, impl=impl, report=report, count=False)
    k = 0
    for h in hists:
        nontrivial = False
        for i, st in enumerate(h["steps"]):
            res, rec = impl[k]
            k += 1
            if rec["kept_changed"]:
                ctx.violation("earlier-result-changed",
                              "history of %d route() calls in one process: the tree(s) returned by call(s) %r were "
                              "different objects after call %d returned (the caller had not touched them)"
                              % (len(h["steps"]), rec["kept_changed"], i), h)
            if "ok" in res and (rec["repaired"] or len(st["net"]["sinks"]) >= 2):
                nontrivial = True
        for n in h["notes"]:
            ctx.tag("hist_twin_" + n)
        ctx.tag("hist_steps_%d" % len(h["steps"]))
        if h.get("share"):
            ctx.tag("hist_caller_reuses_and_edits_passed_objects")
        errs = ["err" in impl_i[0] for impl_i in impl[k - len(h["steps"]):k]]
        if any(errs[:-1]):
            ctx.tag("hist_continued_after_a_failed_call")
        ctx.case(h, nontrivial)


# --------------------------------------------------------------------------------------------
# several nets in ONE route() call: every net must get its own tree with its own leaves
def gen_multi(rng, mach):
    dead = set(map(tuple, mach["dead_chips"]))
    live = [(x, y) for x in range(mach["w"]) for y in range(mach["h"]) if (x, y) not in dead]
    pool = [rng.choice(live) for _ in range(rng.choice([2, 3, 4, 6]))]      # few chips => many coincidences
    place, kinds = {}, {}

    def new_vertex(chip):
        v = len(place)
        place[v] = list(chip)
        kinds[v] = gen_kind(rng)
        return v

    def pick():
        return rng.choice(pool) if rng.random() < 0.8 else rng.choice(live)

    def fresh_net():
        src = new_vertex(pick())
        sinks = [new_vertex(pick()) for _ in range(rng.choice([1, 1, 2, 3, 4]))]
        if rng.random() < 0.15:
            sinks.append(rng.choice(sinks))
        if rng.random() < 0.1:
            sinks.append(src)
        return dict(source=src, sinks=sinks, same_as=None)

    nets = [fresh_net()]
    for _ in range(rng.randint(1, 5)):
        base_i = rng.randrange(len(nets))
        base = nets[base_i]
        mode = rng.choice(["same_chips", "same_chips", "same_chips", "identical", "same_object", "share_some",
                           "shared_vertex", "fresh"])
        if mode == "same_chips":
            # same source chip, the same SET of sink chips, but other vertices / cores / endpoint routes
            src = base["source"] if rng.random() < 0.4 else new_vertex(place[base["source"]])
            chips = []
            for v in base["sinks"]:
                if place[v] not in chips:
                    chips.append(place[v])
            rng.shuffle(chips)
            sinks = []
            for c in chips:
                for _ in range(rng.choice([1, 1, 2])):
                    sinks.append(new_vertex(c))
            nets.append(dict(source=src, sinks=sinks, same_as=None))
        elif mode == "identical":
            nets.append(dict(source=base["source"], sinks=list(base["sinks"]), same_as=None))
        elif mode == "same_object":
            root_i = base_i if base["same_as"] is None else base["same_as"]
            nets.append(dict(source=base["source"], sinks=list(base["sinks"]), same_as=root_i))
        elif mode == "share_some":
            src = base["source"] if rng.random() < 0.5 else new_vertex(place[base["source"]])
            keep = [v for v in base["sinks"] if rng.random() < 0.6]
            sinks = [new_vertex(place[v]) if rng.random() < 0.5 else v for v in keep]
            sinks += [new_vertex(pick()) for _ in range(rng.choice([0, 1, 2]))]
            if not sinks:
                sinks = [new_vertex(pick())]
            nets.append(dict(source=src, sinks=sinks, same_as=None))
        elif mode == "shared_vertex":
            # the same vertex is a sink of several nets
            n = fresh_net()
            n["sinks"].append(rng.choice(base["sinks"]))
            rng.shuffle(n["sinks"])
            nets.append(n)
        else:
            nets.append(fresh_net())
    for n in nets:
        n["attrs"] = gen_attrs(rng)
    # at least one net that "carries no traffic" in half of the cases, among nets that do
    if rng.random() < 0.5:
        rng.choice(nets)["attrs"]["weight"] = rng.choice(["int0", "float0", "negzero", "neg_int", "nan", "np_float64_0",
                                                          "bool_false"])
    vkinds = [rng.choice(VKINDS) for _ in place] if rng.random() < 0.4 else None
    return dict(kind="multi", machine=mach, place={str(k): v for k, v in place.items()},
                kinds={str(k): v for k, v in kinds.items()}, nets=nets, radius=rng.choice([0, 1, 2, 20, 20]),
                rseed=rng.randrange(1 << 30), vkinds=vkinds, nets_as=rng.choice(["list", "list", "tuple", "generator",
                                                                                  "dictkeys"]))


def multi_sinks_json(case, net):
    out = []
    for v in net["sinks"]:
        out.append(sink_json(v, case["place"][str(v)], case["kinds"][str(v)]))
    return out


def node_ids(root, limit):
    """ids of the RoutingTree objects reachable from root (bounded; the graph may be cyclic when broken)"""
    from rig.place_and_route.routing_tree import RoutingTree
    seen, todo = {}, [root]
    while todo and len(seen) < limit:
        n = todo.pop()
        if id(n) in seen:
            continue
        seen[id(n)] = n
        for _, ch in n.children:
            if isinstance(ch, RoutingTree):
                todo.append(ch)
    return seen


def leaves_of_lookup(lookup, vid=None):
    from rig.place_and_route.routing_tree import RoutingTree
    leaves = {}
    for chip, node in lookup.items():
        lv = [[None if r is None else int(r), c if vid is None else vid(c)] for r, c in node.children
              if not isinstance(c, RoutingTree)]
        if lv:
            leaves["%d,%d" % chip] = lv
    return leaves


def run_impl_multi(case):
    """ONE route() call of the real code with all nets of the case; returns (result, recs): one record per
    ner_net call (= per net, in the unchanged code)"""
    from rig.place_and_route.route import ner
    from rig.place_and_route.route import utils as rutils
    import rig.geometry as geometry
    from rig.place_and_route.machine import Cores
    from rig.place_and_route.constraints import RouteEndpointConstraint
    from rig.netlist import Net
    from rig.routing_table import Routes

    from harness import common
    from rig.place_and_route.routing_tree import RoutingTree
    mach = case["machine"]
    machine = build_machine(mach)
    nv = len(case["place"])
    vk = case.get("vkinds") or ["int"] * nv
    vobj = [vertex_object(i, vk[i]) for i in range(nv)]
    # vertices with their own __eq__: the nets name them by other (equal) objects than placements / allocations do
    vnet = [vertex_object(i, vk[i]) if vk[i] in ("custom_hash", "const_hash") else vobj[i] for i in range(nv)]
    vid_map = {}
    for i, o in enumerate(vobj):
        vid_map[o] = i

    def vid(c):
        return vid_map.get(c, -1) if _hashable(c) else -1

    place = {vobj[int(k)]: tuple(v) for k, v in case["place"].items()}
    kinds = {int(k): v for k, v in case["kinds"].items()}
    allocations, constraints = {}, []
    for v, kd in sorted(kinds.items()):
        entry, endpoint = alloc_of_kind(v, kd, Cores)
        if entry is not None:
            allocations[vobj[v]] = entry
        if endpoint is not None:
            constraints.append(RouteEndpointConstraint(vobj[v], Routes(endpoint)))
    objs, mtags = [], []
    for n in case["nets"]:
        if n["same_as"] is not None:
            objs.append(objs[n["same_as"]])
        else:
            o, t = make_net(Net, vnet[n["source"]], [vnet[v] for v in n["sinks"]], n.get("attrs") or {})
            objs.append(o)
            mtags += t
    for k in set(vk):
        if k != "int":
            mtags.append("api_vertex_" + k)
    nets_as = case.get("nets_as") or "list"
    if len(set(map(id, objs))) < len(objs) and nets_as == "dictkeys":
        nets_as = "list"                       # the same Net object twice cannot be spelled as dict keys
    nets_arg = {"list": lambda: list(objs), "tuple": lambda: tuple(objs), "generator": lambda: (o for o in list(objs)),
                "dictkeys": lambda: {o: 1 for o in objs}.keys()}[nets_as]()
    if nets_as != "list":
        mtags.append("api_nets_as_" + nets_as)
    tape, recs = [], []
    fake = FakeRandom(case["rseed"], tape)
    orig = (geometry.random, rutils.random, ner.ner_net, ner.copy_and_disconnect_tree, ner.a_star,
            ner.avoid_dead_links)

    def w_ner_net(source, destinations, width, height, wrap_around=False, radius=10):
        dl = list(destinations)
        rec = dict(dests=[list(d) for d in dl], wrap=bool(wrap_around), copy=None, order=None, paths=[],
                   astar_calls=[], repaired=False)
        recs.append(rec)
        root, lookup = orig[2](source, dl, width, height, wrap_around, radius)
        rec["ner"] = forest_of_lookup(lookup)
        rec["lookup"] = lookup
        return root, lookup

    def w_copy(root, m):
        new_root, lookup, broken = orig[3](root, m)
        if recs:
            recs[-1]["copy"] = dict(lookup=forest_of_lookup(lookup),
                                    broken=sorted([p[0], p[1], c[0], c[1]] for p, c in broken),
                                    root=list(new_root.chip))
            recs[-1]["order"] = [[p[0], p[1], c[0], c[1]] for p, c in broken]
        return new_root, lookup, broken

    def w_a_star(sink, hsrc, sources, m, wrap):
        call = dict(sink=list(sink), hsrc=list(hsrc), sources=sorted(map(list, sources)), wrap=bool(wrap))
        if recs:
            recs[-1]["astar_calls"].append(call)
        path = orig[4](sink, hsrc, sources, m, wrap)
        call["path"] = [[int(d), c[0], c[1]] for d, c in path]
        if recs:
            recs[-1]["paths"].append(call["path"])
        return path

    def w_avoid(root, m, wrap_around=False):
        if recs:
            recs[-1]["repaired"] = True
        root, lookup = orig[5](root, m, wrap_around)
        if recs:
            recs[-1]["lookup"] = lookup
        return root, lookup

    geometry.random, rutils.random = fake, fake
    ner.ner_net, ner.copy_and_disconnect_tree, ner.a_star, ner.avoid_dead_links = w_ner_net, w_copy, w_a_star, w_avoid
    try:
        try:
            with common.cpu_limit(cpu_budget(mach)):
                routes = ner.route({v: {} for v in place}, nets_arg, machine, constraints, place, allocations,
                                   Cores, case["radius"])
        except common.ImplHang as e:
            _HANGS[0] += 1
            return {"err": "DidNotReturn", "msg": str(e)[:200], "tape": tape}, recs
        except RecursionError as e:
            return {"err": "RecursionError", "tape": tape}, recs
        except Exception as e:      # every exception is an outcome to be judged
            return {"err": err_name(e), "msg": str(e)[:200], "tape": tape}, recs
    finally:
        (geometry.random, rutils.random, ner.ner_net, ner.copy_and_disconnect_tree, ner.a_star,
         ner.avoid_dead_links) = orig
    limit = 4 * mach["w"] * mach["h"] + 20
    trees, ids, roots, missing = [], [], [], {}
    for i, o in enumerate(objs):
        # exactly one tree for every net handed in: the result is a dict whose keys are the nets
        try:
            root = routes[o]
            if not isinstance(root, RoutingTree):
                raise TypeError("the value is a %s" % type(root).__name__)
        except (KeyError, TypeError, AttributeError) as e:
            missing[i] = "%s (%s); Net.weight = %r" % (
                ("the returned dict has %d key(s) for %d net object(s)" % (len(routes), len(set(map(id, objs)))))
                if isinstance(routes, dict) else "route() returned a %s" % type(routes).__name__,
                type(e).__name__, getattr(o, "weight", None))
            roots.append(None)
            trees.append(None)
            ids.append({})
            continue
        roots.append(root)
        trees.append(flat_tree(root, 2 * mach["w"] * mach["h"] + 10, vid))
        ids.append(node_ids(root, limit))
    extra = 0
    if isinstance(routes, dict):
        extra = len([k for k in routes.keys() if not any(k is o for o in objs)])
    return {"ok": dict(trees=trees, ids=ids, roots=roots, objs=objs, missing=missing, extra=extra, vid=vid,
                       tags=mtags), "tape": tape}, recs


def eval_multi(ctx, cases):
    impl = [run_impl_multi(c) for c in cases]
    reqs = []
    for c, (res, recs) in zip(cases, impl):
        mach = c["machine"]
        reqs.append(mreq(mach, op="machine"))
        nets_json = []
        for i, n in enumerate(c["nets"]):
            rec = recs[i] if i < len(recs) else None
            dests = rec["dests"] if rec else sorted(set(tuple(c["place"][str(v)]) for v in n["sinks"]))
            nets_json.append(dict(source=c["place"][str(n["source"])], dests=[list(d) for d in dests],
                                  order=(rec["order"] if rec and rec["order"] else []),
                                  sinks=multi_sinks_json(c, n)))
        reqs.append(mreq(mach, op="route_nets", nets=nets_json, radius=c["radius"], tape=res["tape"], legacy=False))
        if "ok" in res:
            for n, tree in zip(c["nets"], res["ok"]["trees"]):
                if tree is not None:
                    reqs.append(mreq(mach, op="valid_tree", source=c["place"][str(n["source"])],
                                     sinks=multi_sinks_json(c, n), flat=tree))
        for rec in recs:
            for call in rec["astar_calls"]:
                if "path" in call:
                    reqs.append(mreq(mach, op="path_ok", sink=call["sink"], sources=call["sources"],
                                     path=call["path"]))
    replies = iter(ctx.lean(reqs))
    for c, (res, recs) in zip(cases, impl):
        mach, nets = c["machine"], c["nets"]
        minfo = next(replies)
        model = next(replies)
        verdicts = [(next(replies) if t is not None else None) for t in res["ok"]["trees"]] if "ok" in res else []
        for rec in recs:
            for call in rec["astar_calls"]:
                if "path" in call and next(replies) is not True:
                    ctx.mismatch("c03.a_star_spec", "the Lean specification pathOk is false on a path a_star "
                                 "returned inside route(): %s" % str(call)[:300], c)
        ctx.traces += 1
        strong = py_strong(mach)
        if minfo.get("strong") != strong:
            ctx.mismatch("c03.strongly_connected", "lean=%r python=%r" % (minfo.get("strong"), strong), c)
        # --- the property oracle on the implementation's own outcome, net by net
        if "ok" in res:
            io = res["ok"]
            for t in io["tags"]:
                ctx.tag(t)
            if io["extra"]:
                ctx.mismatch("c03.result_keys", "the dict route() returned has %d key(s) that are none of the %d nets "
                             "handed in" % (io["extra"], len(nets)), c)
            for i, (n, verdict) in enumerate(zip(nets, verdicts)):
                if verdict is None:
                    ctx.violation("no-tree-for-net",
                                  "route() with %d nets in one call returned normally but NO routing tree for net %d "
                                  "(source vertex %r on chip %r, sinks %r): %s; the property demands a tree for every "
                                  "net, whatever its weight or other attributes the router does not need"
                                  % (len(nets), i, n["source"], c["place"][str(n["source"])], multi_sinks_json(c, n),
                                     io["missing"].get(i)), c)
                    ctx.tag("multi_no_tree_for_net")
                    continue
                if not verdict.get("valid"):
                    why = verdict.get("why") or ["protocol"]
                    ctx.violation(why[0], "route() with %d nets in one call: the tree returned for net %d (source "
                                  "vertex %r on chip %r) is not a valid routing tree for that net's own sinks %r "
                                  "(%s)" % (len(nets), i, n["source"], c["place"][str(n["source"])],
                                            multi_sinks_json(c, n), ",".join(why)), c)
                if verdict.get("stubs"):
                    ctx.tag("stub_branch_left_by_repair")
            # no RoutingTree object may be shared between the trees of two different Net objects
            for i in range(len(nets)):
                for j in range(i + 1, len(nets)):
                    if io["objs"][i] is io["objs"][j]:
                        continue
                    if set(io["ids"][i]) & set(io["ids"][j]):
                        same = (c["place"][str(nets[i]["source"])] == c["place"][str(nets[j]["source"])] and
                                sorted(map(tuple, multi_sinks_json(c, nets[i]))) ==
                                sorted(map(tuple, multi_sinks_json(c, nets[j]))))
                        if same:
                            ctx.tag("alias_between_identical_nets")
                        else:
                            ctx.violation("tree-shared-between-nets",
                                          "route() with %d nets in one call: the trees of net %d and net %d (different "
                                          "sinks) share RoutingTree node objects, so leaves of one net appear on the "
                                          "tree of the other" % (len(nets), i, j), c)
            ctx.tag("multi_ok")
        elif res["err"] == "Disconnected":
            if minfo.get("strong") and strong:
                ctx.violation("disconnected-on-connected-machine",
                              "route() raised MachineHasDisconnectedSubregion although every working chip reaches "
                              "every other over working links: %s" % res.get("msg"), c)
            ctx.tag("multi_err_disconnected")
        elif res["err"] == "DidNotReturn":
            ctx.violation("did-not-return", "route() with %d nets did not return (%s); the model terminates on every "
                          "input (routeNets_only_failure)" % (len(nets), res.get("msg")), c)
            ctx.tag("multi_err_DidNotReturn")
        else:
            ctx.violation("undocumented-exception",
                          "route() raised %s (%s); the only permitted failure is MachineHasDisconnectedSubregion"
                          % (res["err"], res.get("msg")), c)
            ctx.tag("multi_err_" + res["err"])
        # --- correspondence with routeNets, net by net
        diffs = []
        if "proto_error" in model or "proto_error" in minfo:
            ctx.mismatch("c03.protocol", repr(model)[:300], c)
            continue
        mres, merr = model["results"], model["err"]
        if "ok" in res:
            if merr is not None or len(mres) != len(nets):
                diffs.append(("multi_outcome", merr, "ok"))
            if len(recs) != len(nets):
                diffs.append(("multi_ner_net_calls", len(nets), len(recs)))
        else:
            if merr != res["err"]:
                diffs.append(("multi_outcome", merr, res["err"]))
            if merr == "Disconnected" and minfo.get("strong"):
                diffs.append(("disconnected_theorem", "Disconnected", "stronglyConnected = true"))
            if len(recs) != len(mres) + 1 and not diffs:
                diffs.append(("multi_failing_net", len(mres), len(recs) - 1))
        if not diffs:
            for i, mo in enumerate(mres):
                rec = recs[i]
                if mo["ner"] != rec["ner"]:
                    diffs.append(("ner_net[net %d]" % i, mo["ner"], rec["ner"]))
                elif mo["repaired"] != rec["repaired"]:
                    diffs.append(("route_has_dead_links[net %d]" % i, mo["repaired"], rec["repaired"]))
                elif mo.get("model_valid") is not True:
                    diffs.append(("model_valid_theorem[net %d]" % i, mo.get("model_valid"), True))
                elif rec["copy"] is not None and mo["copy"] is not None and \
                        dict(mo["copy"], broken=sorted(mo["copy"]["broken"])) != rec["copy"]:
                    diffs.append(("copy_and_disconnect_tree[net %d]" % i, mo["copy"], rec["copy"]))
                elif mo["paths"] != rec["paths"]:
                    diffs.append(("a_star[net %d]" % i, mo["paths"], rec["paths"]))
                elif "ok" in res:
                    lookup = rec["lookup"]
                    if forest_of_lookup(lookup) != mo["forest"]:
                        diffs.append(("avoid_dead_links[net %d]" % i, mo["forest"], forest_of_lookup(lookup)))
                    elif leaves_of_lookup(lookup, res["ok"]["vid"]) != group_leaves(mo["leaves"]):
                        diffs.append(("sinks[net %d]" % i, group_leaves(mo["leaves"]),
                                      leaves_of_lookup(lookup, res["ok"]["vid"])))
                    else:
                        last = max(k for k in range(len(nets)) if res["ok"]["objs"][k] is res["ok"]["objs"][i])
                        if last == i and res["ok"]["roots"][i] is not None and (
                                          list(res["ok"]["roots"][i].chip) != mo["root"] or
                                          lookup.get(res["ok"]["roots"][i].chip) is not res["ok"]["roots"][i]):
                            diffs.append(("root[net %d]" % i, mo["root"], list(res["ok"]["roots"][i].chip)))
                if diffs:
                    break
        if diffs:
            st, a, b = diffs[0]
            ctx.mismatch("c03." + st.split("[")[0], "first differing stage %s: model=%s impl=%s"
                         % (st, str(a)[:400], str(b)[:400]), c)
            ctx.tag("mismatch_" + st.split("[")[0])
        # --- distribution
        ctx.tag("multi_nets_%d" % len(nets))
        groups = {}
        for n in nets:
            key = (tuple(c["place"][str(n["source"])]), frozenset(tuple(c["place"][str(v)]) for v in n["sinks"]))
            groups.setdefault(key, []).append(sorted(map(tuple, multi_sinks_json(c, n))))
        clash = any(len(set(map(repr, g))) > 1 for g in groups.values())
        if clash:
            ctx.tag("multi_same_chips_different_sinks")
        if any(len(g) > 1 and len(set(map(repr, g))) < len(g) for g in groups.values()):
            ctx.tag("multi_identical_nets")
        if any(n["same_as"] is not None for n in nets):
            ctx.tag("multi_same_net_object_twice")
        vs = [set(n["sinks"]) for n in nets]
        if any(vs[i] & vs[j] for i in range(len(nets)) for j in range(i + 1, len(nets))):
            ctx.tag("multi_vertex_sink_of_several_nets")
        if any(r["repaired"] for r in recs):
            ctx.tag("multi_repaired")
        ctx.case(c, clash or any(r["paths"] for r in recs))


# --------------------------------------------------------------------------------------------
# component streams: a_star and longest_dimension_first called directly (inputs route() rarely produces)
def gen_component(rng):
    mach = gen_machine(rng, SIZES_Q)
    dead = set(map(tuple, mach["dead_chips"]))
    live = [(x, y) for x in range(mach["w"]) for y in range(mach["h"]) if (x, y) not in dead]
    if rng.random() < 0.6 and len(live) >= 2:
        sink = rng.choice(live)
        others = [c for c in live if c != sink]
        srcs = rng.sample(others, min(len(others), rng.choice([1, 1, 2, 3, 6])))
        return dict(kind="a_star", machine=mach, sink=list(sink), sources=sorted(map(list, srcs)),
                    hsrc=list(rng.choice(srcs)), wrap=rng.random() < 0.5,
                    how=rng.choice(["set", "frozenset", "keyword", "subclass"]))
    k = rng.choice([0, 1, 2, 5, 13])
    vec = [rng.randint(-k, k), rng.randint(-k, k), rng.choice([0, 0, rng.randint(-k, k)])]
    return dict(kind="ldf", machine=mach, vector=vec, start=list(rng.choice(live)), rseed=rng.randrange(1 << 30),
                how=rng.choice(["positional", "positional", "keyword", "no_size", "vector_only", "list_args"]))


def eval_components(ctx, cases):
    from rig.place_and_route.route import ner
    from rig.place_and_route.route import utils as rutils
    from harness import common
    reqs, outs = [], []
    for c in cases:
        mach = c["machine"]
        how = c.get("how", "positional")
        ctx.tag("direct_%s_call_%s" % (c["kind"], how))
        if c["kind"] == "a_star":
            try:
                machine = build_machine(mach)
                if how == "subclass":
                    class SubMachine(type(machine)):
                        pass
                    machine = SubMachine(mach["w"], mach["h"], dead_chips=machine.dead_chips,
                                         dead_links=machine.dead_links)
                srcs = (frozenset if how == "frozenset" else set)(map(tuple, c["sources"]))
                with common.cpu_limit(cpu_budget(mach)):
                    if how == "keyword":
                        path = ner.a_star(sink=tuple(c["sink"]), heuristic_source=tuple(c["hsrc"]), sources=srcs,
                                          machine=machine, wrap_around=c["wrap"])
                    else:
                        path = ner.a_star(tuple(c["sink"]), tuple(c["hsrc"]), srcs, machine, c["wrap"])
                out = {"ok": [[int(d), n[0], n[1]] for d, n in path]}
            except common.ImplHang as e:
                out = {"err": "DidNotReturn"}
            except Exception as e:
                out = {"err": err_name(e)}
            reqs.append(mreq(mach, op="a_star", sink=c["sink"], hsrc=c["hsrc"], sources=c["sources"], wrap=c["wrap"]))
            reqs.append(mreq(mach, op="path_ok", sink=c["sink"], sources=c["sources"], path=out.get("ok", [])))
        else:
            tape = []
            fake = FakeRandom(c["rseed"], tape)
            orig = rutils.random
            rutils.random = fake
            # without width / height the walk does not wrap: the model (which always wraps) is asked for the same
            # walk far inside a huge machine and the answer is shifted back
            K, BIG = 1000, 4000
            start = tuple(c["start"]) if how != "vector_only" else (0, 0)
            try:
                with common.cpu_limit(5):
                    if how == "keyword":
                        p = rutils.longest_dimension_first(vector=tuple(c["vector"]), start=start, width=mach["w"],
                                                           height=mach["h"])
                    elif how == "no_size":
                        p = rutils.longest_dimension_first(tuple(c["vector"]), start)
                    elif how == "vector_only":
                        p = rutils.longest_dimension_first(tuple(c["vector"]))
                    elif how == "list_args":
                        p = rutils.longest_dimension_first(list(c["vector"]), list(start), mach["w"], mach["h"])
                    else:
                        p = rutils.longest_dimension_first(tuple(c["vector"]), start, mach["w"], mach["h"])
                if how in ("no_size", "vector_only"):
                    out = {"ok": [[int(d), n[0] + K, n[1] + K] for d, n in p]}
                else:
                    out = {"ok": [[int(d), n[0], n[1]] for d, n in p]}
            except common.ImplHang as e:
                out = {"err": "DidNotReturn"}
            except Exception as e:
                out = {"err": err_name(e)}
            finally:
                rutils.random = orig
            if how in ("no_size", "vector_only"):
                big = dict(w=BIG, h=BIG, dead_chips=[], dead_links=[])
                st = [start[0] + K, start[1] + K]
                reqs.append(dict(suite="c03", op="ldf", vector=c["vector"], start=st, w=BIG, h=BIG, tape=tape))
                reqs.append(mreq(big, op="hops_from", start=st, path=out.get("ok", [])))
            else:
                reqs.append(dict(suite="c03", op="ldf", vector=c["vector"], start=c["start"], w=mach["w"],
                                 h=mach["h"], tape=tape))
                reqs.append(mreq(mach, op="hops_from", start=c["start"], path=out.get("ok", [])))
        outs.append(out)
    rep = iter(ctx.lean(reqs))
    for c, out in zip(cases, outs):
        model, spec = next(rep), next(rep)
        ctx.traces += 1
        if model != out:
            ctx.mismatch("c03.%s_direct" % c["kind"], "model=%s impl=%s" % (str(model)[:300], str(out)[:300]), c)
        if "ok" in out and spec is not True:
            ctx.mismatch("c03.%s_spec" % c["kind"], "the Lean specification of %s is false on the implementation's "
                         "output %s" % (c["kind"], str(out)[:300]), c)
        ctx.tag("direct_%s_%s" % (c["kind"], "ok" if "ok" in out else out["err"]))
        ctx.case(c, c["kind"] == "a_star" and len(out.get("ok", [])) >= 3)


# --------------------------------------------------------------------------------------------
SIZES_Q = [(1, 1), (1, 2), (2, 1), (1, 4), (5, 1), (2, 2), (2, 3), (2, 6), (7, 2), (3, 3), (3, 4), (4, 4), (5, 5),
           (6, 6), (6, 4), (8, 8), (8, 8), (12, 12)]


def gen_cases(ctx, n):
    cases = []
    for i in range(n):
        mach = gen_machine(ctx.rng, SIZES_Q)
        net = gen_net(ctx.rng, mach)
        cases.append(dict(machine=mach, net=net, rseed=ctx.rng.randrange(1 << 30),
                          api=gen_api(ctx.rng, net) if ctx.rng.random() < 0.5 else None, attrs=gen_attrs(ctx.rng)))
    return cases


def exhaustive_small(ctx):
    """every fault map with <= 2 dead directed links, and every single dead chip, on tiny machines"""
    cases = []
    for (w, h) in [(2, 2), (1, 3), (2, 3), (3, 3)]:
        links = [[x, y, l] for x in range(w) for y in range(h) for l in range(6)]
        maps = [[]] + [[a] for a in links] + [list(p) for p in itertools.combinations(links, 2)]
        chips = [[x, y] for x in range(w) for y in range(h)]
        for dl in maps:
            for dc in [[]] + ([[c] for c in chips] if len(dl) <= 1 else []):
                mach = dict(w=w, h=h, dead_chips=dc, dead_links=dl)
                net = gen_net(ctx.rng, mach)
                cases.append(dict(machine=mach, net=net, rseed=ctx.rng.randrange(1 << 30), attrs=gen_attrs(ctx.rng)))
    return cases


def run(ctx):
    ctx.extra["rule"] = RULE
    ctx.assumptions += [
        "vertices of a net are placed on working chips, core allocations are non-empty slices within 0..18, endpoint "
        "routes are members of Routes (what place()/allocate() and the constraint classes produce)",
        "the model proves termination (fuel never exhausted) but does not model the interpreter's stack: that route() "
        "does not raise RecursionError on deep trees is validated by the extreme-shape stream (trees up to ~2100 levels)",
        "radius <= 64 in every generator: route(radius=R) builds all 3R(R+1)+1 hexagon offsets whatever the machine "
        "(R = 1000 on a 4x4 machine: 1.8 s and 460 MB, kept by the memo; R = 10^5 cannot complete) - reported, not "
        "generated",
        "independence of the nets of one call is a theorem about the model (routeNets_independent) and is validated "
        "on the code by the multi-net stream (per-net oracle, per-net correspondence, no shared node objects)",
        "whole-net validity and the error clause are proved for the Lean model on every machine (routeNet_valid, "
        "route_only_failure); the correspondence of the model with the code is validated per case, not proved"]
    cdir = os.path.join(os.path.dirname(os.path.dirname(os.path.abspath(__file__))), "corpus", "C03")
    if os.path.isdir(cdir):
        corpus = [json.load(open(os.path.join(cdir, f)))["case"] for f in sorted(os.listdir(cdir)) if f.endswith(".json")]
        eval_cases(ctx, [c for c in corpus if c.get("kind") not in ("multi", "history")])
        eval_history(ctx, [c for c in corpus if c.get("kind") == "history"])
        eval_multi(ctx, [c for c in corpus if c.get("kind") == "multi"])
        ctx.tag(*["corpus"] * len(corpus))
    n = ctx.scale(1500, 60000)
    if ctx.extended:
        n *= 4 if ctx.quick else 1
    cases = gen_cases(ctx, n)
    if not ctx.quick:
        cases += exhaustive_small(ctx)
    for i in range(0, len(cases), 2000):
        eval_cases(ctx, cases[i:i + 2000])
    large = gen_large(ctx, ctx.scale(200, 4000) * (4 if ctx.extended and ctx.quick else 1))
    for i in range(0, len(large), 500):
        eval_cases(ctx, large[i:i + 500])
    eval_cases(ctx, extreme_cases(ctx))
    hists = [gen_history(ctx.rng) for _ in range(ctx.scale(250, 6000) * (4 if ctx.extended and ctx.quick else 1))]
    for i in range(0, len(hists), 500):
        eval_history(ctx, hists[i:i + 500])
    nm = ctx.scale(500, 15000) * (4 if ctx.extended and ctx.quick else 1)
    multi = [gen_multi(ctx.rng, gen_machine(ctx.rng, SIZES_Q)) for _ in range(nm)]
    for i in range(0, len(multi), 1000):
        eval_multi(ctx, multi[i:i + 1000])
    comp = [gen_component(ctx.rng) for _ in range(n // 3)]
    for i in range(0, len(comp), 5000):
        eval_components(ctx, comp[i:i + 5000])


def replay(ctx, payload):
    ctx.extra["rule"] = RULE
    case = payload["case"]
    if case.get("kind") in ("a_star", "ldf"):
        eval_components(ctx, [case])
    elif case.get("kind") == "multi":
        eval_multi(ctx, [case])
    elif case.get("kind") == "history":
        eval_history(ctx, [case])
    else:
        eval_cases(ctx, [case])
