"""C17 - library calls neither modify their arguments nor remember earlier calls.

Static half (proved): the inventory of process-wide mutable state is regenerated
from the source (harness/gen/c17.py) and the Lean theorems show that, for the
state machine whose state is exactly that inventory, no history can change a
later result.  Dynamic half (validated here): histories of real library calls
followed by a probe call are compared with the same probe made first in a
fresh interpreter; every argument is deep-snapshotted before and after each
call; every mutable default object is compared with its source literal after
every history; the memo contents are compared with the Lean memo model."""
import ast
import concurrent.futures
import importlib
import inspect
import json
import os
import pkgutil
import subprocess
import sys

from harness import c17_calls

CLAIM = dict(
    text=("Partial by nature. Proved in Lean 4: (a) the inventory of ALL process-wide mutable state in rig/ (module-level "
          "containers, mutable default arguments, class-level containers, global statements), regenerated from the source "
          "by an AST scan on every run, is fully reviewed - every object is never written through, except the "
          "concentric-hexagon memo; (b) for the library state machine whose state is exactly that inventory, the memo is "
          "transparent and every call after ANY history returns what it returns in a fresh interpreter. Validated, not "
          "proved (object identity is outside any pure model): histories of real place/allocate/route/table/minimise/"
          "bit-field/controller calls followed by a probe are compared with the probe run first in a fresh interpreter; "
          "deep snapshots show no argument is modified; every mutable default equals its source literal after every "
          "history; memo contents equal the Lean memo model. "
          "(c) Static counterpart for ARGUMENTS and for state kept on OBJECTS (Props/C17Effects.lean): a conservative "
          "syntactic effect scan over every function, method and nested function of rig/ (rig/scripts, rig/wizard.py "
          "excluded), regenerated on every run (Gen/Effects.lean), lists every statement that can write in place through "
          "a parameter, through `self` outside __init__, through a module-level / function / class name or a closure "
          "cell; `effects_reviewed` (kernel-checked) shows every listed effect is one of 141 hand-reviewed entries (exact "
          "function + root + kind + statement text + multiplicity, each with its justification: documented in-place API "
          "on self, connection state, helper called on a fresh copy - the copying caller is named -, per-call kernel "
          "state, integer arithmetic, the memo); `effects_scan_alive` shows the table is not empty and contains the memo "
          "write the inventory knows. A new in-place edit of a caller's argument or a new cache on an object is an "
          "unreviewed entry: the obligation breaks, the build log (and the replay file) names the statement, and the "
          "extended dynamic search runs."),
    design="3/C17",
    note=("The AST scan is syntactic: writes through aliases of a shared object are not seen statically (they are what the "
          "dynamic default-equals-literal and fresh-interpreter comparisons are for). "
          "EFFECT SCAN - what it sees: mutating methods of built-in containers (append, extend, insert, pop, remove, clear, "
          "sort, reverse, update, setdefault, add, discard, popitem, __setitem__, deque / set-update methods ...), "
          "subscript / attribute assignment, del, augmented assignment, heapq / random.shuffle / setattr / next() on a "
          "reachable object; reachable = the parameter, or a name bound (also conditionally, in loops, by unpacking, in "
          "comprehensions, `with ... as`) to it, to an element / attribute / .get() / .items() / .values() of it, to the "
          "result of any other method of it, or to a local container that such an object was stored into; shallow copies "
          "(dict(p), list(p), p[:], p.copy(), sorted(p), comprehensions) are fresh at the top and still shared below, "
          "tracked by depth; *args / **kwargs are fresh containers of the caller's values; a rebinding `p = copy` ends "
          "the taint for the rest of its block only; passing a reachable object to one of rig's own functions / methods "
          "(resolved BY NAME, union over all definitions of that name; receivers count as self) that the scan found to "
          "write through that position, iterated to a fixpoint over the whole library; nested functions inherit the "
          "taint of the enclosing one; `global` / `nonlocal` statements and writes through free names. "
          "What it CANNOT see (stays with the dynamic checks: deep snapshots, fresh-interpreter comparison, defaults = "
          "literals): objects stored in an attribute of self / of a parameter in one method and written in another "
          "(e.g. a kernel object keeping the machine it was given), aliases through dictionary KEYS, results of "
          "FUNCTIONS that return (part of) their argument (e.g. apply_same_chip_constraints returns "
          "vertices_resources.copy(), whose inner dicts are the caller's), callables held in variables (`kernel(...)`, `place(...)` "
          "passed as parameter: resolved by name only), getattr with computed names / __dict__ / vars(), exec, C "
          "extensions (rig_c_sa, NumPy views: a slice of an array is treated as a copy), generators advanced by "
          "iteration, in-place operators hidden in methods of foreign classes, and augmented assignment on a bare name is "
          "listed but not propagated to callers. The kernel-checked comparison is on the 40-bit tag the generator "
          "computes from all fields of an entry; the field-by-field string comparison is evaluated by Lean's interpreter "
          "in the same build (kernel evaluation of string equality is too slow) and fails the build too."),
    technique="Lean 4 theorems over a source-generated state inventory + fresh-interpreter history correspondence")

THEOREMS = ["inventory_classified", "inventory_written_once", "memoGet_spec", "history_independent",
            "effects_reviewed", "effects_scan_alive"]

RULE = ("a case is a history of 2-8 library calls (placers incl. rand/sa with a seeded generator, allocate, route, "
        "routing_tree_to_tables, three minimisers, bit-field definitions, machine controllers on the simulated network) "
        "with differing arguments, followed by a probe call whose result is compared with the same call made first in a "
        "fresh interpreter; non-trivial = the history contains a call of the same function as the probe with different "
        "arguments; half of the histories are made of TWINS of the probe's problem (equal in everything but one of: dead "
        "links, one dead chip, resource exceptions, net weights, one constraint, one vertex's resources, wrap-around "
        "links), the public wrappers with all option combinations, the annealing placer on a problem with a pinned vertex "
        "and same-chip groups placed three times with vertices that are equal but hash differently, the three single-table "
        "minimisers on one kept table of mixed generality that is not in order, bit-field tags "
        "are also passed as the caller's own sets/lists shared between two bit fields; "
        "distinct = distinct (history, probe) specs")


def mutable_defaults():
    """[(qualified name, parameter, live default object, source literal or None)]"""
    import rig
    out = []
    for mi in pkgutil.walk_packages(rig.__path__, "rig."):
        if ".scripts" in mi.name or mi.name.endswith("wizard"):
            continue
        try:
            mod = importlib.import_module(mi.name)
        except Exception:
            continue
        try:
            tree = ast.parse(inspect.getsource(mod))
        except Exception:
            continue
        fdefs = {}
        for node in ast.walk(tree):
            if isinstance(node, ast.FunctionDef):
                fdefs.setdefault(node.name, []).append(node)
        seen = set()
        for name, obj in list(vars(mod).items()):
            cands = [(name, obj)]
            if inspect.isclass(obj) and obj.__module__ == mod.__name__:
                cands += [("%s.%s" % (name, k), v) for k, v in vars(obj).items()]
            for qn, f in cands:
                f = getattr(f, "__func__", f)
                f = getattr(f, "__wrapped__", f)
                if not inspect.isfunction(f) or f.__module__ != mod.__name__ or id(f) in seen:
                    continue
                seen.add(id(f))
                try:
                    sig = inspect.signature(f)
                except Exception:
                    continue
                for pname, p in sig.parameters.items():
                    d = p.default
                    if isinstance(d, (dict, list, set)):
                        lit = None
                        for fd in fdefs.get(f.__name__, []):
                            a = fd.args
                            pos = a.posonlyargs + a.args
                            pairs = list(zip(pos[len(pos) - len(a.defaults):], a.defaults))
                            pairs += [(k, v) for k, v in zip(a.kwonlyargs, a.kw_defaults) if v is not None]
                            for arg, dn in pairs:
                                if arg.arg == pname:
                                    try:
                                        lit = ast.literal_eval(dn)
                                    except Exception:
                                        if isinstance(dn, ast.Call) and not dn.args and not dn.keywords:
                                            lit = {"dict": {}, "list": [], "set": set()}.get(getattr(dn.func, "id", ""))
                        out.append(("%s.%s" % (mod.__name__, qn), pname, d, lit))
    return out


def fresh_probe(spec):
    from harness import common
    p = subprocess.run(["/venv/bin/python", "-W", "ignore", os.path.abspath(c17_calls.__file__),
                        common.REPO, json.dumps([spec])], stdout=subprocess.PIPE, stderr=subprocess.PIPE,
                       timeout=300, env=dict(os.environ, PYTHONHASHSEED="0"))
    if p.returncode != 0:
        return {"crash": p.stderr.decode()[-400:]}
    return json.loads(p.stdout.decode().strip().splitlines()[-1])


def history_events(hist, probe, defaults):
    """(runs in a forked child) the calls of one history, then the probe; what was observed"""
    from harness import common as common_mod
    events, res = [], None
    for spec in hist + [probe]:
        try:
            with common_mod.cpu_limit(120):
                res, before, after = c17_calls.do_call(spec)
        except common_mod.ImplHang as e:
            events.append(["mismatch", "c17.call", "call %r did not return: %s" % (spec, e)])
            res, before, after = ["did-not-return"], [], []
        except AssertionError as e:
            events.append(["violation", "argument-modified", "call %r: %s" % (spec, e)])
            res, before, after = None, [], []
        if before != after:
            i = next(i for i, (a, b) in enumerate(zip(before, after)) if a != b)
            events.append(["violation", "argument-modified", "call %r modified its argument #%d" % (spec, i)])
    for qn, pname, live, lit in defaults:
        if lit is not None and live != lit:
            events.append(["violation", "default-argument-mutated",
                           "default of %s(%s) is now %r, its source literal is %r" % (qn, pname, live, lit)])
    from rig.place_and_route.route import ner
    memo = [[r_, [list(c) for c in v]] for r_, v in sorted(ner._concentric_hexagons.items())]
    return {"events": events, "res": json.loads(json.dumps(res)), "memo": memo}


def in_child(fn):
    """run fn() in a forked child; its JSON-serialisable result (or {"crash": ...})"""
    r, w = os.pipe()
    pid = os.fork()
    if pid == 0:
        code = 0
        try:
            os.close(r)
            try:
                data = json.dumps(fn())
            except BaseException as e:       # noqa: reported to the parent
                import traceback
                data = json.dumps({"crash": "%s: %s" % (type(e).__name__, traceback.format_exc()[-800:])})
            with os.fdopen(w, "w") as f:
                f.write(data)
        except BaseException:
            code = 1
        finally:
            os._exit(code)
    os.close(w)
    with os.fdopen(r) as f:
        data = f.read()
    os.waitpid(pid, 0)
    try:
        return json.loads(data)
    except ValueError:
        return {"crash": "child died without a result"}


def run(ctx):
    from harness import common as common_mod
    ctx.extra["rule"] = RULE
    ctx.assumptions += ["argument immutability and identity-level aliasing are validated dynamically, not proved",
                        "vertices are ints so that no result depends on hash randomisation"]
    # ---- static inventory as seen by the model --------------------------------
    inv = ctx.lean([{"suite": "c17", "op": "inventory"}])[0]
    for e in inv:
        ctx.tag("inventory_" + e[4])
    ctx.extra["inventory"] = [e[:5] for e in inv]
    # ---- static effect table (what Gen/Effects.lean was generated from, for the evidence) ----
    try:
        from harness.gen import c17 as gen_c17
        effs = gen_c17.scan_effects(common_mod.REPO)
        ctx.extra["effects_listed"] = len(effs)
        for e in effs:
            ctx.tag("effect_" + e[3].split(":")[0].split("(")[0])
    except Exception as e:     # the translator reports this itself (broken translator obligation)
        ctx.extra["effects_listed"] = "scan failed: %r" % (e,)
    rng = ctx.rng
    n = ctx.scale(100, 1000)
    if ctx.extended:
        n *= 4
    defaults = mutable_defaults()
    ctx.extra["mutable_defaults_watched"] = len(defaults)
    histories = []
    for _ in range(n):
        probe = {"fn": rng.choice(c17_calls.FNS), "seed": rng.randrange(10 ** 6)}
        twins = rng.random() < 0.5
        if twins and rng.random() < 0.5:
            probe["vary"] = rng.randrange(70)
        hist = []
        for _ in range(rng.randrange(2, 9)):
            fn = probe["fn"] if rng.random() < 0.4 else rng.choice(c17_calls.FNS)
            h = {"fn": fn, "seed": rng.randrange(10 ** 6)}
            if twins and rng.random() < 0.7:
                # a TWIN of the probe's problem: equal in everything but one aspect
                h["seed"] = probe["seed"]
                if rng.random() < 0.85:
                    h["vary"] = rng.randrange(70)
            hist.append(h)
        histories.append((hist, probe))
    with concurrent.futures.ThreadPoolExecutor(max_workers=12) as ex:
        fresh = list(ex.map(fresh_probe, [p for _, p in histories]))
    # Every history runs in a forked child of this process, taken BEFORE any call of the library: each history
    # then starts from the pristine module state of a fresh import (memos empty, defaults untouched), as a user's
    # program would - state left by one history cannot mask what the next one would show.
    memo_all = {}
    for (hist, probe), fr in zip(histories, fresh):
        case = {"history": hist, "probe": probe}
        same_fn = any(h["fn"] == probe["fn"] for h in hist)
        ctx.case(case, same_fn)
        ctx.traces += 1
        ctx.tag("probe_" + probe["fn"])
        out = in_child(lambda: history_events(hist, probe, defaults))
        if "crash" in out:
            ctx.mismatch("c17.child", "the history could not be completed: %s" % out["crash"], case)
            continue
        for ev in out["events"]:
            if ev[0] == "violation":
                ctx.violation(ev[1], ev[2], case)
            else:
                ctx.mismatch(ev[1], ev[2], case)
        res = out["res"]
        for r_, m_ in out["memo"]:
            memo_all.setdefault(r_, m_)
            if memo_all[r_] != m_:
                ctx.violation("memo-inconsistent", "memo entry for radius %d differs between two histories" % r_, case)
        if isinstance(res, list) and res[:1] == ["not-reproducible"]:
            ctx.violation("seeded-result-not-reproducible",
                          "probe %r: the same problem, the same seeded generator, vertices equal call to call but "
                          "hashing differently (vertices_resources an OrderedDict): placements differ: %s" % (
                              probe, json.dumps(res[1:])[:300]), case)
        if isinstance(fr, dict) and "crash" in fr:
            ctx.mismatch("c17.fresh", "fresh interpreter probe crashed: %s" % fr["crash"], case)
        elif res != fr:
            ctx.violation("history-dependent-result",
                          "probe %r returned %s after the history but %s in a fresh interpreter" % (
                              probe, json.dumps(res)[:200], json.dumps(fr)[:200]), case)
        if isinstance(res, list) and res[:1] == ["raised"]:
            ctx.tag("probe_raised_" + res[1])
    # ---- memo contents vs the Lean memo model ---------------------------------
    memo = memo_all
    radii = sorted(memo)
    ctx.extra["memo_radii"] = radii
    if radii:
        model = ctx.lean([{"suite": "c17", "op": "memo", "radii": radii}])[0]
        for r, m in zip(radii, model):
            if memo[r] != m:
                ctx.violation("memo-inconsistent", "memo entry for radius %d differs from concentric_hexagons(%d)" % (r, r),
                              {"radius": r})
    else:
        ctx.mismatch("c17.memo", "no routing call filled the memo (or the memo moved): nothing compared", {})


def replay(ctx, payload):
    ctx.extra["rule"] = RULE
    case = payload["case"]
    if "probe" not in case:
        return run(ctx)
    fr = fresh_probe(case["probe"])
    out = in_child(lambda: history_events(case["history"], case["probe"], mutable_defaults()))
    ctx.case(case, True)
    if "crash" in out:
        ctx.mismatch("c17.child", "the history could not be completed: %s" % out["crash"], case)
        return
    for ev in out["events"]:
        if ev[0] == "violation":
            ctx.violation(ev[1], ev[2], case)
        else:
            ctx.mismatch(ev[1], ev[2], case)
    res = out["res"]
    if isinstance(res, list) and res[:1] == ["not-reproducible"]:
        ctx.violation("seeded-result-not-reproducible", "the same seeded call gives different placements", case)
    if res != fr:
        ctx.violation("history-dependent-result", "probe differs from the fresh interpreter", case)
