#!/bin/sh
# Offline build of the Lean models, proofs and the model driver.
set -e
cd "$(dirname "$0")"
python3 tools/mk_driver.py
/venv/bin/python harness/gen_tables.py "${RIG_REPO:-/repo}"
cd lean
lake build RigModel driver 2>&1 | tail -3
