/-
C08 helper lemmas: `_assign_field`, `_assign_fields`, `assign_fields` preserve the invariant.
-/
import RigModel.Lemmas.C08Inv
set_option linter.unusedSimpArgs false
set_option linter.unusedVariables false

namespace Rig.C08

/-- the mask `assigned_bits` contains the bits of every positioned potential field -/
def Covers (es : List Entry) (a : Nat) (fv : Reqs) : Prop :=
  ∀ x ∈ es, x.potential fv = true → ∀ l s, x.field.length = some l → x.field.startAt = some s →
    ∀ i, (rangeMask l s).testBit i = true → a.testBit i = true

theorem covers_potentialMask (es : List Entry) (fv : Reqs) : Covers es (potentialMask es fv) fv := by
  intro x hx hp l s hl hs i hi
  unfold potentialMask
  rw [testBit_foldl_or]
  simp only [Nat.zero_testBit, Bool.false_or, List.any_eq_true]
  refine ⟨x, ?_, ?_⟩
  · simp [potentialFields, List.mem_filter, hx, hp]
  · simp [fieldBits, hl, hs, hi]

theorem firstFit_some {L len a b : Nat} (h : firstFit L len a = some b) : a &&& rangeMask len b = 0 := by
  unfold firstFit at h
  split at h
  · simp at h
  · have := List.find?_some h
    simpa using this

theorem autoLen_pos (m : Nat) : 1 ≤ autoLen m := by unfold autoLen; omega
theorem lt_two_pow_autoLen (m : Nat) : m < 2 ^ autoLen m := Nat.lt_log2_self

theorem chosenLen_pos_of_none {f : Field} (h : f.length = none) : 1 ≤ f.chosenLen := by
  unfold Field.chosenLen
  rw [h]
  simp only
  split
  · have := autoLen_pos f.maxValue; omega
  · exact autoLen_pos _

/-- whichever of the two admissible automatic lengths is chosen, it covers `max_value` -/
theorem chosenLen_wide_of_none {f : Field} (h : f.length = none) : f.maxValue < 2 ^ f.chosenLen := by
  unfold Field.chosenLen
  rw [h]
  simp only
  split
  · exact Nat.lt_of_lt_of_le (lt_two_pow_autoLen _) (Nat.pow_le_pow_right (by decide) (Nat.le_succ _))
  · exact lt_two_pow_autoLen _

theorem mem_modifyFirst_of_mem {p : Entry → Bool} {f : Field → Field} {es : List Entry} {x : Entry} (h : x ∈ es) :
    ∃ x' ∈ modifyFirst p f es, x'.path = x.path ∧ x'.ident = x.ident := by
  induction es with
  | nil => simp at h
  | cons e es ih =>
    rw [modifyFirst_cons]
    split
    · rcases List.mem_cons.mp h with h | h
      · exact ⟨e.upd f, List.mem_cons_self, by simp [h], by simp [h]⟩
      · exact ⟨x, List.mem_cons_of_mem _ h, rfl, rfl⟩
    · rcases List.mem_cons.mp h with h | h
      · exact ⟨e, List.mem_cons_self, by simp [h], by simp [h]⟩
      · obtain ⟨x', hx', h1, h2⟩ := ih h
        exact ⟨x', List.mem_cons_of_mem _ hx', h1, h2⟩

/-- the node `p` holds a field called `i` -/
def HasNodeField (es : List Entry) (p : Path) (i : Ident) : Prop := ∃ y ∈ es, y.path = p ∧ y.ident = i

theorem hasNodeField_of_mem_nodeIdents {es : List Entry} {p : Path} {i : Ident} (h : i ∈ nodeIdents es p) :
    HasNodeField es p i := by
  simp only [nodeIdents, List.mem_map, List.mem_filter, beq_iff_eq] at h
  obtain ⟨y, ⟨hy, hp⟩, hi⟩ := h
  exact ⟨y, hy, hp, hi⟩

def setPos (len start : Nat) : Field → Field := fun f => { f with length := some len, startAt := some start }

/-- what one successful `_assign_field` does to the tree -/
theorem assignField_spec {st st' : State} {a a' : Nat} {ident : Ident} {p : Path}
    (hinv : Inv st) (hcov : Covers st.entries a p.flatten) (hnode : HasNodeField st.entries p ident)
    (h : assignField st a ident p.flatten = .ok (st', a')) :
    Inv st' ∧ Covers st'.entries a' p.flatten ∧ st'.length = st.length ∧
      (∀ q j, HasNodeField st.entries q j → HasNodeField st'.entries q j) := by
  obtain ⟨y0, hy0, hy0p, hy0i⟩ := hnode
  have hreq0 : y0.reqs = p.flatten := by simp [Entry.reqs, hy0p]
  have hs0 := hinv.selfc y0 hy0
  -- every entry that the update may touch is y0
  have hsame : ∀ y ∈ st.entries, (y.ident == ident && y.enabled p.flatten) = true → y = y0 := by
    intro y hy hpy
    simp only [Bool.and_eq_true, beq_iff_eq] at hpy
    exact reqs_of_enabled_same_ident hinv.unique hy hy0 hs0 (hpy.1.trans hy0i.symm) (hreq0 ▸ hpy.2)
  unfold assignField at h
  cases hg : getField st.entries ident p.flatten with
  | none => simp [hg] at h
  | some e =>
    have ⟨he, hei, hee⟩ := getField_some hg
    have hey : e = y0 := hsame e he (by simp [hei, hee])
    subst hey
    simp only [hg] at h
    -- the chosen length
    generalize hlen : e.field.chosenLen = len at h
    have hlen1 : 1 ≤ len := by
      unfold Field.chosenLen at hlen
      cases hl : e.field.length with
      | none => rw [← hlen]; exact chosenLen_pos_of_none hl
      | some l => simp [hl] at hlen; rw [← hlen]; exact hinv.lenPos e he l hl
    have hwide : e.field.maxValue < 2 ^ len := by
      unfold Field.chosenLen at hlen
      cases hl : e.field.length with
      | none => rw [← hlen]; exact chosenLen_wide_of_none hl
      | some l => simp [hl] at hlen; rw [← hlen]; exact hinv.wide e he l hl
    -- common conclusion for a chosen start
    have key : ∀ start, a &&& rangeMask len start = 0 → start + len ≤ st.length →
        st' = { st with entries := modifyField st.entries ident p.flatten (setPos len start) } →
        a' = a ||| rangeMask len start →
        Inv st' ∧ Covers st'.entries a' p.flatten ∧ st'.length = st.length ∧
          (∀ q j, HasNodeField st.entries q j → HasNodeField st'.entries q j) := by
      intro start hfree hfit hst' ha'
      subst hst' ha'
      have hfree' := (and_eq_zero_iff _ _).mp hfree
      -- the new range is disjoint from every positioned field that can be present with e
      have hdis : ∀ x ∈ st.entries, compatible e.reqs x.reqs → ∀ l' s', x.field.length = some l' →
          x.field.startAt = some s' → Disjoint start len s' l' := by
        intro x hx hc l' s' hl' hs'
        have hpot : x.potential p.flatten = true :=
          potential_of_compatible (r := e.reqs) (fun i w hw => hreq0 ▸ lookup_mem hw) hc
        have hl'1 := hinv.lenPos x hx l' hl'
        rw [← rangeMask_and_eq_zero len start l' s' hlen1 hl'1, and_eq_zero_iff]
        intro i ⟨h1, h2⟩
        exact hfree' i ⟨hcov x hx hpot l' s' hl' hs' i h2, h1⟩
      refine ⟨⟨?_, ?_, ?_, ?_, ?_, ?_⟩, ?_, rfl, ?_⟩
      · -- unique
        exact pairwise_modifyFirst hinv.unique (fun y hy hpy x hx => ⟨id, id⟩)
      · exact forall_modifyFirst hinv.selfc (fun y hy hpy => hinv.selfc y hy)
      · -- disjoint
        refine pairwise_modifyFirst hinv.disjoint ?_
        intro y hy hpy x hx
        have := hsame y hy hpy; subst this
        constructor
        · intro _ hc l s l' s' hl hs hl' hs'
          simp only [upd_field, setPos] at hl hs
          cases hl; cases hs
          exact hdis x hx hc l' s' hl' hs'
        · intro _ hc l s l' s' hl hs hl' hs'
          simp only [upd_field, setPos] at hl' hs'
          cases hl'; cases hs'
          have := hdis x hx (compatible_symm hc) l s hl hs
          exact this.symm
      · -- in range
        refine forall_modifyFirst hinv.inRange ?_
        intro y hy hpy l s hl hs
        simp only [upd_field, setPos] at hl hs
        cases hl; cases hs
        exact ⟨hlen1, hfit⟩
      · -- wide
        refine forall_modifyFirst hinv.wide ?_
        intro y hy hpy l hl
        have := hsame y hy hpy; subst this
        simp only [upd_field, setPos] at hl ⊢
        cases hl; exact hwide
      · -- lenPos
        refine forall_modifyFirst hinv.lenPos ?_
        intro y hy hpy l hl
        simp only [upd_field, setPos] at hl
        cases hl; exact hlen1
      · -- covers
        intro x hx hpot l s hl hs i hi
        rw [Nat.testBit_or]
        rcases mem_modifyFirst hx with h1 | ⟨y, hy, hpy, rfl⟩
        · simp [hcov x h1 hpot l s hl hs i hi]
        · simp only [upd_field, setPos] at hl hs
          cases hl; cases hs
          simp [hi]
      · intro q j ⟨y, hy, hyq, hyj⟩
        obtain ⟨y', hy', h1, h2⟩ := mem_modifyFirst_of_mem
          (p := fun e => e.ident == ident && e.enabled p.flatten)
          (f := setPos len start) hy
        exact ⟨y', hy', h1.trans hyq, h2.trans hyj⟩
    cases hst : e.field.startAt with
    | none =>
      simp only [hst] at h
      cases hff : firstFit st.length len a with
      | none => simp [hff] at h
      | some b =>
        simp only [hff] at h
        split at h
        · rename_i hfit
          simp only [Except.ok.injEq, Prod.mk.injEq] at h
          exact key b (firstFit_some hff) hfit h.1.symm h.2.symm
        · simp at h
    | some s =>
      simp only [hst] at h
      split at h
      · simp at h
      · rename_i hfree
        split at h
        · rename_i hfit
          simp only [Except.ok.injEq, Prod.mk.injEq] at h
          refine key s ?_ hfit h.1.symm h.2.symm
          simpa using hfree
        · simp at h

/-- the loop of `_assign_fields` (with the state kept when it raises) preserves the invariant -/
theorem assignLoopP_inv (ap : Bool) (p : Path) : ∀ (ids : List Ident) (st : State) (a : Nat),
    Inv st → Covers st.entries a p.flatten → (∀ i ∈ ids, HasNodeField st.entries p i) →
    Inv (assignLoopP ap p.flatten ids st a).1 ∧ (assignLoopP ap p.flatten ids st a).1.length = st.length ∧
      (∀ q j, HasNodeField st.entries q j → HasNodeField (assignLoopP ap p.flatten ids st a).1.entries q j) := by
  intro ids
  induction ids with
  | nil => intro st a hinv _ _; exact ⟨hinv, rfl, fun q j h => h⟩
  | cons i is ih =>
    intro st a hinv hcov hnodes
    have hrest : ∀ j ∈ is, HasNodeField st.entries p j := fun j hj => hnodes j (List.mem_cons_of_mem _ hj)
    unfold assignLoopP
    cases hg : getField st.entries i p.flatten with
    | none => exact ⟨hinv, rfl, fun q j h => h⟩
    | some e =>
      simp only
      split
      · exact ih st a hinv hcov hrest
      · split
        · cases hasg : assignField st a i p.flatten with
          | error err => exact ⟨hinv, rfl, fun q j h => h⟩
          | ok r =>
            obtain ⟨st', a'⟩ := r
            obtain ⟨hinv', hcov', hlen', hshape⟩ :=
              assignField_spec hinv hcov (hnodes i List.mem_cons_self) hasg
            obtain ⟨h1, h2, h3⟩ := ih st' a' hinv' hcov' (fun j hj => hshape p j (hrest j hj))
            exact ⟨h1, h2.trans hlen', fun q j h => h3 q j (hshape q j h)⟩
        · exact ih st a hinv hcov hrest

theorem assignRunP_inv : ∀ (items : List (Bool × Path)) (st : State), Inv st →
    Inv (assignRunP items st).1 ∧ (assignRunP items st).1.length = st.length := by
  intro items
  induction items with
  | nil => intro st h; exact ⟨h, rfl⟩
  | cons it rest ih =>
    intro st hinv
    obtain ⟨ap, p⟩ := it
    unfold assignRunP
    have hl := assignLoopP_inv ap p (nodeIdents st.entries p) st (potentialMask st.entries p.flatten) hinv
      (covers_potentialMask _ _) (fun i hi => hasNodeField_of_mem_nodeIdents hi)
    generalize assignLoopP ap p.flatten (nodeIdents st.entries p) st (potentialMask st.entries p.flatten) = r at hl
    obtain ⟨st', oe⟩ := r
    cases oe with
    | some e => exact ⟨hl.1, hl.2.1⟩
    | none =>
      obtain ⟨h1, h2⟩ := ih st' hl.1
      exact ⟨h1, h2.trans hl.2.1⟩

/-- `assign_fields` preserves the invariant - also when it raises half-way -/
theorem assignFieldsP_inv {st : State} (h : Inv st) :
    Inv (assignFieldsP st).1 ∧ (assignFieldsP st).1.length = st.length :=
  assignRunP_inv _ st h

end Rig.C08
