/-
C03 - helper lemmas and proofs (the dead-link repair and route(): only working links are used; leaves).
Core Lean only.
-/
import RigModel.Model.C03
import RigModel.Lemmas.C03AStar
import RigModel.Lemmas.C03Copy
import RigModel.Lemmas.C03Ner
set_option linter.unusedSimpArgs false
set_option linter.unusedVariables false
namespace Rig.C03.L
open Rig.C03 Rig.Gen.C03Links

theorem removeChild_sub (c : Chip) : ∀ (l : List (Nat × Chip)) k, k ∈ removeChild c l → k ∈ l := by
  intro l
  induction l with
  | nil => intro k hk; simp [removeChild] at hk
  | cons e r ih =>
    intro k hk
    simp only [removeChild] at hk
    split at hk
    · exact List.mem_cons_of_mem _ hk
    · simp only [List.mem_cons] at hk ⊢
      rcases hk with rfl | hk
      · exact Or.inl rfl
      · exact Or.inr (ih k hk)

theorem forestLive_detachIn {m : Machine} (c : Chip) : ∀ (order : List Chip) (f : Forest),
    ForestLive m f → ForestLive m (detachIn f c order) := by
  intro order
  induction order with
  | nil => intro f hf; exact hf
  | cons x r ih =>
    intro f hf
    simp only [detachIn]
    split
    · intro n hn
      simp only [List.mem_map] at hn
      obtain ⟨n0, hn0, rfl⟩ := hn
      have h0 := hf n0 hn0
      split
      · exact ⟨h0.1, fun k hk => h0.2 k (removeChild_sub c _ k hk)⟩
      · exact h0
    · exact ih f hf

theorem chainTo_head {m : Machine} {s : Chip} {d : Nat} {n : Chip} {r : List (Nat × Chip)}
    (h : chainTo m s ((d, n) :: r) = true) : d < 6 ∧ linkOk m n d = true := by
  cases r with
  | nil =>
    simp only [chainTo, Bool.and_eq_true, decide_eq_true_eq] at h
    exact ⟨h.1.1, h.1.2⟩
  | cons e r =>
    obtain ⟨d', n'⟩ := e
    simp only [chainTo, Bool.and_eq_true, decide_eq_true_eq] at h
    exact ⟨h.1.1.1, h.1.1.2⟩

theorem repairStep_live {m : Machine} {legacy : Bool} {child : Chip} {childChips : List Chip}
    {st st' : RepairState} {e : Nat × Chip} (hf : ForestLive m st.f) (hc : chipOk m e.2 = true)
    (hop : HopOk m (st.last, st.lastDir, e.2))
    (h : repairStep legacy child childChips st e = .ok st') :
    ForestLive m st'.f ∧ st'.last = e.2 ∧ st'.lastDir = e.1 := by
  unfold repairStep at h
  simp only [bind, Except.bind, pure, Except.pure] at h
  split at h
  · split at h
    · simp at h
    · simp only [Except.ok.injEq] at h
      subst h
      exact ⟨forestLive_addChild (forestLive_insertNew hf hc) hop, rfl, rfl⟩
  · split at h
    · split at h
      · simp at h
      · simp only [Except.ok.injEq] at h
        subst h
        exact ⟨forestLive_addChild (forestLive_detachIn _ _ _ hf) hop, rfl, rfl⟩
    · simp only [Except.ok.injEq] at h
      subst h
      exact ⟨forestLive_addChild (forestLive_detachIn _ _ _ hf) hop, rfl, rfl⟩

theorem repairFold_live {m : Machine} {legacy : Bool} {child : Chip} {childChips : List Chip}
    (hchild : chipOk m child = true) :
    ∀ (rest : List (Nat × Chip)) (st st' : RepairState), ForestLive m st.f →
      chainTo m child ((st.lastDir, st.last) :: rest) = true →
      rest.foldlM (repairStep legacy child childChips) st = .ok st' →
      ForestLive m (st'.f.addChild st'.last (st'.lastDir, child)) := by
  intro rest
  induction rest with
  | nil =>
    intro st st' hf hch h
    simp only [List.foldlM, pure, Except.pure, Except.ok.injEq] at h
    subst h
    simp only [chainTo, Bool.and_eq_true, decide_eq_true_eq, beq_iff_eq] at hch
    exact forestLive_addChild hf ⟨hch.1.1, hch.1.2, hchild, hch.2.symm⟩
  | cons e r ih =>
    intro st st' hf hch h
    obtain ⟨d, c⟩ := e
    simp only [chainTo, Bool.and_eq_true, decide_eq_true_eq, beq_iff_eq] at hch
    have hc : chipOk m c = true := linkOk_chipOk (chainTo_head hch.2).2
    simp only [List.foldlM, bind, Except.bind] at h
    split at h
    · simp at h
    · rename_i st1 h1
      have hs := repairStep_live (e := (d, c)) hf hc ⟨hch.1.1.1, hch.1.1.2, hc, hch.1.2.symm⟩ h1
      refine ih st1 st' hs.1 ?_ h
      rw [hs.2.1, hs.2.2]
      exact hch.2

theorem repairOne_live {m : Machine} {wrap legacy : Bool} {f f' : Forest} {pc : Chip × Chip}
    {path : List (Nat × Chip)} (hf : ForestLive m f) (hchild : chipOk m pc.2 = true)
    (h : repairOne m wrap legacy f pc = .ok (f', path)) : ForestLive m f' := by
  unfold repairOne at h
  simp only [bind, Except.bind] at h
  split at h
  · simp at h
  · rename_i cc hcc
    split at h
    · simp at h
    · rename_i p hp
      have hpok := aStar_path _ _ _ _ _ _ (chipOk_inRange hchild) hp
      simp only [pathOk, Bool.and_eq_true] at hpok
      split at h
      · simp at h
      · rename_i d0 c0 rest
        split at h
        · simp at h
        · rename_i st' hfold
          simp only [pure, Except.pure, Except.ok.injEq, Prod.mk.injEq] at h
          obtain ⟨rfl, _⟩ := h
          exact repairFold_live hchild rest _ st' hf hpok.1 hfold

theorem repairAll_live {m : Machine} {wrap legacy : Bool} :
    ∀ (order : List (Chip × Chip)) (f : Forest) (ps : List (List (Nat × Chip))) (f' : Forest)
      (ps' : List (List (Nat × Chip))), ForestLive m f → (∀ pc, pc ∈ order → chipOk m pc.2 = true) →
      repairAll m wrap legacy order f ps = .ok (f', ps') → ForestLive m f' := by
  intro order
  induction order with
  | nil =>
    intro f ps f' ps' hf _ h
    simp only [repairAll, pure, Except.pure, Except.ok.injEq, Prod.mk.injEq] at h
    obtain ⟨rfl, _⟩ := h
    exact hf
  | cons pc r ih =>
    intro f ps f' ps' hf ho h
    simp only [repairAll, bind, Except.bind] at h
    split at h
    · simp at h
    · rename_i res hres
      obtain ⟨f1, p1⟩ := res
      exact ih _ _ _ _ (repairOne_live hf (ho pc (by simp)) hres) (fun pc' h' => ho pc' (by simp [h'])) h

/-- children recorded in `broken_links` are working chips -/
def BrokenAlive (m : Machine) (st : CopyState) : Prop := ∀ pc, pc ∈ st.broken → chipOk m pc.2 = true

theorem visit_broken {m : Machine} {st st' : CopyState} {np : Option Chip} {dir : Nat} {oldc nn : Chip}
    (hb : BrokenAlive m st) (h : st.visit m np dir oldc = .ok (nn, st')) : BrokenAlive m st' := by
  unfold CopyState.visit at h
  split at h
  · rename_i halive
    split at h
    · simp at h
    · split at h
      · simp only [pure, Except.pure, Except.ok.injEq, Prod.mk.injEq] at h
        obtain ⟨_, rfl⟩ := h
        exact hb
      · split at h
        · simp only [pure, Except.pure, Except.ok.injEq, Prod.mk.injEq] at h
          obtain ⟨_, rfl⟩ := h
          exact hb
        · simp only [pure, Except.pure, Except.ok.injEq, Prod.mk.injEq] at h
          obtain ⟨_, rfl⟩ := h
          intro pc hpc
          simp only at hpc
          split at hpc
          · exact hb pc hpc
          · simp only [List.mem_append, List.mem_singleton] at hpc
            rcases hpc with hpc | rfl
            · exact hb pc hpc
            · exact halive
  · split at h
    · simp at h
    · simp only [pure, Except.pure, Except.ok.injEq, Prod.mk.injEq] at h
      obtain ⟨_, rfl⟩ := h
      exact hb

theorem copyLoop_broken {old : Forest} {m : Machine} :
    ∀ (fuel : Nat) (q : List (Option Chip × Nat × Chip)) (st st' : CopyState),
      BrokenAlive m st → copyLoop old m fuel q st = .ok st' → BrokenAlive m st' := by
  intro fuel
  induction fuel with
  | zero =>
    intro q st st' hf h
    cases q with
    | nil => simp only [copyLoop, pure, Except.pure, Except.ok.injEq] at h; subst h; exact hf
    | cons a q => simp [copyLoop] at h
  | succ fuel ih =>
    intro q st st' hf h
    cases q with
    | nil => simp only [copyLoop, pure, Except.pure, Except.ok.injEq] at h; subst h; exact hf
    | cons a q =>
      obtain ⟨np, dir, oldc⟩ := a
      simp only [copyLoop, bind, Except.bind] at h
      split at h
      · simp at h
      · rename_i res hvis
        obtain ⟨nn, st1⟩ := res
        exact ih _ _ _ (visit_broken hf hvis) h

theorem routeNet_repaired_live (m : Machine) (src : Chip) (dests : List Chip) (radius : Nat) (t : Tape)
    (order : List (Chip × Chip)) (sinks : List Sink) (legacy : Bool) (r : Result)
    (h : routeNet m src dests radius t order sinks legacy = .ok r) (hr : r.repaired = true) :
    ForestLive m r.forest := by
  unfold routeNet at h
  simp only [bind, Except.bind] at h
  split at h
  · simp at h
  · rename_i ft hner
    obtain ⟨f0, t0⟩ := ft
    simp only at h
    split at h
    · split at h
      · simp at h
      · rename_i cs hcs
        split at h
        · rename_i root hroot
          simp only [pure, Except.pure] at h
          split at h
          · simp at h
          · rename_i hord
            split at h
            · simp at h
            · rename_i fp hrep
              obtain ⟨f, paths⟩ := fp
              simp only at h
              split at h
              · simp at h
              · simp only [Except.ok.injEq] at h
                subst h
                simp only
                have hlive := copyAndDisconnect_live _ _ _ _ hcs
                have hbr : BrokenAlive m cs := by
                  unfold copyAndDisconnect at hcs
                  exact copyLoop_broken _ _ _ _ (by intro pc hpc; simp at hpc) hcs
                have hord' : isOrderingOf order cs.broken = true := by simpa using hord
                simp only [isOrderingOf, Bool.and_eq_true, List.all_eq_true, List.contains_iff_mem] at hord'
                exact repairAll_live _ _ _ _ _ hlive (fun pc hpc => hbr pc (hord'.1.2 pc hpc)) hrep
        · simp at h
    · split at h
      · simp at h
      · simp only [pure, Except.pure, Except.ok.injEq] at h
        subst h
        simp at hr

theorem kids_mem {f : Forest} {c : Chip} {k : Nat × Chip} (h : k ∈ f.kids c) :
    ∃ n, n ∈ f ∧ n.1 = c ∧ k ∈ n.2 := by
  unfold Forest.kids at h
  split at h
  · rename_i e he
    have h1 := List.mem_of_find?_eq_some he
    have h2 := List.find?_some he
    exact ⟨e, h1, by simpa using h2, h⟩
  · simp at h

theorem toTree_chip {f : Forest} {leaves : List Leaf} : ∀ (fuel : Nat) (c : Chip) (t : Tree),
    toTree f leaves fuel c = some t → t.chip = c := by
  intro fuel c t h
  cases fuel with
  | zero => simp [toTree] at h
  | succ n =>
    simp only [toTree, bind, Option.bind] at h
    split at h
    · simp at h
    · simp only [pure, Option.some.injEq] at h
      subst h
      rfl

/-- the edge `(c, l, c')` is an edge of the forest -/
def InForest (f : Forest) (e : Chip × Nat × Chip) : Prop := ∃ n, n ∈ f ∧ n.1 = e.1 ∧ (e.2.1, e.2.2) ∈ n.2

theorem toTree_edges {f : Forest} {leaves : List Leaf} : ∀ (fuel : Nat) (c : Chip) (t : Tree),
    toTree f leaves fuel c = some t → ∀ e, e ∈ t.edges → InForest f e := by
  intro fuel
  induction fuel with
  | zero => intro c t h; simp [toTree] at h
  | succ n ih =>
    intro c t h
    simp only [toTree, bind, Option.bind] at h
    split at h
    · simp at h
    · rename_i subs hsubs
      simp only [pure, Option.some.injEq] at h
      subst h
      simp only [Tree.edges]
      -- generalise over the list of children still to be unfolded
      have aux : ∀ (ks : List (Nat × Chip)) (subs : List (Nat × Tree)),
          ks.mapM (fun e => (toTree f leaves n e.2).map fun t => (e.1, t)) = some subs →
          (∀ k, k ∈ ks → k ∈ f.kids c) → ∀ e, e ∈ edgesL c subs → InForest f e := by
        intro ks
        induction ks with
        | nil =>
          intro subs hm _ e he
          simp only [List.mapM_nil, pure, Option.some.injEq] at hm
          subst hm
          simp [edgesL] at he
        | cons k ks ihk =>
          intro subs hm hk e he
          simp only [List.mapM_cons, bind, Option.bind] at hm
          split at hm
          · simp at hm
          · rename_i b hb
            simp only at hm
            split at hm
            · simp at hm
            · rename_i bs hbs
              simp only [pure, Option.some.injEq] at hm
              subst hm
              simp only [Option.map_eq_some_iff] at hb
              obtain ⟨t', ht', rfl⟩ := hb
              simp only [edgesL, List.mem_cons, List.mem_append] at he
              rcases he with rfl | he | he
              · obtain ⟨n0, hn0, hn1, hn2⟩ := kids_mem (hk k (by simp))
                exact ⟨n0, hn0, hn1, by rw [toTree_chip _ _ _ ht']; exact hn2⟩
              · exact ih _ _ ht' e he
              · exact ihk bs hbs (fun k' h' => hk k' (by simp [h'])) e he
      exact aux _ _ hsubs (fun k hk => hk)

/-- every edge is a working link of a working chip that leads to the adjacent chip -/
def ForestLinks (m : Machine) (f : Forest) : Prop :=
  ∀ n, n ∈ f → ∀ k, k ∈ n.2 → k.1 < 6 ∧ linkOk m n.1 k.1 = true ∧ k.2 = step m n.1 k.1

theorem forestLinks_of_live {m : Machine} {f : Forest} (h : ForestLive m f) : ForestLinks m f := by
  intro n hn k hk
  have := (h n hn).2 k hk
  exact ⟨this.1, this.2.1, this.2.2.2⟩

theorem routeNet_links (m : Machine) (src : Chip) (dests : List Chip) (radius : Nat) (t : Tape)
    (order : List (Chip × Chip)) (sinks : List Sink) (legacy : Bool) (r : Result)
    (h : routeNet m src dests radius t order sinks legacy = .ok r) : ForestLinks m r.forest := by
  cases hr : r.repaired with
  | true => exact forestLinks_of_live (routeNet_repaired_live m src dests radius t order sinks legacy r h hr)
  | false =>
    unfold routeNet at h
    simp only [bind, Except.bind] at h
    split at h
    · simp at h
    · rename_i ft hner
      obtain ⟨f0, t0⟩ := ft
      simp only at h
      split at h
      · -- repaired branch: contradiction with hr
        split at h
        · simp at h
        · split at h
          · simp only [pure, Except.pure] at h
            split at h
            · simp at h
            · split at h
              · simp at h
              · split at h
                · simp at h
                · simp only [Except.ok.injEq] at h
                  subst h
                  simp at hr
          · simp at h
      · rename_i hdead
        split at h
        · simp at h
        · simp only [pure, Except.pure, Except.ok.injEq] at h
          subst h
          simp only
          have hh := nerNet_hops m src dests (hasWrap m) radius t t0 f0 hner
          have hd : routeHasDeadLinks f0 m = false := by simpa using hdead
          intro n hn k hk
          have h1 := hh n hn k hk
          refine ⟨h1.1, ?_, h1.2⟩
          simp only [routeHasDeadLinks, List.any_eq_false, Bool.not_eq_true, Bool.not_eq_false'] at hd
          simpa using hd n hn k hk

theorem attachSinks_eq {f : Forest} : ∀ (sinks : List Sink) (lv : List Leaf),
    attachSinks f sinks = .ok lv → lv = expectedLeaves sinks := by
  intro sinks
  induction sinks with
  | nil => intro lv h; simp only [attachSinks, pure, Except.pure, Except.ok.injEq] at h; subst h; rfl
  | cons s r ih =>
    intro lv h
    simp only [attachSinks] at h
    split at h
    · simp only [bind, Except.bind] at h
      split at h
      · simp at h
      · rename_i rest hrest
        simp only [pure, Except.pure, Except.ok.injEq] at h
        subst h
        rw [ih rest hrest]
        simp [expectedLeaves]
    · simp at h

theorem routeNet_leaves (m : Machine) (src : Chip) (dests : List Chip) (radius : Nat) (t : Tape)
    (order : List (Chip × Chip)) (sinks : List Sink) (legacy : Bool) (r : Result)
    (h : routeNet m src dests radius t order sinks legacy = .ok r) : r.leaves = expectedLeaves sinks := by
  unfold routeNet at h
  simp only [bind, Except.bind] at h
  split at h
  · simp at h
  · rename_i ft hner
    obtain ⟨f0, t0⟩ := ft
    simp only at h
    split at h
    · split at h
      · simp at h
      · split at h
        · simp only [pure, Except.pure] at h
          split at h
          · simp at h
          · split at h
            · simp at h
            · split at h
              · simp at h
              · rename_i lv hlv
                simp only [Except.ok.injEq] at h
                subst h
                exact attachSinks_eq _ _ hlv
        · simp at h
    · split at h
      · simp at h
      · rename_i lv hlv
        simp only [pure, Except.pure, Except.ok.injEq] at h
        subst h
        exact attachSinks_eq _ _ hlv

theorem toTree_leaves {f : Forest} {leaves : List Leaf} : ∀ (fuel : Nat) (c : Chip) (t : Tree),
    toTree f leaves fuel c = some t → ∀ lf, lf ∈ t.leafList → lf ∈ leaves := by
  intro fuel
  induction fuel with
  | zero => intro c t h; simp [toTree] at h
  | succ n ih =>
    intro c t h
    simp only [toTree, bind, Option.bind] at h
    split at h
    · simp at h
    · rename_i subs hsubs
      simp only [pure, Option.some.injEq] at h
      subst h
      have aux : ∀ (ks : List (Nat × Chip)) (subs : List (Nat × Tree)),
          ks.mapM (fun e => (toTree f leaves n e.2).map fun t => (e.1, t)) = some subs →
          ∀ lf, lf ∈ leafL subs → lf ∈ leaves := by
        intro ks
        induction ks with
        | nil =>
          intro subs hm lf he
          simp only [List.mapM_nil, pure, Option.some.injEq] at hm
          subst hm
          simp [leafL] at he
        | cons k ks ihk =>
          intro subs hm lf he
          simp only [List.mapM_cons, bind, Option.bind] at hm
          split at hm
          · simp at hm
          · rename_i b hb
            simp only at hm
            split at hm
            · simp at hm
            · rename_i bs hbs
              simp only [pure, Option.some.injEq] at hm
              subst hm
              simp only [Option.map_eq_some_iff] at hb
              obtain ⟨t', ht', rfl⟩ := hb
              simp only [leafL, List.mem_append] at he
              rcases he with he | he
              · exact ih _ _ ht' lf he
              · exact ihk bs hbs lf he
      intro lf hlf
      simp only [Tree.leafList, List.mem_append, List.mem_map, List.mem_filter] at hlf
      rcases hlf with ⟨p, ⟨l0, ⟨hl0, hc0⟩, rfl⟩, rfl⟩ | hlf
      · have : l0.1 = c := by simpa using hc0
        rw [← this]
        exact hl0
      · exact aux _ _ hsubs lf hlf
end Rig.C03.L
