/-
C02 - the annealing kernel (sa/python_kernel.py): state invariant of `_swap` / `_step`.
-/
import RigModel.Lemmas.C02Init
import RigModel.Lemmas.C02Merge
set_option linter.unusedSimpArgs false
set_option linter.unusedVariables false

namespace Rig.C02

/-! ### exact change of the load when one vertex is (re)placed -/

theorem load_aset_eq (vr : VR) (p : Placement) (v : Vtx) (b c : Chip) (d : Res) (i : Nat)
    (hn : (keys vr).Nodup) (hv : aget vr v = some d) :
    load vr (aset p v b) c i =
      load vr p c i - (if aget p v = some c then dem d i else 0) + (if b = c then dem d i else 0) := by
  induction vr with
  | nil => simp [aget] at hv
  | cons hd t ih =>
    obtain ⟨u, du⟩ := hd
    simp only [keys, List.map_cons, List.nodup_cons] at hn
    by_cases hu : u = v
    · subst hu
      simp [aget] at hv; subst hv
      simp only [load, aget_aset_self]
      rw [load_aset_notin t p u b c i (by simpa [keys] using hn.1)]
      by_cases hc : b = c
      · subst hc; simp only [if_true]; split <;> omega
      · have : ¬ some b = some c := fun h => hc (Option.some.inj h)
        simp only [if_neg hc, if_neg this]; split <;> omega
    · simp only [aget, hu, if_false] at hv
      have hne : v ≠ u := fun h => hu h.symm
      simp only [load, aget_aset_ne p b hne]
      have := ih hn.2 hv
      omega

theorem load_congr_chip (vr : VR) (p q : Placement) (c : Chip) (i : Nat)
    (h : ∀ v, aget p v = some c ↔ aget q v = some c) : load vr p c i = load vr q c i := by
  induction vr with
  | nil => rfl
  | cons hd t ih =>
    obtain ⟨u, du⟩ := hd
    simp only [load, ih]
    by_cases hp : aget p u = some c
    · rw [if_pos hp, if_pos ((h u).1 hp)]
    · rw [if_neg hp, if_neg (fun hq => hp ((h u).2 hq))]

/-- total demand for resource `i` of a list of vertices -/
def sumDem (vr : VR) (i : Nat) : List Vtx → Int
  | [] => 0
  | v :: vs => dem ((aget vr v).getD []) i + sumDem vr i vs

/-! ### the two loops of `_swap` -/

abbrev St := Placement × List Vtx × List Vtx × Res × Res

/-- body of `for va in vas` (move `va` to chip `b`) -/
def mvA (vr : VR) (b : Chip) (st : St) (va : Vtx) : M St :=
  let (p, la, lb, ra, rb) := st
  if va ∉ la then (.error .valueError : M _) else
  match aget vr va with
  | none => .error .keyError
  | some d => .ok (aset p va b, la.erase va, lb ++ [va], add ra d, sub rb d)

/-- body of `for vb in vbs` (move `vb` to chip `a`) -/
def mvB (vr : VR) (a : Chip) (st : St) (vb : Vtx) : M St :=
  let (p, la, lb, ra, rb) := st
  if vb ∉ lb then (.error .valueError : M _) else
  match aget vr vb with
  | none => .error .keyError
  | some d => .ok (aset p vb a, la ++ [vb], lb.erase vb, sub ra d, add rb d)

theorem swap_eq (vr : VR) (s : SA) (vas : List Vtx) (a : Chip) (vbs : List Vtx) (b : Chip) :
    swap vr s vas a vbs b = (do
      let la ← (aget s.l2v a).elim (.error .keyError) pure
      let lb ← (aget s.l2v b).elim (.error .keyError) pure
      let ra ← (s.m.get a).elim (.error .indexError) pure
      let rb ← (s.m.get b).elim (.error .indexError) pure
      let st1 ← vas.foldlM (mvA vr b) (s.p, la, lb, ra, rb)
      let st2 ← vbs.foldlM (mvB vr a) st1
      let m1 ← (s.m.set a st2.2.2.2.1).elim (.error .indexError) pure
      let m2 ← (m1.set b st2.2.2.2.2).elim (.error .indexError) pure
      pure { m := m2, p := st2.1, l2v := aset (aset s.l2v a st2.2.1) b st2.2.2.1 }) := rfl

/-- what the loops of `_swap` maintain for the two chips `a`, `b` involved (`pref` is the
placement before the swap) -/
structure FI (vr : VR) (pref : Placement) (a b : Chip) (na nb : Nat) (Ta Tb : Nat → Int)
    (p : Placement) (la lb : List Vtx) (ra rb : Res) : Prop where
  lenA : ra.length = na
  lenB : rb.length = nb
  eqA : ∀ i, i < na → dem ra i = Ta i - load vr p a i
  eqB : ∀ i, i < nb → dem rb i = Tb i - load vr p b i
  laIff : ∀ v, v ∈ la ↔ aget p v = some a
  lbIff : ∀ v, v ∈ lb ↔ aget p v = some b
  laNd : la.Nodup
  lbNd : lb.Nodup
  pnd : (keys p).Nodup
  pkeys : ∀ v, v ∈ keys p ↔ v ∈ keys pref
  other : ∀ v c, c ≠ a → c ≠ b → (aget p v = some c ↔ aget pref v = some c)

theorem FI.symm {vr pref a b na nb Ta Tb p la lb ra rb}
    (I : FI vr pref a b na nb Ta Tb p la lb ra rb) : FI vr pref b a nb na Tb Ta p lb la rb ra :=
  ⟨I.lenB, I.lenA, I.eqB, I.eqA, I.lbIff, I.laIff, I.lbNd, I.laNd, I.pnd, I.pkeys,
    fun v c h1 h2 => I.other v c h2 h1⟩

theorem FI.step {vr pref a b na nb Ta Tb p la lb ra rb}
    (I : FI vr pref a b na nb Ta Tb p la lb ra rb) (hn : (keys vr).Nodup) (hab : a ≠ b)
    {v : Vtx} {d : Res} (hv : v ∈ la) (hd : aget vr v = some d) :
    FI vr pref a b na nb Ta Tb (aset p v b) (la.erase v) (lb ++ [v]) (add ra d) (sub rb d) := by
  have hpa : aget p v = some a := (I.laIff v).1 hv
  have hba : ¬ b = a := fun h => hab h.symm
  have hsab : ¬ some a = some b := fun h => hab (Option.some.inj h)
  refine ⟨by rw [add_length]; exact I.lenA, by rw [sub_length]; exact I.lenB, ?_, ?_, ?_, ?_,
    I.laNd.erase v, ?_, nodup_keys_aset _ _ _ I.pnd, ?_, ?_⟩
  · intro i hi
    rw [dem_add _ _ _ (by rw [I.lenA]; exact hi), I.eqA i hi, load_aset_eq vr p v b a d i hn hd,
      if_pos hpa, if_neg hba]
    omega
  · intro i hi
    rw [dem_sub _ _ _ (by rw [I.lenB]; exact hi), I.eqB i hi, load_aset_eq vr p v b b d i hn hd,
      if_neg (by rw [hpa]; exact hsab), if_pos rfl]
    omega
  · intro w
    rw [I.laNd.mem_erase_iff, aget_aset, I.laIff w]
    by_cases e : v = w
    · subst e; simp [hba]
    · have : ¬ w = v := fun h => e h.symm
      simp [e, this]
  · intro w
    rw [List.mem_append, aget_aset, I.lbIff w]
    by_cases e : v = w
    · subst e; simp
    · have : ¬ w = v := fun h => e h.symm
      simp [e, this]
  · rw [List.nodup_append]
    refine ⟨I.lbNd, by simp, ?_⟩
    intro x hx y hy
    simp at hy; subst hy
    intro e; subst e
    have := (I.lbIff x).1 hx
    rw [hpa] at this; exact hsab this
  · intro w
    rw [mem_keys_aset, ← I.pkeys w]
    constructor
    · rintro (h | h)
      · subst h; exact (aget_isSome_iff p w).1 (by simp [hpa])
      · exact h
    · intro h; exact Or.inr h
  · intro w c h1 h2
    rw [aget_aset]
    by_cases e : v = w
    · subst e
      rw [if_pos rfl, ← I.other v c h1 h2, hpa]
      constructor
      · intro h; exact absurd (Option.some.inj h).symm h2
      · intro h; exact absurd (Option.some.inj h).symm h1
    · rw [if_neg e]; exact I.other w c h1 h2

theorem foldA_inv {vr pref a b na nb Ta Tb} (hn : (keys vr).Nodup) (hab : a ≠ b) :
    ∀ (vs : List Vtx) (p : Placement) (la lb : List Vtx) (ra rb : Res) (st' : St),
      FI vr pref a b na nb Ta Tb p la lb ra rb →
      vs.foldlM (mvA vr b) (p, la, lb, ra, rb) = .ok st' →
      FI vr pref a b na nb Ta Tb st'.1 st'.2.1 st'.2.2.1 st'.2.2.2.1 st'.2.2.2.2 := by
  intro vs
  induction vs with
  | nil =>
    intro p la lb ra rb st' I h
    simp only [List.foldlM_nil, pure, Except.pure] at h
    injection h with h; subst h; exact I
  | cons v t ih =>
    intro p la lb ra rb st' I h
    simp only [List.foldlM_cons, bind, Except.bind] at h
    split at h
    · simp at h
    · rename_i st1 h1
      simp only [mvA] at h1
      split at h1
      · simp at h1
      · rename_i hv
        split at h1
        · simp at h1
        · rename_i d hd
          injection h1 with h1; subst h1
          exact ih _ _ _ _ _ _ (I.step hn hab (by simpa using hv) hd) h

theorem foldB_inv {vr pref a b na nb Ta Tb} (hn : (keys vr).Nodup) (hab : a ≠ b) :
    ∀ (vs : List Vtx) (p : Placement) (la lb : List Vtx) (ra rb : Res) (st' : St),
      FI vr pref a b na nb Ta Tb p la lb ra rb →
      vs.foldlM (mvB vr a) (p, la, lb, ra, rb) = .ok st' →
      FI vr pref a b na nb Ta Tb st'.1 st'.2.1 st'.2.2.1 st'.2.2.2.1 st'.2.2.2.2 := by
  intro vs
  induction vs with
  | nil =>
    intro p la lb ra rb st' I h
    simp only [List.foldlM_nil, pure, Except.pure] at h
    injection h with h; subst h; exact I
  | cons v t ih =>
    intro p la lb ra rb st' I h
    simp only [List.foldlM_cons, bind, Except.bind] at h
    split at h
    · simp at h
    · rename_i st1 h1
      simp only [mvB] at h1
      split at h1
      · simp at h1
      · rename_i hv
        split at h1
        · simp at h1
        · rename_i d hd
          injection h1 with h1; subst h1
          exact ih _ _ _ _ _ _ (I.symm.step hn (fun e => hab e.symm) (by simpa using hv) hd).symm h

/-- values computed by the second loop -/
theorem foldB_vals {vr : VR} {a : Chip} :
    ∀ (vs : List Vtx) (p : Placement) (la lb : List Vtx) (ra rb : Res) (st' : St),
      vs.foldlM (mvB vr a) (p, la, lb, ra, rb) = .ok st' →
      st'.1 = vs.foldl (fun q v => aset q v a) p ∧
      st'.2.2.2.1.length = ra.length ∧ st'.2.2.2.2.length = rb.length ∧
      (∀ i, i < ra.length → dem st'.2.2.2.1 i = dem ra i - sumDem vr i vs) ∧
      (∀ i, i < rb.length → dem st'.2.2.2.2 i = dem rb i + sumDem vr i vs) := by
  intro vs
  induction vs with
  | nil =>
    intro p la lb ra rb st' h
    simp only [List.foldlM_nil, pure, Except.pure] at h
    injection h with h; subst h
    simp [sumDem]
  | cons v t ih =>
    intro p la lb ra rb st' h
    simp only [List.foldlM_cons, bind, Except.bind] at h
    split at h
    · simp at h
    · rename_i st1 h1
      simp only [mvB] at h1
      split at h1
      · simp at h1
      · split at h1
        · simp at h1
        · rename_i d hd
          injection h1 with h1; subst h1
          obtain ⟨e1, e2, e3, e4, e5⟩ := ih _ _ _ _ _ _ h
          rw [sub_length] at e2 e4
          rw [add_length] at e3 e5
          refine ⟨by rw [e1]; rfl, e2, e3, fun i hi => ?_, fun i hi => ?_⟩
          · rw [e4 i hi, dem_sub _ _ _ hi]; simp only [sumDem, hd, Option.getD_some]; omega
          · rw [e5 i hi, dem_add _ _ _ hi]; simp only [sumDem, hd, Option.getD_some]; omega

/-! ### the state invariant -/

/-- the part of the invariant `_swap` maintains by itself: `tot c i` is the (time-invariant)
amount of resource `i` chip `c` offers to vertices, `p0` the kernel's initial placement -/
structure SAInvW (vr : VR) (p0 : Placement) (m0 : Machine) (tot : Chip → Nat → Int) (s : SA) : Prop where
  w : s.m.w = m0.w
  h : s.m.h = m0.h
  dead : s.m.dead = m0.dead
  len : ∀ c, m0.ok c = true → (cap s.m c).length = (cap m0 c).length
  /-- free[c] = capacity[c] - sum of the demands of the vertices placed on c -/
  freeEq : ∀ c, m0.ok c = true → ∀ i, i < (cap m0 c).length →
    dem (cap s.m c) i = tot c i - load vr s.p c i
  pok : ∀ v c, aget s.p v = some c → m0.ok c = true
  pnodup : (keys s.p).Nodup
  pkeys : ∀ v, v ∈ keys s.p ↔ v ∈ keys p0
  /-- the location -> vertices lookup is consistent with the placements -/
  l2v : ∀ c, m0.ok c = true → ∃ vs, aget s.l2v c = some vs ∧ vs.Nodup ∧ ∀ v, v ∈ vs ↔ aget s.p v = some c

/-- the annealing state invariant -/
structure SAInv (vr : VR) (fixed : List Vtx) (p0 : Placement) (m0 : Machine) (tot : Chip → Nat → Int)
    (s : SA) : Prop extends SAInvW vr p0 m0 tot s where
  nonneg : ∀ c, m0.ok c = true → ∀ i, 0 ≤ dem (cap s.m c) i
  fixedUnmoved : ∀ v, v ∈ fixed → aget s.p v = aget p0 v

theorem SAInvW.ok_eq {vr p0 m0 tot s} (I : SAInvW vr p0 m0 tot s) (c : Chip) : s.m.ok c = m0.ok c :=
  Machine.ok_congr I.w I.h I.dead c

theorem elim_ok {α : Type} {o : Option α} {e : Err} {x : α}
    (h : (o.elim (.error e) pure : M α) = .ok x) : o = some x := by
  cases o with
  | none => simp [Option.elim] at h
  | some y => simp [Option.elim, pure, Except.pure] at h; rw [h]

/-- `_swap([x], a, vbs, b)` with `a ≠ b` -/
theorem swap_spec {vr : VR} {p0 : Placement} {m0 : Machine} {tot : Chip → Nat → Int} {s s' : SA}
    {x : Vtx} {a b : Chip} {vbs : List Vtx}
    (hn : (keys vr).Nodup) (hab : a ≠ b) (I : SAInvW vr p0 m0 tot s)
    (h : swap vr s [x] a vbs b = .ok s') :
    ∃ dx ra rb, aget vr x = some dx ∧ s.m.get a = some ra ∧ s.m.get b = some rb ∧
      aget s.p x = some a ∧ SAInvW vr p0 m0 tot s' ∧
      (∀ v, aget s'.p v = if v ∈ vbs then some a else if v = x then some b else aget s.p v) ∧
      (∀ i, i < ra.length → dem (cap s'.m a) i = dem ra i + dem dx i - sumDem vr i vbs) ∧
      (∀ i, i < rb.length → dem (cap s'.m b) i = dem rb i - dem dx i + sumDem vr i vbs) ∧
      (∀ c, c ≠ a → c ≠ b → cap s'.m c = cap s.m c) := by
  rw [swap_eq] at h
  simp only [bind, Except.bind] at h
  split at h
  · simp at h
  · rename_i la hla
    split at h
    · simp at h
    · rename_i lb hlb
      split at h
      · simp at h
      · rename_i ra hra
        split at h
        · simp at h
        · rename_i rb hrb
          split at h
          · simp at h
          · rename_i st1 h1
            split at h
            · simp at h
            · rename_i st2 h2
              split at h
              · simp at h
              · rename_i m1 hm1
                split at h
                · simp at h
                · rename_i m2 hm2
                  simp only [pure, Except.pure] at h
                  injection h with h; subst h
                  have hla := elim_ok hla
                  have hlb := elim_ok hlb
                  have hra := elim_ok hra
                  have hrb := elim_ok hrb
                  have hm1 := elim_ok hm1
                  have hm2 := elim_ok hm2
                  obtain ⟨hoka, era⟩ := Machine.get_some hra
                  obtain ⟨hokb, erb⟩ := Machine.get_some hrb
                  have hoka0 : m0.ok a = true := by rw [← I.ok_eq]; exact hoka
                  have hokb0 : m0.ok b = true := by rw [← I.ok_eq]; exact hokb
                  obtain ⟨la', ela, ndA, iffA⟩ := I.l2v a hoka0
                  obtain ⟨lb', elb, ndB, iffB⟩ := I.l2v b hokb0
                  rw [hla] at ela; injection ela with ela; subst ela
                  rw [hlb] at elb; injection elb with elb; subst elb
                  have F0 : FI vr s.p a b (cap m0 a).length (cap m0 b).length (tot a) (tot b)
                      s.p la lb ra rb := by
                    refine ⟨by rw [era]; exact I.len a hoka0, by rw [erb]; exact I.len b hokb0,
                      ?_, ?_, iffA, iffB, ndA, ndB, I.pnodup, fun v => Iff.rfl, fun v c _ _ => Iff.rfl⟩
                    · intro i hi; rw [era]; exact I.freeEq a hoka0 i hi
                    · intro i hi; rw [erb]; exact I.freeEq b hokb0 i hi
                  -- first loop: the single vertex x
                  simp only [List.foldlM_cons, List.foldlM_nil, bind, Except.bind, pure, Except.pure] at h1
                  have F1 := foldA_inv hn hab [x] _ _ _ _ _ st1 F0
                    (by simp only [List.foldlM_cons, List.foldlM_nil, bind, Except.bind, pure, Except.pure]; exact h1)
                  split at h1
                  · simp at h1
                  · rename_i st1' h1'
                    injection h1 with h1; subst h1
                    simp only [mvA] at h1'
                    split at h1'
                    · simp at h1'
                    · rename_i hxla
                      split at h1'
                      · simp at h1'
                      · rename_i dx hdx
                        injection h1' with h1'; subst h1'
                        have hxa : aget s.p x = some a := (iffA x).1 (by simpa using hxla)
                        have F2 := foldB_inv hn hab vbs _ _ _ _ _ st2 F1 h2
                        obtain ⟨e1, e2, e3, e4, e5⟩ := foldB_vals vbs _ _ _ _ _ st2 h2
                        rw [add_length] at e2 e4
                        rw [sub_length] at e3 e5
                        obtain ⟨_, w1, h1, d1, r1, c1⟩ := Machine.set_some hm1
                        obtain ⟨_, w2, h2', d2, r2, c2⟩ := Machine.set_some hm2
                        have hcap : ∀ c, cap m2 c = if b = c then st2.2.2.2.2 else if a = c then st2.2.2.2.1
                            else cap s.m c := by
                          intro c; rw [c2 c, c1 c]
                        have hl2v : ∀ c, aget (aset (aset s.l2v a st2.2.1) b st2.2.2.1) c =
                            if b = c then some st2.2.2.1 else if a = c then some st2.2.1 else aget s.l2v c := by
                          intro c; rw [aget_aset, aget_aset]
                        have hload : ∀ c, c ≠ a → c ≠ b → ∀ i, load vr st2.1 c i = load vr s.p c i :=
                          fun c h1 h2 i => load_congr_chip vr _ _ c i (fun v => F2.other v c h1 h2)
                        refine ⟨dx, ra, rb, hdx, hra, hrb, hxa, ?_, ?_, ?_, ?_, ?_⟩
                        · refine ⟨w2.trans (w1.trans I.w), h2'.trans (h1.trans I.h), d2.trans (d1.trans I.dead),
                            ?_, ?_, ?_, F2.pnd, fun v => (F2.pkeys v).trans (I.pkeys v), ?_⟩
                          · intro c hc
                            show (cap m2 c).length = _
                            rw [hcap c]
                            by_cases eb : b = c
                            · subst eb; rw [if_pos rfl]; exact F2.lenB
                            · rw [if_neg eb]
                              by_cases ea : a = c
                              · subst ea; rw [if_pos rfl]; exact F2.lenA
                              · rw [if_neg ea]; exact I.len c hc
                          · intro c hc i hi
                            show dem (cap m2 c) i = _
                            rw [hcap c]
                            by_cases eb : b = c
                            · subst eb; rw [if_pos rfl]; exact F2.eqB i hi
                            · rw [if_neg eb]
                              by_cases ea : a = c
                              · subst ea; rw [if_pos rfl]; exact F2.eqA i hi
                              · rw [if_neg ea, I.freeEq c hc i hi]
                                show _ = _ - load vr st2.1 c i
                                rw [hload c (fun e => ea e.symm) (fun e => eb e.symm) i]
                          · intro v c hv
                            by_cases eb : c = b
                            · subst eb; exact hokb0
                            · by_cases ea : c = a
                              · subst ea; exact hoka0
                              · exact I.pok v c ((F2.other v c ea eb).1 hv)
                          · intro c hc
                            show ∃ vs, aget (aset (aset s.l2v a st2.2.1) b st2.2.2.1) c = some vs ∧ _
                            rw [hl2v c]
                            by_cases eb : b = c
                            · subst eb; rw [if_pos rfl]; exact ⟨_, rfl, F2.lbNd, F2.lbIff⟩
                            · rw [if_neg eb]
                              by_cases ea : a = c
                              · subst ea; rw [if_pos rfl]; exact ⟨_, rfl, F2.laNd, F2.laIff⟩
                              · rw [if_neg ea]
                                obtain ⟨vs, q1, q2, q3⟩ := I.l2v c hc
                                exact ⟨vs, q1, q2, fun v => (q3 v).trans
                                  (F2.other v c (fun e => ea e.symm) (fun e => eb e.symm)).symm⟩
                        · intro v
                          show aget st2.1 v = _
                          rw [e1, aget_foldl_aset, aget_aset]
                          by_cases hv : v ∈ vbs
                          · simp [hv]
                          · by_cases e : x = v
                            · subst e; simp [hv]
                            · have : ¬ v = x := fun h => e h.symm
                              simp [hv, e, this]
                        · intro i hi
                          show dem (cap m2 a) i = _
                          rw [hcap a, if_neg (fun e => hab e.symm), if_pos rfl, e4 i hi, dem_add _ _ _ hi]
                        · intro i hi
                          show dem (cap m2 b) i = _
                          rw [hcap b, if_pos rfl, e5 i hi, dem_sub _ _ _ hi]
                        · intro c hca hcb
                          show cap m2 c = _
                          rw [hcap c, if_neg (fun e => hcb e.symm), if_neg (fun e => hca e.symm)]

/-! ### `_get_candidate_swap` and the return-fit test -/

theorem candidate_spec (vr : VR) (fixed : List Vtx) (need : Res) :
    ∀ (vs : List Vtx) (free : Res) (acc dvs : List Vtx),
      candidate vr fixed need vs free acc = .ok (some dvs) →
      ∃ moved, dvs = acc ++ moved ∧ moved.Sublist vs ∧ (∀ v ∈ moved, v ∉ fixed) ∧
        ∀ i, i < free.length → 0 ≤ dem free i + sumDem vr i moved - dem need i := by
  intro vs
  induction vs with
  | nil =>
    intro free acc dvs h
    unfold candidate at h
    split at h
    · rename_i ho
      injection h with h; injection h with h; subst h
      refine ⟨[], by simp, List.Sublist.refl _, by simp, fun i hi => ?_⟩
      have := (over_false_iff _).1 (by simpa using ho) i (by rw [sub_length]; exact hi)
      rw [dem_sub _ _ _ hi] at this
      simp only [sumDem]; omega
    · simp at h
  | cons v rest ih =>
    intro free acc dvs h
    unfold candidate at h
    split at h
    · rename_i ho
      injection h with h; injection h with h; subst h
      refine ⟨[], by simp, List.nil_sublist _, by simp, fun i hi => ?_⟩
      have := (over_false_iff _).1 (by simpa using ho) i (by rw [sub_length]; exact hi)
      rw [dem_sub _ _ _ hi] at this
      simp only [sumDem]; omega
    · simp only at h
      split at h
      · obtain ⟨moved, e1, e2, e3, e4⟩ := ih _ _ _ h
        exact ⟨moved, e1, e2.cons _, e3, e4⟩
      · rename_i hvf
        split at h
        · simp at h
        · rename_i d hd
          obtain ⟨moved, e1, e2, e3, e4⟩ := ih _ _ _ h
          refine ⟨v :: moved, by rw [e1]; simp, e2.cons_cons _, ?_, fun i hi => ?_⟩
          · intro u hu
            simp only [List.mem_cons] at hu
            rcases hu with rfl | hu
            · exact hvf
            · exact e3 u hu
          · have := e4 i (by rw [add_length]; exact hi)
            rw [dem_add _ _ _ hi] at this
            simp only [sumDem, hd, Option.getD_some]; omega

theorem back_spec (vr : VR) : ∀ (dvs : List Vtx) (r0 back : Res),
    dvs.foldlM (fun (r : Res) v =>
      match aget vr v with
      | none => (.error .keyError : M Res)
      | some d => .ok (sub r d)) r0 = .ok back →
    back.length = r0.length ∧ ∀ i, i < r0.length → dem back i = dem r0 i - sumDem vr i dvs := by
  intro dvs
  induction dvs with
  | nil =>
    intro r0 back h
    simp only [List.foldlM_nil, pure, Except.pure] at h
    injection h with h; subst h; simp [sumDem]
  | cons v t ih =>
    intro r0 back h
    simp only [List.foldlM_cons, bind, Except.bind] at h
    split at h
    · simp at h
    · rename_i r1 h1
      split at h1
      · simp at h1
      · rename_i d hd
        injection h1 with h1; subst h1
        obtain ⟨e1, e2⟩ := ih _ _ h
        rw [sub_length] at e1 e2
        refine ⟨e1, fun i hi => ?_⟩
        rw [e2 i hi, dem_sub _ _ _ hi]; simp only [sumDem, hd, Option.getD_some]; omega

/-! ### one step -/

theorem dem_nonneg_len {r : Res} {n : Nat} (hl : r.length = n) (h : ∀ i, i < n → 0 ≤ dem r i) (i : Nat) :
    0 ≤ dem r i := by
  by_cases hi : i < n
  · exact h i hi
  · rw [dem_ge_length r i (by omega)]; omega

/-- **the annealing step preserves the state invariant**, for every proposal -/
theorem SAInv.step {vr : VR} {fixed : List Vtx} {p0 : Placement} {m0 : Machine} {tot : Chip → Nat → Int}
    {s s' : SA} {src : Vtx} {dst : Chip} {accept f : Bool}
    (hn : (keys vr).Nodup) (I : SAInv vr fixed p0 m0 tot s)
    (h : saStep vr fixed s src dst accept = .ok (s', f)) : SAInv vr fixed p0 m0 tot s' := by
  unfold saStep at h
  split at h
  · simp at h
  rename_i hsf
  split at h
  · simp at h
  rename_i srcLoc hsrc
  split at h
  · simp at h
  rename_i hds
  split at h
  · injection h with h; injection h with h1 h2; subst h1; exact I
  rename_i hokd
  split at h
  rotate_left
  · simp at h
  · simp at h
  · simp at h
  · simp at h
  rename_i need free vs srcFree hneed hfree hvs hsrcFree
  simp only [bind, Except.bind] at h
  split at h
  · simp at h
  rename_i cand hcand
  split at h
  · simp only [pure, Except.pure] at h
    injection h with h; injection h with h1 h2; subst h1; exact I
  rename_i dvs
  split at h
  · simp at h
  rename_i back hback
  split at h
  · simp only [pure, Except.pure] at h
    injection h with h; injection h with h1 h2; subst h1; exact I
  rename_i hob
  split at h
  · simp at h
  rename_i s1 hs1
  -- facts about the proposal
  have hab : srcLoc ≠ dst := fun e => hds e.symm
  obtain ⟨moved, em, hsub, hmf, hfit⟩ := candidate_spec vr fixed need vs free [] dvs hcand
  simp only [List.nil_append] at em; subst em
  obtain ⟨hokd', efree⟩ := Machine.get_some hfree
  obtain ⟨hoks, esrcFree⟩ := Machine.get_some hsrcFree
  have hokd0 : m0.ok dst = true := by rw [← I.ok_eq]; exact hokd'
  have hoks0 : m0.ok srcLoc = true := by rw [← I.ok_eq]; exact hoks
  obtain ⟨vs', evs, ndvs, iffvs⟩ := I.l2v dst hokd0
  rw [hvs] at evs; injection evs with evs; subst evs
  have hdv : ∀ v ∈ dvs, aget s.p v = some dst := fun v hv => (iffvs v).1 (hsub.subset hv)
  have hsrcnd : src ∉ dvs := by
    intro hm; have := hdv src hm; rw [hsrc] at this; exact hab (Option.some.inj this)
  obtain ⟨eb1, eb2⟩ := back_spec vr dvs _ _ hback
  rw [add_length] at eb1 eb2
  -- the swap
  obtain ⟨dx, ra, rb, hdx, hra, hrb, _, W1, hp1, hA1, hB1, hO1⟩ := swap_spec hn hab I.toSAInvW hs1
  rw [hneed] at hdx; injection hdx with hdx; subst hdx
  rw [hsrcFree] at hra; injection hra with hra; subst hra
  rw [hfree] at hrb; injection hrb with hrb; subst hrb
  have hp1' : ∀ v, v ∉ dvs → v ≠ src → aget s1.p v = aget s.p v := by
    intro v h1 h2; rw [hp1 v, if_neg h1, if_neg h2]
  have I1 : SAInv vr fixed p0 m0 tot s1 := by
    refine ⟨W1, ?_, ?_⟩
    · intro c hc
      by_cases ea : c = srcLoc
      · subst ea
        apply dem_nonneg_len ((W1.len c hc).trans (I.len c hc).symm)
        intro i hi
        rw [← esrcFree] at hi
        rw [hA1 i hi]
        have := dem_nonneg_of_over (by simpa using hob : over back = false) i
        rw [eb2 i hi, dem_add _ _ _ hi] at this
        exact this
      · by_cases eb : c = dst
        · subst eb
          apply dem_nonneg_len ((W1.len c hc).trans (I.len c hc).symm)
          intro i hi
          rw [← efree] at hi
          rw [hB1 i hi]
          have := hfit i hi
          omega
        · rw [hO1 c ea eb]; exact I.nonneg c hc
    · intro v hv
      rw [hp1' v (fun h => hmf v h hv) (fun e => hsf (e ▸ hv))]
      exact I.fixedUnmoved v hv
  split at h
  · simp only [pure, Except.pure] at h
    injection h with h; injection h with h1 h2; subst h1; exact I1
  · split at h
    · simp at h
    rename_i s2 hs2
    simp only [pure, Except.pure] at h
    injection h with h; injection h with h1 h2; subst h1
    obtain ⟨_, _, _, _, _, _, _, W2, hp2, _, _, _⟩ := swap_spec hn (fun e => hab e.symm) W1 hs2
    have hpeq : ∀ v, aget s2.p v = aget s.p v := by
      intro v
      rw [hp2 v]
      by_cases h1 : v ∈ dvs
      · rw [if_pos h1, hdv v h1]
      · rw [if_neg h1]
        by_cases h2 : v = src
        · subst h2; rw [if_pos rfl, hsrc]
        · rw [if_neg h2]; exact hp1' v h1 h2
    refine ⟨W2, ?_, ?_⟩
    · intro c hc
      apply dem_nonneg_len ((W2.len c hc).trans (I.len c hc).symm)
      intro i hi
      rw [I.len c hc] at hi
      rw [W2.freeEq c hc i hi, load_congr vr s2.p s.p c i (fun v _ => hpeq v), ← I.freeEq c hc i hi]
      exact I.nonneg c hc i
    · intro v hv; rw [hpeq v]; exact I.fixedUnmoved v hv

/-- lifted to every proposal list -/
theorem SAInv.run {vr : VR} {fixed : List Vtx} {p0 : Placement} {m0 : Machine} {tot : Chip → Nat → Int}
    (hn : (keys vr).Nodup) :
    ∀ (steps : List Step) (s : SA) (fl : List Bool) (s' : SA) (fl' : List Bool),
      SAInv vr fixed p0 m0 tot s → saRun vr fixed steps s fl = .ok (s', fl') →
      SAInv vr fixed p0 m0 tot s' := by
  intro steps
  induction steps with
  | nil =>
    intro s fl s' fl' I h
    simp only [saRun] at h
    injection h with h; injection h with h1 h2; subst h1; exact I
  | cons st rest ih =>
    intro s fl s' fl' I h
    simp only [saRun, bind, Except.bind] at h
    split at h
    · simp at h
    · rename_i r hr
      obtain ⟨s1, f⟩ := r
      exact ih _ _ _ _ (SAInv.step hn I hr) h

/-! ### `PythonKernel.__init__`: the location -> vertices lookup -/

/-- the vertices the placement puts on chip `c`, in insertion order -/
def onChip (p : Placement) (c : Chip) : List Vtx := (p.filter fun vc => decide (vc.2 = c)).map Prod.fst

theorem mkL2v_fold : ∀ (q : Placement) (l l' : List (Chip × List Vtx)),
    q.foldlM (fun l (vc : Vtx × Chip) =>
      match aget l vc.2 with
      | none => (.error .keyError : M _)
      | some vs => .ok (aset l vc.2 (vs ++ [vc.1]))) l = .ok l' →
    ∀ c, aget l' c = (aget l c).map (· ++ onChip q c) := by
  intro q
  induction q with
  | nil =>
    intro l l' h c
    simp only [List.foldlM_nil, pure, Except.pure] at h
    injection h with h; subst h
    cases aget l c <;> simp [onChip]
  | cons hd t ih =>
    obtain ⟨v, c0⟩ := hd
    intro l l' h c
    simp only [List.foldlM_cons, bind, Except.bind] at h
    split at h
    · simp at h
    · rename_i l1 h1
      split at h1
      · simp at h1
      · rename_i vs hvs
        injection h1 with h1; subst h1
        rw [ih _ _ h c, aget_aset]
        by_cases e : c0 = c
        · subst e
          simp only [if_pos rfl, hvs, Option.map_some, onChip, List.filter_cons, decide_true, if_true,
            List.map_cons, List.append_assoc, List.singleton_append]
        · simp only [if_neg e, onChip, List.filter_cons, e, decide_false, Bool.false_eq_true, if_false]

theorem aget_map_nil (l : List Chip) (c : Chip) :
    aget (l.map fun c => (c, ([] : List Vtx))) c = if c ∈ l then some [] else none := by
  induction l with
  | nil => simp [aget]
  | cons x t ih =>
    simp only [List.map_cons, aget, ih, List.mem_cons]
    by_cases e : x = c
    · subst e; simp
    · have : ¬ c = x := fun h => e h.symm
      simp [e, this]

theorem mem_iff_aget {p : Placement} (hn : (keys p).Nodup) (v : Vtx) (c : Chip) :
    (v, c) ∈ p ↔ aget p v = some c := by
  constructor
  · intro h
    induction p with
    | nil => simp at h
    | cons hd t ih =>
      obtain ⟨u, cu⟩ := hd
      simp only [keys, List.map_cons, List.nodup_cons] at hn
      simp only [List.mem_cons] at h
      rcases h with h | h
      · injection h with h1 h2; subst h1; subst h2; simp [aget]
      · have hne : u ≠ v := by
          intro e; subst e
          exact hn.1 (List.mem_map.2 ⟨(u, c), h, rfl⟩)
        simp only [aget, hne, if_false]
        exact ih hn.2 h
  · exact aget_some_mem

theorem mem_onChip {p : Placement} (hn : (keys p).Nodup) (v : Vtx) (c : Chip) :
    v ∈ onChip p c ↔ aget p v = some c := by
  rw [← mem_iff_aget hn]
  simp only [onChip, List.mem_map, List.mem_filter, decide_eq_true_eq]
  constructor
  · rintro ⟨⟨u, cu⟩, ⟨h1, h2⟩, h3⟩
    simp at h2 h3; subst h2; subst h3; exact h1
  · intro h; exact ⟨(v, c), ⟨h, rfl⟩, rfl⟩

theorem nodup_onChip {p : Placement} (hn : (keys p).Nodup) (c : Chip) : (onChip p c).Nodup := by
  have : (onChip p c).Sublist (keys p) := by
    unfold onChip keys
    exact List.Sublist.map _ List.filter_sublist
  exact List.Nodup.sublist this hn

/-- the state the kernel starts from satisfies the invariant -/
theorem SAInv.start {vr : VR} {m m2 : Machine} {rsv : Chip → Nat → Int} {p0 : Placement} (fixed : List Vtx)
    {l2v : List (Chip × List Vtx)} (I : Inv vr m rsv m2 p0) (h : mkL2v m2 p0 = .ok l2v) :
    SAInv vr fixed p0 m2 (fun c i => dem (cap m2 c) i + load vr p0 c i) { m := m2, p := p0, l2v := l2v } := by
  have hl := mkL2v_fold p0 _ _ h
  refine ⟨⟨rfl, rfl, rfl, fun _ _ => rfl, fun c hc i hi => by show dem (cap m2 c) i = _ - load vr p0 c i; omega, ?_,
    I.pnodup, fun _ => Iff.rfl, ?_⟩, ?_, fun _ _ => rfl⟩
  · intro v c hv; rw [I.ok_eq]; exact I.pok v c hv
  · intro c hc
    refine ⟨onChip p0 c, ?_, nodup_onChip I.pnodup c, fun v => mem_onChip I.pnodup v c⟩
    show aget l2v c = _
    rw [hl c, aget_map_nil, if_pos ((mem_chips_iff m2 c).2 hc)]
    simp
  · intro c hc i; exact I.nonneg c (by rw [← I.ok_eq]; exact hc) i

/-- at any later state the resource invariant of the placers holds again -/
theorem SAInv.toInv {vr : VR} {m m2 : Machine} {rsv : Chip → Nat → Int} {p0 : Placement} {fixed : List Vtx}
    {s : SA} (I : Inv vr m rsv m2 p0)
    (J : SAInv vr fixed p0 m2 (fun c i => dem (cap m2 c) i + load vr p0 c i) s) :
    Inv vr m rsv s.m s.p := by
  have hok : ∀ c, m.ok c = true → m2.ok c = true := fun c hc => by rw [I.ok_eq]; exact hc
  refine ⟨J.w.trans I.w, J.h.trans I.h, J.dead.trans I.dead, ?_, ?_, ?_, ?_, ?_, J.pnodup⟩
  · intro c hc; rw [J.len c (hok c hc), I.len c hc]
  · intro c hc i; exact J.nonneg c (hok c hc) i
  · intro c hc i hi
    have := J.freeEq c (hok c hc) i (by rw [I.len c hc]; exact hi)
    have := I.bound c hc i hi
    omega
  · intro v c hv; rw [← I.ok_eq]; exact J.pok v c hv
  · intro v hv; exact I.pvr v ((J.pkeys v).1 hv)

theorem get_of_ok' {m : Machine} {c : Chip} (h : m.ok c = true) : m.get c = some (cap m c) := by
  simp [Machine.get, h, cap]

theorem set_of_ok' {m : Machine} {c : Chip} (r : Res) (h : m.ok c = true) :
    m.set c r = some { m with exc := aset m.exc c r } := by
  simp [Machine.set, h]

/-! ### the kernel raises nothing: every lookup of `_step` / `_swap` succeeds under the invariant -/

theorem candidate_ok (vr : VR) (fixed : List Vtx) (need : Res) :
    ∀ (vs : List Vtx) (free : Res) (acc : List Vtx), (∀ v ∈ vs, v ∈ keys vr) →
      ∃ r, candidate vr fixed need vs free acc = .ok r := by
  intro vs
  induction vs with
  | nil =>
    intro free acc _
    unfold candidate
    split
    · exact ⟨_, rfl⟩
    · exact ⟨_, rfl⟩
  | cons v rest ih =>
    intro free acc hin
    have hin' : ∀ u ∈ rest, u ∈ keys vr := fun u hu => hin u (by simp [hu])
    unfold candidate
    split
    · exact ⟨_, rfl⟩
    · simp only
      split
      · exact ih _ _ hin'
      · have hv := (aget_isSome_iff vr v).2 (hin v (by simp))
        cases hx : aget vr v with
        | none => simp [hx] at hv
        | some d => simp only; exact ih _ _ hin'

theorem back_ok (vr : VR) : ∀ (dvs : List Vtx) (r0 : Res), (∀ v ∈ dvs, v ∈ keys vr) →
    ∃ back, dvs.foldlM (fun (r : Res) v =>
      match aget vr v with
      | none => (.error .keyError : M Res)
      | some d => .ok (sub r d)) r0 = .ok back := by
  intro dvs
  induction dvs with
  | nil => intro r0 _; exact ⟨r0, rfl⟩
  | cons v t ih =>
    intro r0 hin
    have hv := (aget_isSome_iff vr v).2 (hin v (by simp))
    cases hx : aget vr v with
    | none => simp [hx] at hv
    | some d =>
      simp only [List.foldlM_cons, hx, bind, Except.bind]
      exact ih _ (fun u hu => hin u (by simp [hu]))

theorem foldB_ok (vr : VR) (a : Chip) : ∀ (vs : List Vtx) (p : Placement) (la lb : List Vtx) (ra rb : Res),
    vs.Nodup → (∀ v ∈ vs, v ∈ lb) → (∀ v ∈ vs, v ∈ keys vr) →
    ∃ st', vs.foldlM (mvB vr a) (p, la, lb, ra, rb) = .ok st' := by
  intro vs
  induction vs with
  | nil => intro p la lb ra rb _ _ _; exact ⟨_, rfl⟩
  | cons v t ih =>
    intro p la lb ra rb hnd hlb hin
    simp only [List.nodup_cons] at hnd
    have hv := (aget_isSome_iff vr v).2 (hin v (by simp))
    cases hx : aget vr v with
    | none => simp [hx] at hv
    | some d =>
      have hvl : v ∈ lb := hlb v (by simp)
      have e : mvB vr a (p, la, lb, ra, rb) v = .ok (aset p v a, la ++ [v], lb.erase v, sub ra d, add rb d) := by
        simp [mvB, hvl, hx]
      simp only [List.foldlM_cons, e, bind, Except.bind]
      apply ih _ _ _ _ _ hnd.2
      · intro u hu
        exact (List.mem_erase_of_ne (fun (e : u = v) => hnd.1 (e ▸ hu))).2 (hlb u (by simp [hu]))
      · exact fun u hu => hin u (by simp [hu])

/-- `_swap([x], a, vbs, b)` succeeds when `x` is on `a`, the distinct vertices `vbs` are on `b` -/
theorem swap_ok {vr : VR} {p0 : Placement} {m0 : Machine} {tot : Chip → Nat → Int} {s : SA}
    {x : Vtx} {a b : Chip} {vbs : List Vtx} (I : SAInvW vr p0 m0 tot s)
    (hxa : aget s.p x = some a) (hnd : vbs.Nodup) (hvb : ∀ v ∈ vbs, aget s.p v = some b)
    (hb : m0.ok b = true) (hx : x ∈ keys vr) (hin : ∀ v ∈ vbs, v ∈ keys vr) :
    ∃ s', swap vr s [x] a vbs b = .ok s' := by
  have ha : m0.ok a = true := I.pok x a hxa
  obtain ⟨la, ela, _, iffA⟩ := I.l2v a ha
  obtain ⟨lb, elb, _, iffB⟩ := I.l2v b hb
  have hoka : s.m.ok a = true := by rw [I.ok_eq]; exact ha
  have hokb : s.m.ok b = true := by rw [I.ok_eq]; exact hb
  have hxs := (aget_isSome_iff vr x).2 hx
  cases hdx : aget vr x with
  | none => simp [hdx] at hxs
  | some dx =>
    have hxla : x ∈ la := (iffA x).2 hxa
    obtain ⟨st2, h2⟩ := foldB_ok vr a vbs (aset s.p x b) (la.erase x) (lb ++ [x]) (add (cap s.m a) dx)
      (sub (cap s.m b) dx) hnd (fun v hv => List.mem_append_left _ ((iffB v).2 (hvb v hv))) hin
    have e1 : [x].foldlM (mvA vr b) (s.p, la, lb, cap s.m a, cap s.m b) =
        .ok (aset s.p x b, la.erase x, lb ++ [x], add (cap s.m a) dx, sub (cap s.m b) dx) := by
      simp [List.foldlM, mvA, hxla, hdx, bind, Except.bind, pure, Except.pure]
    rw [swap_eq]
    simp only [ela, elb, get_of_ok' hoka, get_of_ok' hokb, Option.elim, bind, Except.bind, pure, Except.pure, e1, h2,
      set_of_ok' _ hoka]
    have hokb' : ({ s.m with exc := aset s.m.exc a st2.2.2.2.1 } : Machine).ok b = true := hokb
    simp only [set_of_ok' _ hokb']
    exact ⟨_, rfl⟩

/-- **one step raises nothing** (the only failure of the model is an impossible draw) -/
theorem SAInv.step_doc {vr : VR} {fixed : List Vtx} {p0 : Placement} {m0 : Machine} {tot : Chip → Nat → Int}
    {s : SA} {src : Vtx} {dst : Chip} {accept : Bool} {e : Err}
    (hn : (keys vr).Nodup) (I : SAInv vr fixed p0 m0 tot s) (hpvr : ∀ v ∈ keys p0, v ∈ keys vr)
    (hsrc : src ∈ keys p0)
    (h : saStep vr fixed s src dst accept = .error e) : e = .badOracle := by
  have hkvr : ∀ v c, aget s.p v = some c → v ∈ keys vr := fun v c hv =>
    hpvr v ((I.pkeys v).1 ((aget_isSome_iff s.p v).1 (by simp [hv])))
  unfold saStep at h
  split at h
  · injection h with h; exact h.symm
  have hps := (aget_isSome_iff s.p src).2 ((I.pkeys src).2 hsrc)
  cases hsl : aget s.p src with
  | none => simp [hsl] at hps
  | some srcLoc =>
    simp only [hsl] at h
    split at h
    · injection h with h; exact h.symm
    rename_i hds
    split at h
    · simp at h
    rename_i hokd
    have hokd' : s.m.ok dst = true := by simpa using hokd
    have hokd0 : m0.ok dst = true := by rw [← I.ok_eq]; exact hokd'
    have hoks0 : m0.ok srcLoc = true := I.pok src srcLoc hsl
    have hoks : s.m.ok srcLoc = true := by rw [I.ok_eq]; exact hoks0
    have hxs := (aget_isSome_iff vr src).2 (hpvr src hsrc)
    obtain ⟨vs, evs, ndvs, iffvs⟩ := I.l2v dst hokd0
    cases hneed : aget vr src with
    | none => simp [hneed] at hxs
    | some need =>
      simp only [hneed, get_of_ok' hokd', evs, get_of_ok' hoks] at h
      have hvsin : ∀ v ∈ vs, v ∈ keys vr := fun v hv => hkvr v dst ((iffvs v).1 hv)
      obtain ⟨cand, hcand⟩ := candidate_ok vr fixed need vs (cap s.m dst) [] hvsin
      simp only [hcand, bind, Except.bind] at h
      cases cand with
      | none => simp [pure, Except.pure] at h
      | some dvs =>
        simp only at h
        obtain ⟨moved, em, hsub, hmf, _⟩ := candidate_spec vr fixed need vs _ [] dvs hcand
        simp only [List.nil_append] at em; subst em
        have hdin : ∀ v ∈ dvs, v ∈ keys vr := fun v hv => hvsin v (hsub.subset hv)
        obtain ⟨back, hback⟩ := back_ok vr dvs (add (cap s.m srcLoc) need) hdin
        split at h
        · rename_i err herr
          have : (Except.error err : M Res) = .ok back := herr.symm.trans hback
          cases this
        split at h
        · simp [pure, Except.pure] at h
        have hab : srcLoc ≠ dst := fun e => hds e.symm
        have hdv : ∀ v ∈ dvs, aget s.p v = some dst := fun v hv => (iffvs v).1 (hsub.subset hv)
        have hdnd : dvs.Nodup := List.Nodup.sublist hsub ndvs
        obtain ⟨s1, hs1⟩ := swap_ok I.toSAInvW hsl hdnd hdv hokd0 (hpvr src hsrc) hdin
        simp only [hs1] at h
        split at h
        · simp [pure, Except.pure] at h
        obtain ⟨_, _, _, _, _, _, _, W1, hp1, _, _, _⟩ := swap_spec hn hab I.toSAInvW hs1
        have hsrcnd : src ∉ dvs := by
          intro hm; have := hdv src hm; rw [hsl] at this; exact hab (Option.some.inj this)
        obtain ⟨s2, hs2⟩ := swap_ok (x := src) (a := dst) (b := srcLoc) (vbs := dvs) W1
          (by rw [hp1 src, if_neg hsrcnd, if_pos rfl]) hdnd
          (fun v hv => by rw [hp1 v, if_pos hv]) hoks0 (hpvr src hsrc) hdin
        simp [hs2, pure, Except.pure] at h

/-- ... hence a whole run raises nothing -/
theorem SAInv.run_doc {vr : VR} {fixed : List Vtx} {p0 : Placement} {m0 : Machine} {tot : Chip → Nat → Int}
    (hn : (keys vr).Nodup) (hpvr : ∀ v ∈ keys p0, v ∈ keys vr) :
    ∀ (steps : List Step) (s : SA) (fl : List Bool) (e : Err),
      SAInv vr fixed p0 m0 tot s → (∀ st ∈ steps, st.src ∈ keys p0) →
      saRun vr fixed steps s fl = .error e → e = .badOracle := by
  intro steps
  induction steps with
  | nil => intro s fl e _ _ h; simp [saRun] at h
  | cons st rest ih =>
    intro s fl e I hsrc h
    simp only [saRun, bind, Except.bind] at h
    split at h
    · rename_i e' he'
      injection h with h; subst h
      exact SAInv.step_doc hn I hpvr (hsrc st (by simp)) he'
    · rename_i r hr
      obtain ⟨s1, f⟩ := r
      exact ih _ _ _ (SAInv.step hn I hr) (fun st' h' => hsrc st' (by simp [h'])) h

theorem mkL2v_ok (m : Machine) : ∀ (p : Placement) (l : List (Chip × List Vtx)),
    (∀ vc ∈ p, vc.2 ∈ keys l) →
    ∃ l', p.foldlM (fun l (vc : Vtx × Chip) =>
      match aget l vc.2 with
      | none => (.error .keyError : M _)
      | some vs => .ok (aset l vc.2 (vs ++ [vc.1]))) l = .ok l' := by
  intro p
  induction p with
  | nil => intro l _; exact ⟨l, rfl⟩
  | cons hd t ih =>
    obtain ⟨v, c⟩ := hd
    intro l hin
    have hc := (aget_isSome_iff l c).2 (hin (v, c) (by simp))
    cases hx : aget l c with
    | none => simp [hx] at hc
    | some vs =>
      simp only [List.foldlM_cons, hx, bind, Except.bind]
      apply ih
      intro vc hvc
      rw [mem_keys_aset]
      exact Or.inr (hin vc (by simp [hvc]))

end Rig.C02
