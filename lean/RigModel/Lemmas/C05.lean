/-
C05 - helper lemmas about the allocator model (core Lean only).
-/
import RigModel.Model.C05
set_option linter.unusedSimpArgs false
set_option linter.unusedVariables false

namespace Rig.C05

/-! ### utils -/

theorem slicesOverlap_iff (a b : Slice) : slicesOverlap a b = true ↔ Overlaps a b := by
  simp [slicesOverlap, Overlaps]

theorem overlaps_stop_gt {a b : Slice} (h : Overlaps a b) : a.start < b.stop ∧ a.start < a.stop ∧ b.start < a.stop := by
  unfold Overlaps at h; omega

theorem align_eq (v a : Int) (ha : 1 ≤ a) : align v a = (v + a - 1) - (v + a - 1) % a := by
  unfold align
  rw [Int.fdiv_eq_ediv_of_nonneg _ (by omega)]
  have := Int.emod_add_mul_ediv (v + a - 1) a
  rw [Int.mul_comm] at this
  omega

theorem align_ge (v a : Int) (ha : 1 ≤ a) : v ≤ align v a := by
  rw [align_eq v a ha]
  have := Int.emod_lt_of_pos (v + a - 1) (show 0 < a by omega)
  omega

theorem align_mod (v a : Int) : align v a % a = 0 := by
  unfold align; exact Int.mul_emod_left _ _

theorem align_one (v : Int) : align v 1 = v := by
  rw [align_eq v 1 (by omega)]; omega

/-! ### scan -/

theorem scan_cases (prop : Slice) (rs : List Slice) (st : Int × Bool) :
    (scan prop rs st = st ∧ ∀ r ∈ rs, ¬ Overlaps prop r) ∨
    (∃ r ∈ rs, Overlaps prop r ∧ scan prop rs st = (r.stop, true)) := by
  induction rs generalizing st with
  | nil => left; simp [scan]
  | cons r rs ih =>
    have hs : scan prop (r :: rs) st =
        scan prop rs (if slicesOverlap prop r then (r.stop, true) else st) := by
      simp [scan]
    rw [hs]
    by_cases ho : Overlaps prop r
    · have : slicesOverlap prop r = true := (slicesOverlap_iff _ _).2 ho
      simp only [this, if_true]
      rcases ih (r.stop, true) with ⟨h1, h2⟩ | ⟨r', hr', h1, h2⟩
      · right; exact ⟨r, by simp, ho, h1⟩
      · right; exact ⟨r', by simp [hr'], h1, h2⟩
    · have : slicesOverlap prop r = false := by
        cases h : slicesOverlap prop r with
        | false => rfl
        | true => exact absurd ((slicesOverlap_iff _ _).1 h) ho
      simp only [this]
      rcases ih st with ⟨h1, h2⟩ | ⟨r', hr', h1, h2⟩
      · left; refine ⟨h1, ?_⟩
        intro x hx
        rcases List.mem_cons.1 hx with rfl | hx
        · exact ho
        · exact h2 x hx
      · right; exact ⟨r', by simp [hr'], h1, h2⟩

/-- the two scans of one loop iteration: either nothing overlaps and the flag stays
down, or the flag is up and the pointer is the `stop` of an overlapping reservation -/
theorem scan2_cases (prop : Slice) (g l : List Slice) (p : Int) :
    ((scan prop l (scan prop g (p, false))).2 = false ∧ ∀ r ∈ g ++ l, ¬ Overlaps prop r) ∨
    (∃ r ∈ g ++ l, Overlaps prop r ∧ scan prop l (scan prop g (p, false)) = (r.stop, true)) := by
  rcases scan_cases prop g (p, false) with ⟨h1, h2⟩ | ⟨r, hr, h1, h2⟩
  · rw [h1]
    rcases scan_cases prop l (p, false) with ⟨h3, h4⟩ | ⟨r, hr, h3, h4⟩
    · left; rw [h3]; refine ⟨rfl, ?_⟩
      intro x hx
      rcases List.mem_append.1 hx with hx | hx
      · exact h2 x hx
      · exact h4 x hx
    · right; exact ⟨r, List.mem_append.2 (Or.inr hr), h3, h4⟩
  · rw [h2]
    rcases scan_cases prop l (r.stop, true) with ⟨h3, h4⟩ | ⟨r', hr', h3, h4⟩
    · right; exact ⟨r, List.mem_append.2 (Or.inl hr), h1, h3⟩
    · right; exact ⟨r', List.mem_append.2 (Or.inr hr'), h3, h4⟩

/-! ### the proposal loop -/

theorem proposeLoop_succ (a cap d : Int) (g l : List Slice) (f : Nat) (p : Int) :
    proposeLoop a cap d g l (f + 1) p =
      if align p a + d > cap then .error .insufficient
      else if (scan ⟨align p a, align p a + d⟩ l (scan ⟨align p a, align p a + d⟩ g (p, false))).2
        then proposeLoop a cap d g l f
          (scan ⟨align p a, align p a + d⟩ l (scan ⟨align p a, align p a + d⟩ g (p, false))).1
        else .ok (align p a) := by
  rfl

theorem propose_sound {a cap d : Int} {g l : List Slice} (ha : 1 ≤ a) :
    ∀ (f : Nat) (p start : Int), proposeLoop a cap d g l f p = .ok start →
      p ≤ start ∧ start % a = 0 ∧ start + d ≤ cap ∧
      ∀ r ∈ g ++ l, ¬ Overlaps ⟨start, start + d⟩ r := by
  intro f
  induction f with
  | zero => intro p start h; simp [proposeLoop] at h
  | succ f ih =>
    intro p start h
    rw [proposeLoop_succ] at h
    have hge := align_ge p a ha
    split at h
    · simp at h
    · rename_i hcap
      rcases scan2_cases ⟨align p a, align p a + d⟩ g l p with ⟨h1, h2⟩ | ⟨r, hr, h1, h2⟩
      · rw [h1] at h
        simp only [Bool.false_eq_true, if_false] at h
        injection h with h
        subst h
        exact ⟨hge, align_mod p a, by omega, h2⟩
      · rw [h2] at h
        simp only [if_true] at h
        have := ih _ _ h
        have hgt := (overlaps_stop_gt h1).1
        simp only at hgt
        exact ⟨by omega, this.2⟩

/-- the loop terminates: the start strictly increases and is bounded by the capacity -/
theorem propose_no_fuel {a cap d : Int} {g l : List Slice} (ha : 1 ≤ a) (hd : 0 ≤ d) :
    ∀ (f : Nat) (p : Int), (cap - p).toNat + 2 ≤ f →
      proposeLoop a cap d g l f p ≠ .error .fuel := by
  intro f
  induction f with
  | zero => intro p h; omega
  | succ f ih =>
    intro p hf
    rw [proposeLoop_succ]
    have hge := align_ge p a ha
    split
    · simp
    · rename_i hcap
      rcases scan2_cases ⟨align p a, align p a + d⟩ g l p with ⟨h1, h2⟩ | ⟨r, hr, h1, h2⟩
      · rw [h1]; simp
      · rw [h2]
        simp only [if_true]
        apply ih
        have hgt := overlaps_stop_gt h1
        simp only at hgt
        omega

/-- completeness of the loop: no alignment, every non-empty reservation lies entirely
below `lo` or entirely above `hi`, and the request fits below `hi` from a pointer `≤ b` -/
theorem propose_complete {cap d lo hi b : Int} {g l : List Slice} (hd : 0 ≤ d)
    (hres : ∀ r ∈ g ++ l, r.stop ≤ r.start ∨ r.stop ≤ lo ∨ hi ≤ r.start)
    (hlo : lo ≤ b) (hfit : b + d ≤ hi) (hhi : hi ≤ cap) :
    ∀ (f : Nat) (p : Int), (cap - p).toNat + 2 ≤ f → p ≤ b →
      ∃ start, proposeLoop 1 cap d g l f p = .ok start ∧ p ≤ start ∧ start ≤ b := by
  intro f
  induction f with
  | zero => intro p h; omega
  | succ f ih =>
    intro p hf hp
    rw [proposeLoop_succ, align_one]
    split
    · omega
    · rcases scan2_cases ⟨p, p + d⟩ g l p with ⟨h1, h2⟩ | ⟨r, hr, h1, h2⟩
      · rw [h1]; exact ⟨p, by simp, by omega, hp⟩
      · rw [h2]
        simp only [if_true]
        have hgt := overlaps_stop_gt h1
        simp only at hgt
        have hr' := hres r hr
        unfold Overlaps at h1
        simp only at h1
        obtain ⟨start, hs, h3, h4⟩ := ih r.stop (by omega) (by omega)
        exact ⟨start, hs, by omega, h4⟩

/-! ### one request -/

theorem alignment_pos {cs : List Constraint} (h : ∀ c ∈ cs, ∀ r a, c = .align r a → 1 ≤ a)
    (res : Res) : 1 ≤ alignment cs res := by
  unfold alignment
  suffices ∀ init : Int, 1 ≤ init → 1 ≤ cs.foldl (fun a c => match c with
      | .align r al => if r = res then al else a
      | _ => a) init from this 1 (by omega)
  induction cs with
  | nil => intro init hi; simpa using hi
  | cons c cs ih =>
    intro init hi
    simp only [List.foldl_cons]
    apply ih (fun c hc => h c (List.mem_cons_of_mem _ hc))
    cases c with
    | align r al =>
      simp only
      split
      · exact h _ (List.mem_cons_self) r al rfl
      · exact hi
    | reserve => exact hi
    | other => exact hi

/-- everything `GoodRange` asks except `0 ≤ start` (which follows from the pointers
starting at 0) -/
def RangeOk (inp : Input) (e : Entry) : Prop :=
  e.s.stop - e.s.start = e.d ∧
  (∃ c, capacity inp.machine e.xy e.res = some c ∧ e.s.stop ≤ c) ∧
  e.s.start % alignment inp.constraints e.res = 0 ∧
  ∀ r ∈ reserved inp.constraints e.xy e.res, ¬ Overlaps e.s r

theorem allocOne_ok {inp : Input} {xy : Chip} {v : Vertex} {res : Res} {d : Int}
    {ptrs ptrs' : Ptrs} {e : Entry} (ha : 1 ≤ alignment inp.constraints res)
    (h : allocOne inp xy v res d ptrs = .ok (ptrs', e)) :
    e.v = v ∧ e.xy = xy ∧ e.res = res ∧ e.d = d ∧ ptrs' = setPtr ptrs res e.s.stop ∧
    ptrs res ≤ e.s.start ∧ RangeOk inp e := by
  unfold allocOne at h
  split at h
  · simp at h
  · simp only at h
    split at h
    · simp at h
    · split at h
      · simp at h
      · rename_i rsrc hget
        split at h
        · simp at h
        · rename_i cap hcap
          split at h
          · simp at h
          · simp at h
          · rename_i start hp
            have hs := propose_sound ha _ _ _ hp
            injection h with h
            injection h with h1 h2
            subst h2
            refine ⟨rfl, rfl, rfl, rfl, h1.symm, hs.1, ?_, ⟨cap, ?_, hs.2.2.1⟩, hs.2.1, hs.2.2.2⟩
            · show start + d - start = d; omega
            · simp [capacity, hget, hcap]

/-! ### segments of the per-chip run -/

/-- `es` were allocated on chip `xy` while the pointers moved from `ptrs` to `ptrs'` -/
structure Seg (inp : Input) (xy : Chip) (ptrs : Ptrs) (es : List Entry) (ptrs' : Ptrs) : Prop where
  ok : ∀ e ∈ es, e.xy = xy ∧ RangeOk inp e
  lb : ∀ e ∈ es, ptrs e.res ≤ e.s.start
  ub : ∀ e ∈ es, e.s.stop ≤ ptrs' e.res
  pw : es.Pairwise (fun e1 e2 => e1.res = e2.res → ¬ Overlaps e1.s e2.s)
  mono : ∀ r, ptrs r ≤ ptrs' r

theorem Seg.nil {inp : Input} {xy : Chip} {ptrs : Ptrs} : Seg inp xy ptrs [] ptrs :=
  ⟨by simp, by simp, by simp, List.Pairwise.nil, fun _ => Int.le_refl _⟩

theorem Seg.append {inp : Input} {xy : Chip} {p0 p1 p2 : Ptrs} {es1 es2 : List Entry}
    (h1 : Seg inp xy p0 es1 p1) (h2 : Seg inp xy p1 es2 p2) : Seg inp xy p0 (es1 ++ es2) p2 := by
  refine ⟨?_, ?_, ?_, ?_, ?_⟩
  · intro e he
    rcases List.mem_append.1 he with he | he
    · exact h1.ok e he
    · exact h2.ok e he
  · intro e he
    rcases List.mem_append.1 he with he | he
    · exact h1.lb e he
    · have := h2.lb e he; have := h1.mono e.res; omega
  · intro e he
    rcases List.mem_append.1 he with he | he
    · have := h1.ub e he; have := h2.mono e.res; omega
    · exact h2.ub e he
  · rw [List.pairwise_append]
    refine ⟨h1.pw, h2.pw, ?_⟩
    intro a ha b hb hres
    have h3 := h1.ub a ha
    have h4 := h2.lb b hb
    rw [hres] at h3
    unfold Overlaps
    omega
  · intro r; have := h1.mono r; have := h2.mono r; omega

theorem Seg.single {inp : Input} {xy : Chip} {v : Vertex} {res : Res} {d : Int}
    {ptrs ptrs' : Ptrs} {e : Entry} (ha : 1 ≤ alignment inp.constraints res) (hd : 0 ≤ d)
    (h : allocOne inp xy v res d ptrs = .ok (ptrs', e)) : Seg inp xy ptrs [e] ptrs' := by
  obtain ⟨hv, hxy, hres, hdd, hp, hlb, hok⟩ := allocOne_ok ha h
  have hsz := hok.1
  refine ⟨?_, ?_, ?_, ?_, ?_⟩
  · intro e' he'; simp at he'; subst he'; exact ⟨hxy, hok⟩
  · intro e' he'; simp at he'; subst he'; rw [hres]; exact hlb
  · intro e' he'; simp at he'; subst he'; rw [hp, hres]; simp [setPtr]
  · simp
  · intro r
    rw [hp]
    simp only [setPtr]
    split
    · rename_i h; subst h; omega
    · exact Int.le_refl _

/-- the request an entry answers -/
def Entry.key (e : Entry) : Vertex × Chip × Res × Int := (e.v, e.xy, e.res, e.d)

theorem allocResources_seg {inp : Input} {xy : Chip} {v : Vertex}
    (halign : ∀ res, 1 ≤ alignment inp.constraints res) :
    ∀ (rs : List (Res × Int)) (ptrs ptrs' : Ptrs) (es : List Entry), (∀ rd ∈ rs, 0 ≤ rd.2) →
      allocResources inp xy v rs ptrs = .ok (ptrs', es) →
      Seg inp xy ptrs es ptrs' ∧ es.map Entry.key = rs.map (fun rd => (v, xy, rd.1, rd.2)) := by
  intro rs
  induction rs with
  | nil =>
    intro ptrs ptrs' es _ h
    simp only [allocResources] at h
    injection h with h; injection h with h1 h2
    subst h1; subst h2
    exact ⟨Seg.nil, rfl⟩
  | cons rd rs ih =>
    intro ptrs ptrs' es hd h
    obtain ⟨res, d⟩ := rd
    simp only [allocResources] at h
    split at h
    · simp at h
    · rename_i p1 e h1
      split at h
      · simp at h
      · rename_i p2 es' h2
        injection h with h; injection h with h3 h4
        subst h3; subst h4
        have hd0 : 0 ≤ d := hd (res, d) (by simp)
        have s1 := Seg.single (halign res) hd0 h1
        have ⟨s2, k2⟩ := ih p1 _ es' (fun rd hrd => hd rd (List.mem_cons_of_mem _ hrd)) h2
        obtain ⟨hv, hxy, hres, hdd, _⟩ := allocOne_ok (halign res) h1
        refine ⟨Seg.append s1 s2, ?_⟩
        simp only [List.map_cons, k2, Entry.key, hv, hxy, hres, hdd]

theorem mem_of_lookup {α : Type} {l : List (Nat × α)} {k : Nat} {x : α}
    (h : l.lookup k = some x) : (k, x) ∈ l := by
  induction l with
  | nil => simp [List.lookup] at h
  | cons a l ih =>
    obtain ⟨k', x'⟩ := a
    simp only [List.lookup] at h
    split at h
    · rename_i heq
      have : k = k' := by simpa using heq
      injection h with h
      subst h; subst this
      simp
    · exact List.mem_cons_of_mem _ (ih h)

/-- `o = (v, es)`: the entries of `v` answer exactly its requests, in order -/
def Tracks (inp : Input) (xy : Chip) (o : Vertex × List Entry) : Prop :=
  ∃ rs, inp.vr.lookup o.1 = some rs ∧
    o.2.map Entry.key = rs.map (fun rd => (o.1, xy, rd.1, rd.2))

theorem allocVertices_seg {inp : Input} {xy : Chip}
    (halign : ∀ res, 1 ≤ alignment inp.constraints res)
    (hdem : ∀ q ∈ inp.vr, ∀ rd ∈ q.2, 0 ≤ rd.2) :
    ∀ (vs : List Vertex) (ptrs : Ptrs) (out : List (Vertex × List Entry)),
      allocVertices inp xy vs ptrs = .ok out →
      (∃ ptrs', Seg inp xy ptrs (out.flatMap (·.2)) ptrs') ∧ out.map (·.1) = vs ∧
      ∀ o ∈ out, Tracks inp xy o := by
  intro vs
  induction vs with
  | nil =>
    intro ptrs out h
    simp only [allocVertices] at h
    injection h with h; subst h
    exact ⟨⟨ptrs, Seg.nil⟩, rfl, by simp⟩
  | cons v vs ih =>
    intro ptrs out h
    simp only [allocVertices] at h
    split at h
    · simp at h
    · rename_i rs hl
      split at h
      · simp at h
      · rename_i p1 es h1
        split at h
        · simp at h
        · rename_i rest h2
          injection h with h; subst h
          have hd : ∀ rd ∈ rs, 0 ≤ rd.2 := hdem (v, rs) (mem_of_lookup hl)
          have ⟨s1, k1⟩ := allocResources_seg halign rs ptrs p1 es hd h1
          have ⟨⟨p2, s2⟩, m2, t2⟩ := ih p1 rest h2
          refine ⟨⟨p2, ?_⟩, ?_, ?_⟩
          · simp only [List.flatMap_cons]; exact Seg.append s1 s2
          · simp [m2]
          · intro o ho
            rcases List.mem_cons.1 ho with rfl | ho
            · exact ⟨rs, hl, k1⟩
            · exact t2 o ho

/-! ### chips -/

theorem mem_dedup (l : List Chip) (x : Chip) : x ∈ dedup l ↔ x ∈ l := by
  induction l with
  | nil => simp [dedup]
  | cons a l ih =>
    simp only [dedup, List.mem_cons, List.mem_filter, ih]
    constructor
    · rintro (h | ⟨h, _⟩)
      · exact Or.inl h
      · exact Or.inr h
    · intro h
      by_cases hx : x = a
      · exact Or.inl hx
      · rcases h with h | h
        · exact Or.inl h
        · exact Or.inr ⟨h, by simpa using hx⟩

theorem nodup_dedup (l : List Chip) : (dedup l).Nodup := by
  induction l with
  | nil => simp [dedup]
  | cons a l ih =>
    simp only [dedup, List.nodup_cons, List.mem_filter]
    refine ⟨?_, ?_⟩
    · intro ⟨_, h⟩; simp at h
    · exact List.Nodup.sublist List.filter_sublist ih

theorem mem_chipVertices (inp : Input) (xy : Chip) (v : Vertex) :
    v ∈ chipVertices inp xy ↔ (v, xy) ∈ inp.placements := by
  simp only [chipVertices, List.mem_map, List.mem_filter]
  constructor
  · rintro ⟨p, ⟨hp, hxy⟩, rfl⟩
    have : p.2 = xy := by simpa using hxy
    subst this
    exact hp
  · intro h
    exact ⟨(v, xy), ⟨h, by simp⟩, rfl⟩

structure ChipsOk (inp : Input) (chips : List Chip) (out : List (Vertex × List Entry)) : Prop where
  good : ∀ e ∈ out.flatMap (·.2), e.xy ∈ chips ∧ RangeOk inp e ∧ 0 ≤ e.s.start
  pw : (out.flatMap (·.2)).Pairwise
        (fun e1 e2 => e1.xy = e2.xy → e1.res = e2.res → ¬ Overlaps e1.s e2.s)
  fwd : ∀ xy ∈ chips, ∀ v ∈ chipVertices inp xy, ∃ o ∈ out, o.1 = v ∧ Tracks inp xy o
  bwd : ∀ o ∈ out, ∃ xy ∈ chips, o.1 ∈ chipVertices inp xy ∧ Tracks inp xy o

theorem allocChips_ok {inp : Input}
    (halign : ∀ res, 1 ≤ alignment inp.constraints res)
    (hdem : ∀ q ∈ inp.vr, ∀ rd ∈ q.2, 0 ≤ rd.2) :
    ∀ (chips : List Chip) (out : List (Vertex × List Entry)), chips.Nodup →
      allocChips inp chips = .ok out → ChipsOk inp chips out := by
  intro chips
  induction chips with
  | nil =>
    intro out _ h
    simp only [allocChips] at h
    injection h with h; subst h
    exact ⟨by simp, by simp, by simp, by simp⟩
  | cons xy rest ih =>
    intro out hnd h
    simp only [allocChips] at h
    split at h
    · simp at h
    · rename_i a ha
      split at h
      · simp at h
      · rename_i b hb
        injection h with h; subst h
        rw [List.nodup_cons] at hnd
        have ⟨⟨p', sa⟩, ma, ta⟩ := allocVertices_seg halign hdem _ _ _ ha
        have cb := ih b hnd.2 hb
        refine ⟨?_, ?_, ?_, ?_⟩
        · intro e he
          rw [List.flatMap_append] at he
          rcases List.mem_append.1 he with he | he
          · have h1 := sa.ok e he
            have h2 := sa.lb e he
            exact ⟨by rw [h1.1]; exact List.mem_cons_self, h1.2, h2⟩
          · have h1 := cb.good e he
            exact ⟨List.mem_cons_of_mem _ h1.1, h1.2⟩
        · rw [List.flatMap_append, List.pairwise_append]
          have hpa : (a.flatMap (·.2)).Pairwise
              (fun e1 e2 => e1.xy = e2.xy → e1.res = e2.res → ¬ Overlaps e1.s e2.s) := by
            apply List.Pairwise.imp _ sa.pw
            intro e1 e2 h _; exact h
          refine ⟨hpa, cb.pw, ?_⟩
          intro e1 h1 e2 h2 hxy
          have h3 := (sa.ok e1 h1).1
          have h4 := (cb.good e2 h2).1
          rw [← hxy, h3] at h4
          exact absurd h4 hnd.1
        · intro xy' hxy' v hv
          rcases List.mem_cons.1 hxy' with rfl | hxy'
          · rw [← ma] at hv
            obtain ⟨o, ho, rfl⟩ := List.mem_map.1 hv
            exact ⟨o, List.mem_append.2 (Or.inl ho), rfl, ta o ho⟩
          · obtain ⟨o, ho, h1, h2⟩ := cb.fwd xy' hxy' v hv
            exact ⟨o, List.mem_append.2 (Or.inr ho), h1, h2⟩
        · intro o ho
          rcases List.mem_append.1 ho with ho | ho
          · refine ⟨xy, List.mem_cons_self, ?_, ta o ho⟩
            rw [← ma]; exact List.mem_map.2 ⟨o, ho, rfl⟩
          · obtain ⟨xy', h1, h2, h3⟩ := cb.bwd o ho
            exact ⟨xy', List.mem_cons_of_mem _ h1, h2, h3⟩

/-! ### assembling the property -/

theorem pairwise_of_ne {α : Type} {R : α → α → Prop} {l : List α} (h : l.Pairwise R)
    (hs : ∀ a b, R a b → R b a) {a b : α} (ha : a ∈ l) (hb : b ∈ l) (hab : a ≠ b) : R a b := by
  induction h with
  | nil => simp at ha
  | @cons x l hx _ ih =>
    rcases List.mem_cons.1 ha with ha1 | ha1
    · rcases List.mem_cons.1 hb with hb1 | hb1
      · exact absurd (ha1.trans hb1.symm) hab
      · rw [ha1]; exact hx _ hb1
    · rcases List.mem_cons.1 hb with hb1 | hb1
      · rw [hb1]; exact hs _ _ (hx _ ha1)
      · exact ih ha1 hb1

theorem eq_of_key_eq {α β : Type} {l : List (α × β)} (h : (l.map (·.1)).Nodup)
    {p q : α × β} (hp : p ∈ l) (hq : q ∈ l) (hk : p.1 = q.1) : p = q := by
  induction l with
  | nil => simp at hp
  | cons a l ih =>
    simp only [List.map_cons, List.nodup_cons, List.mem_map] at h
    rcases List.mem_cons.1 hp with hp1 | hp1
    · rcases List.mem_cons.1 hq with hq1 | hq1
      · rw [hp1, hq1]
      · exact absurd ⟨q, hq1, by rw [← hk, hp1]⟩ h.1
    · rcases List.mem_cons.1 hq with hq1 | hq1
      · exact absurd ⟨p, hp1, by rw [hk, hq1]⟩ h.1
      · exact ih h.2 hp1 hq1

theorem flat_eq (a : Alloc) :
    flat a = a.flatMap (fun o => o.2.map (fun rs => (o.1, rs.1, rs.2))) := rfl

theorem strip_eq (out : List (Vertex × List Entry)) :
    strip out = out.map (fun o => (o.1, o.2.map fun e => (e.res, e.s))) := rfl

theorem mem_flat_strip {out : List (Vertex × List Entry)} {t : Vertex × Res × Slice} :
    t ∈ flat (strip out) ↔ ∃ o ∈ out, ∃ e ∈ o.2, t = (o.1, e.res, e.s) := by
  rw [flat_eq, strip_eq]
  simp only [List.mem_flatMap, List.mem_map]
  constructor
  · rintro ⟨o', ⟨o, ho, ho'⟩, h⟩
    subst ho'
    simp only [List.mem_map] at h
    obtain ⟨re, ⟨e, he, hre⟩, ht⟩ := h
    subst hre
    exact ⟨o, ho, e, he, ht.symm⟩
  · rintro ⟨o, ho, e, he, ht⟩
    refine ⟨_, ⟨o, ho, rfl⟩, ?_⟩
    simp only [List.mem_map]
    exact ⟨_, ⟨e, he, rfl⟩, ht.symm⟩

theorem goodRange_of {inp : Input} {e : Entry} (h : RangeOk inp e) (h0 : 0 ≤ e.s.start) :
    GoodRange inp e.xy e.res e.d e.s := ⟨h.1, h0, h.2.1, h.2.2.1, h.2.2.2⟩

theorem Tracks.entry {inp : Input} {xy : Chip} {o : Vertex × List Entry} (t : Tracks inp xy o)
    {e : Entry} (he : e ∈ o.2) :
    e.v = o.1 ∧ e.xy = xy ∧ ∃ rs, inp.vr.lookup o.1 = some rs ∧ (e.res, e.d) ∈ rs := by
  obtain ⟨rs, hl, hk⟩ := t
  have : e.key ∈ o.2.map Entry.key := List.mem_map.2 ⟨e, he, rfl⟩
  rw [hk] at this
  obtain ⟨rd, hrd, h⟩ := List.mem_map.1 this
  simp only [Entry.key, Prod.mk.injEq] at h
  obtain ⟨h1, h2, h3, h4⟩ := h
  refine ⟨h1.symm, h2.symm, rs, hl, ?_⟩
  rw [← h3, ← h4]; exact hrd

theorem Tracks.request {inp : Input} {xy : Chip} {o : Vertex × List Entry} (t : Tracks inp xy o)
    {rs : List (Res × Int)} (hl : inp.vr.lookup o.1 = some rs) {rd : Res × Int} (hrd : rd ∈ rs) :
    ∃ e ∈ o.2, e.xy = xy ∧ e.res = rd.1 ∧ e.d = rd.2 := by
  obtain ⟨rs', hl', hk⟩ := t
  rw [hl] at hl'
  injection hl' with hl'
  subst hl'
  have : (o.1, xy, rd.1, rd.2) ∈ rs.map (fun rd => (o.1, xy, rd.1, rd.2)) :=
    List.mem_map.2 ⟨rd, hrd, rfl⟩
  rw [← hk] at this
  obtain ⟨e, he, h⟩ := List.mem_map.1 this
  simp only [Entry.key, Prod.mk.injEq] at h
  exact ⟨e, he, h.2.1, h.2.2.1, h.2.2.2⟩

theorem valid_of_chipsOk {inp : Input} {out : List (Vertex × List Entry)} (wf : WellFormed inp)
    (ck : ChipsOk inp (chipOrder inp) out) : Valid inp (strip out) := by
  -- every result row belongs to a placed vertex and tracks its requests
  have F1 : ∀ o ∈ out, ∃ xy, (o.1, xy) ∈ inp.placements ∧ Tracks inp xy o := by
    intro o ho
    obtain ⟨xy, _, h2, h3⟩ := ck.bwd o ho
    exact ⟨xy, (mem_chipVertices _ _ _).1 h2, h3⟩
  have F2 : ∀ p ∈ inp.placements, ∃ o ∈ out, o.1 = p.1 ∧ Tracks inp p.2 o := by
    intro p hp
    have h1 : p.2 ∈ chipOrder inp := (mem_dedup _ _).2 (List.mem_map.2 ⟨p, hp, rfl⟩)
    exact ck.fwd p.2 h1 p.1 ((mem_chipVertices _ _ _).2 hp)
  have memE : ∀ o ∈ out, ∀ e ∈ o.2, e ∈ out.flatMap (·.2) :=
    fun o ho e he => List.mem_flatMap.2 ⟨o, ho, he⟩
  refine ⟨⟨?_, ?_⟩, ?_, ?_, ?_⟩
  · intro p hp
    obtain ⟨o, ho, h1, _⟩ := F2 p hp
    exact ⟨(o.1, o.2.map fun e => (e.res, e.s)), List.mem_map.2 ⟨o, ho, rfl⟩, h1⟩
  · intro o' ho'
    obtain ⟨o, ho, rfl⟩ := List.mem_map.1 ho'
    obtain ⟨xy, h1, _⟩ := F1 o ho
    exact ⟨(o.1, xy), h1, rfl⟩
  · -- Served
    intro p hp q hq hqp rd hrd
    obtain ⟨o, ho, h1, tr⟩ := F2 p hp
    obtain ⟨rs, hl, _⟩ := id tr
    have hm := mem_of_lookup hl
    have : q = (o.1, rs) := eq_of_key_eq wf.vrNodup hq hm (by rw [hqp, h1])
    subst this
    obtain ⟨e, he, h2, h3, h4⟩ := tr.request hl hrd
    have hg := ck.good e (memE o ho e he)
    refine ⟨(o.1, e.res, e.s), mem_flat_strip.2 ⟨o, ho, e, he, rfl⟩, h1, h3, ?_⟩
    have := goodRange_of hg.2.1 hg.2.2
    rw [h2, h3, h4] at this
    exact this
  · -- Justified
    intro t ht
    obtain ⟨o, ho, e, he, rfl⟩ := mem_flat_strip.1 ht
    obtain ⟨xy, h1, tr⟩ := F1 o ho
    obtain ⟨h2, h3, rs, hl, hrd⟩ := tr.entry he
    have hg := ck.good e (memE o ho e he)
    refine ⟨(o.1, xy), h1, rfl, (o.1, rs), mem_of_lookup hl, rfl, (e.res, e.d), hrd, rfl, ?_⟩
    have := goodRange_of hg.2.1 hg.2.2
    rw [h3] at this
    exact this
  · -- DisjointPerChip
    intro t1 ht1 t2 ht2 hne hres hchip
    obtain ⟨o1, ho1, e1, he1, rfl⟩ := mem_flat_strip.1 ht1
    obtain ⟨o2, ho2, e2, he2, rfl⟩ := mem_flat_strip.1 ht2
    obtain ⟨p1, hp1, p2, hp2, k1, k2, hsame⟩ := hchip
    simp only at hne hres k1 k2
    obtain ⟨xy1, m1, tr1⟩ := F1 o1 ho1
    obtain ⟨xy2, m2, tr2⟩ := F1 o2 ho2
    have a1 := eq_of_key_eq wf.placementsNodup hp1 m1 k1
    have a2 := eq_of_key_eq wf.placementsNodup hp2 m2 k2
    obtain ⟨v1, x1, _⟩ := tr1.entry he1
    obtain ⟨v2, x2, _⟩ := tr2.entry he2
    have hxy : e1.xy = e2.xy := by
      rw [x1, x2]
      have b1 : p1.2 = xy1 := by rw [a1]
      have b2 : p2.2 = xy2 := by rw [a2]
      rw [← b1, ← b2]; exact hsame
    have hne' : e1 ≠ e2 := by
      intro h; apply hne; rw [← v1, ← v2, h]
    have := pairwise_of_ne ck.pw
      (by
        intro a b h hxy hres hov
        apply h hxy.symm hres.symm
        unfold Overlaps at hov ⊢
        omega)
      (memE o1 ho1 e1 he1) (memE o2 ho2 e2 he2) hne'
    exact this hxy hres

/-! ### only failure -/

/-- on a known resource of a live chip with a non-zero alignment the request body is
just the proposal loop -/
theorem allocOne_eq {inp : Input} {xy : Chip} {v : Vertex} {res : Res} {d cap : Int} {ptrs : Ptrs}
    (hkn : inp.machine.chipResources.any (·.1 == res) = true)
    (hcap : capacity inp.machine xy res = some cap)
    (ha : alignment inp.constraints res ≠ 0) :
    allocOne inp xy v res d ptrs =
      match proposeLoop (alignment inp.constraints res) cap d (globalRes inp.constraints res)
              (localRes inp.constraints xy res) (fuelFor cap (ptrs res)) (ptrs res) with
      | .error .insufficient => .error (.insufficient res xy)
      | .error .fuel => .error .fuel
      | .ok start => .ok (setPtr ptrs res (start + d), ⟨v, xy, res, d, ⟨start, start + d⟩⟩) := by
  unfold capacity at hcap
  cases hget : inp.machine.get xy with
  | none => simp [hget] at hcap
  | some rsrc =>
    simp only [hget, Option.bind_some] at hcap
    unfold allocOne
    simp only [hkn, Bool.not_true, Bool.false_eq_true, if_false, ha, hget, hcap]
    rfl

theorem allocOne_total {inp : Input} {xy : Chip} {v : Vertex} {res : Res} {d cap : Int} {ptrs : Ptrs}
    (hkn : inp.machine.chipResources.any (·.1 == res) = true)
    (hcap : capacity inp.machine xy res = some cap)
    (ha : 1 ≤ alignment inp.constraints res) (hd : 0 ≤ d) :
    (∃ r, allocOne inp xy v res d ptrs = .ok r) ∨
    allocOne inp xy v res d ptrs = .error (.insufficient res xy) := by
  rw [allocOne_eq hkn hcap (by omega)]
  have hnf := propose_no_fuel (cap := cap) (g := globalRes inp.constraints res)
    (l := localRes inp.constraints xy res) ha hd (fuelFor cap (ptrs res)) (ptrs res)
    (by unfold fuelFor; omega)
  split
  · right; rfl
  · rename_i h; exact absurd h hnf
  · left; exact ⟨_, rfl⟩

/-- what the documented domain says about one request -/
structure ReqOk (inp : Input) (xy : Chip) (rd : Res × Int) : Prop where
  known : inp.machine.chipResources.any (·.1 == rd.1) = true
  cap : ∃ c, capacity inp.machine xy rd.1 = some c
  nonneg : 0 ≤ rd.2

theorem allocResources_total {inp : Input} {xy : Chip} {v : Vertex}
    (halign : ∀ res, 1 ≤ alignment inp.constraints res) :
    ∀ (rs : List (Res × Int)) (ptrs : Ptrs), (∀ rd ∈ rs, ReqOk inp xy rd) →
      (∃ r, allocResources inp xy v rs ptrs = .ok r) ∨
      ∃ res, allocResources inp xy v rs ptrs = .error (.insufficient res xy) := by
  intro rs
  induction rs with
  | nil => intro ptrs _; left; exact ⟨_, rfl⟩
  | cons rd rs ih =>
    intro ptrs h
    obtain ⟨res, d⟩ := rd
    have hr := h (res, d) (by simp)
    obtain ⟨cap, hcap⟩ := hr.cap
    simp only [allocResources]
    rcases allocOne_total (v := v) (ptrs := ptrs) hr.known hcap (halign res) hr.nonneg with ⟨⟨p1, e⟩, h1⟩ | h1
    · rw [h1]
      simp only
      rcases ih p1 (fun rd hrd => h rd (List.mem_cons_of_mem _ hrd)) with ⟨⟨p2, es⟩, h2⟩ | ⟨r, h2⟩
      · rw [h2]; left; exact ⟨_, rfl⟩
      · rw [h2]; right; exact ⟨r, rfl⟩
    · rw [h1]; right; exact ⟨res, rfl⟩

theorem allocVertices_total {inp : Input} {xy : Chip}
    (halign : ∀ res, 1 ≤ alignment inp.constraints res) :
    ∀ (vs : List Vertex) (ptrs : Ptrs),
      (∀ v ∈ vs, ∃ rs, inp.vr.lookup v = some rs ∧ ∀ rd ∈ rs, ReqOk inp xy rd) →
      (∃ r, allocVertices inp xy vs ptrs = .ok r) ∨
      ∃ res, allocVertices inp xy vs ptrs = .error (.insufficient res xy) := by
  intro vs
  induction vs with
  | nil => intro ptrs _; left; exact ⟨_, rfl⟩
  | cons v vs ih =>
    intro ptrs h
    obtain ⟨rs, hl, hr⟩ := h v (by simp)
    simp only [allocVertices, hl]
    rcases allocResources_total (v := v) halign rs ptrs hr with ⟨⟨p1, es⟩, h1⟩ | ⟨r, h1⟩
    · rw [h1]
      simp only
      rcases ih p1 (fun v hv => h v (List.mem_cons_of_mem _ hv)) with ⟨rest, h2⟩ | ⟨r, h2⟩
      · rw [h2]; left; exact ⟨_, rfl⟩
      · rw [h2]; right; exact ⟨r, rfl⟩
    · rw [h1]; right; exact ⟨r, rfl⟩

theorem allocChips_total {inp : Input}
    (halign : ∀ res, 1 ≤ alignment inp.constraints res) :
    ∀ (chips : List Chip),
      (∀ xy ∈ chips, ∀ v ∈ chipVertices inp xy,
        ∃ rs, inp.vr.lookup v = some rs ∧ ∀ rd ∈ rs, ReqOk inp xy rd) →
      (∃ r, allocChips inp chips = .ok r) ∨
      ∃ res, ∃ xy ∈ chips, allocChips inp chips = .error (.insufficient res xy) := by
  intro chips
  induction chips with
  | nil => intro _; left; exact ⟨_, rfl⟩
  | cons xy rest ih =>
    intro h
    simp only [allocChips]
    rcases allocVertices_total halign (chipVertices inp xy) (fun _ => 0)
        (h xy List.mem_cons_self) with ⟨a, h1⟩ | ⟨r, h1⟩
    · rw [h1]
      simp only
      rcases ih (fun xy' hxy' => h xy' (List.mem_cons_of_mem _ hxy')) with ⟨b, h2⟩ | ⟨r, xy', hxy', h2⟩
      · rw [h2]; left; exact ⟨_, rfl⟩
      · rw [h2]; right; exact ⟨r, xy', List.mem_cons_of_mem _ hxy', rfl⟩
    · rw [h1]; right; exact ⟨r, xy, List.mem_cons_self, rfl⟩

theorem lookup_of_key_mem {α : Type} {l : List (Nat × α)} {k : Nat}
    (h : ∃ q ∈ l, q.1 = k) : ∃ x, l.lookup k = some x := by
  induction l with
  | nil => obtain ⟨q, hq, _⟩ := h; simp at hq
  | cons a l ih =>
    obtain ⟨k', x'⟩ := a
    simp only [List.lookup]
    by_cases hk : k = k'
    · subst hk; simp
    · have : (k == k') = false := by simpa using hk
      simp only [this]
      apply ih
      obtain ⟨q, hq, hqk⟩ := h
      rcases List.mem_cons.1 hq with hq1 | hq1
      · subst hq1; exact absurd hqk.symm hk
      · exact ⟨q, hq1, hqk⟩

/-- the documented domain gives `ReqOk` for every request met by the run -/
theorem reqOk_of_domain {inp : Input} (wf : WellFormed inp) (dom : InDomain inp) :
    ∀ xy ∈ chipOrder inp, ∀ v ∈ chipVertices inp xy,
      ∃ rs, inp.vr.lookup v = some rs ∧ ∀ rd ∈ rs, ReqOk inp xy rd := by
  intro xy _ v hv
  have hp := (mem_chipVertices _ _ _).1 hv
  obtain ⟨rs, hl⟩ := lookup_of_key_mem (dom.placedKnown _ hp)
  have hm := mem_of_lookup hl
  refine ⟨rs, hl, ?_⟩
  intro rd hrd
  have := dom.resKnown _ hp _ hm rfl rd hrd
  exact ⟨this.1, this.2, wf.demandNonneg _ hm rd hrd⟩

/-! ### completeness -/

theorem windowLo_ge_init (rs : List Slice) : ∀ init : Int,
    init ≤ rs.foldl (fun lo r => if r.start < r.stop ∧ r.start ≤ 0 then max lo r.stop else lo) init := by
  induction rs with
  | nil => intro init; simp
  | cons r rs ih =>
    intro init
    simp only [List.foldl_cons]
    by_cases hc : r.start < r.stop ∧ r.start ≤ 0
    · rw [if_pos hc]; have := ih (max init r.stop); omega
    · rw [if_neg hc]; exact ih init

theorem windowLo_ge_mem (rs : List Slice) : ∀ (init : Int) (r : Slice), r ∈ rs →
    r.start < r.stop → r.start ≤ 0 →
    r.stop ≤ rs.foldl (fun lo r => if r.start < r.stop ∧ r.start ≤ 0 then max lo r.stop else lo) init := by
  induction rs with
  | nil => intro init r hr; simp at hr
  | cons a rs ih =>
    intro init r hr h1 h2
    simp only [List.foldl_cons]
    rcases List.mem_cons.1 hr with hr1 | hr1
    · subst hr1
      rw [if_pos ⟨h1, h2⟩]
      have := windowLo_ge_init rs (max init r.stop)
      omega
    · exact ih _ r hr1 h1 h2

theorem windowHi_le_init (rs : List Slice) : ∀ init : Int,
    rs.foldl (fun hi r => if r.start < r.stop ∧ ¬ r.start ≤ 0 then min hi r.start else hi) init ≤ init := by
  induction rs with
  | nil => intro init; simp
  | cons r rs ih =>
    intro init
    simp only [List.foldl_cons]
    by_cases hc : r.start < r.stop ∧ ¬ r.start ≤ 0
    · rw [if_pos hc]; have := ih (min init r.start); omega
    · rw [if_neg hc]; exact ih init

theorem windowHi_le_mem (rs : List Slice) : ∀ (init : Int) (r : Slice), r ∈ rs →
    r.start < r.stop → ¬ r.start ≤ 0 →
    rs.foldl (fun hi r => if r.start < r.stop ∧ ¬ r.start ≤ 0 then min hi r.start else hi) init ≤ r.start := by
  induction rs with
  | nil => intro init r hr; simp at hr
  | cons a rs ih =>
    intro init r hr h1 h2
    simp only [List.foldl_cons]
    rcases List.mem_cons.1 hr with hr1 | hr1
    · subst hr1
      rw [if_pos ⟨h1, h2⟩]
      have := windowHi_le_init rs (min init r.start)
      omega
    · exact ih _ r hr1 h1 h2

/-- every non-empty reservation lies entirely below `windowLo` or entirely above `windowHi` -/
theorem window_spec (cap : Int) (rs : List Slice) :
    0 ≤ windowLo rs ∧ windowHi cap rs ≤ cap ∧
    ∀ r ∈ rs, r.stop ≤ r.start ∨ r.stop ≤ windowLo rs ∨ windowHi cap rs ≤ r.start := by
  refine ⟨windowLo_ge_init rs 0, windowHi_le_init rs cap, ?_⟩
  intro r hr
  by_cases h1 : r.start < r.stop
  · by_cases h2 : r.start ≤ 0
    · right; left; exact windowLo_ge_mem rs 0 r hr h1 h2
    · right; right; exact windowHi_le_mem rs cap r hr h1 h2
  · left; omega

def resDemand (rs : List (Res × Int)) (res : Res) : Int :=
  ((rs.filter (·.1 == res)).map (·.2)).sum

def vsDemand (inp : Input) (vs : List Vertex) (res : Res) : Int :=
  (vs.map fun v => resDemand ((inp.vr.lookup v).getD []) res).sum

theorem demand_eq (inp : Input) (xy : Chip) (res : Res) :
    demand inp xy res = vsDemand inp (chipVertices inp xy) res := rfl

theorem resDemand_cons (rd : Res × Int) (rs : List (Res × Int)) (res : Res) :
    resDemand (rd :: rs) res = (if res = rd.1 then rd.2 else 0) + resDemand rs res := by
  unfold resDemand
  by_cases h : res = rd.1
  · have : (rd.1 == res) = true := by simp [h]
    simp [List.filter_cons, this, h]
  · have : (rd.1 == res) = false := by simp; exact fun e => h e.symm
    simp [List.filter_cons, this, h]

theorem resDemand_nonneg {rs : List (Res × Int)} (h : ∀ rd ∈ rs, 0 ≤ rd.2) (res : Res) :
    0 ≤ resDemand rs res := by
  induction rs with
  | nil => simp [resDemand]
  | cons rd rs ih =>
    rw [resDemand_cons]
    have := ih (fun rd hrd => h rd (List.mem_cons_of_mem _ hrd))
    have := h rd List.mem_cons_self
    split <;> omega

theorem vsDemand_cons (inp : Input) (v : Vertex) (vs : List Vertex) (res : Res) :
    vsDemand inp (v :: vs) res =
      resDemand ((inp.vr.lookup v).getD []) res + vsDemand inp vs res := by
  simp [vsDemand]

theorem vsDemand_nonneg {inp : Input} (hdem : ∀ q ∈ inp.vr, ∀ rd ∈ q.2, 0 ≤ rd.2)
    (vs : List Vertex) (res : Res) : 0 ≤ vsDemand inp vs res := by
  induction vs with
  | nil => simp [vsDemand]
  | cons v vs ih =>
    rw [vsDemand_cons]
    have : 0 ≤ resDemand ((inp.vr.lookup v).getD []) res := by
      apply resDemand_nonneg
      cases hl : inp.vr.lookup v with
      | none => simp
      | some rs => exact hdem (v, rs) (mem_of_lookup hl)
    omega

/-- hypothesis of the completeness clause without the "only at the ends" part (which
the proof does not need): no alignment and the demand fits in the window -/
def FitsAt (inp : Input) (xy : Chip) (res : Res) : Prop :=
  alignment inp.constraints res = 1 ∧
  ∃ cap, capacity inp.machine xy res = some cap ∧
    demand inp xy res ≤ windowHi cap (reserved inp.constraints xy res)
                        - windowLo (reserved inp.constraints xy res)

theorem FeasibleAt.fits {inp : Input} {xy : Chip} {res : Res} (h : FeasibleAt inp xy res) :
    FitsAt inp xy res := by
  obtain ⟨h1, cap, h2, _, h3⟩ := h
  exact ⟨h1, cap, h2, h3⟩

/-- the pointer of every fitting resource plus what is still to be allocated stays below
the window's upper end -/
def Inv (inp : Input) (xy : Chip) (ptrs : Ptrs) (rem : Res → Int) : Prop :=
  ∀ res cap, FitsAt inp xy res → capacity inp.machine xy res = some cap →
    ptrs res + rem res ≤ windowHi cap (reserved inp.constraints xy res) ∧
    windowLo (reserved inp.constraints xy res) + rem res
      ≤ windowHi cap (reserved inp.constraints xy res)

theorem allocOne_complete {inp : Input} {xy : Chip} {v : Vertex} {res : Res} {d : Int}
    {ptrs : Ptrs} {rem R : Res → Int}
    (hr : ReqOk inp xy (res, d)) (hf : FitsAt inp xy res)
    (hI : Inv inp xy ptrs rem) (hrem : ∀ r, rem r = (if r = res then d else 0) + R r)
    (hR : ∀ r, 0 ≤ R r) :
    ∃ ptrs' e, allocOne inp xy v res d ptrs = .ok (ptrs', e) ∧ Inv inp xy ptrs' R := by
  obtain ⟨cap, hcap⟩ := hr.cap
  have hd : 0 ≤ d := hr.nonneg
  have ha := hf.1
  obtain ⟨h1, h2⟩ := hI res cap hf hcap
  rw [hrem res, if_pos rfl] at h1 h2
  obtain ⟨w0, w1, w2⟩ := window_spec cap (reserved inp.constraints xy res)
  have hR0 := hR res
  rw [allocOne_eq hr.known hcap (by rw [ha]; decide), ha]
  obtain ⟨start, hs, hs1, hs2⟩ := propose_complete (cap := cap) (d := d)
    (lo := windowLo (reserved inp.constraints xy res))
    (hi := windowHi cap (reserved inp.constraints xy res))
    (b := max (ptrs res) (windowLo (reserved inp.constraints xy res)))
    (g := globalRes inp.constraints res) (l := localRes inp.constraints xy res)
    hd w2 (by omega) (by omega) w1 (fuelFor cap (ptrs res)) (ptrs res)
    (by unfold fuelFor; omega) (by omega)
  rw [hs]
  refine ⟨_, _, rfl, ?_⟩
  intro r c hfr hc
  obtain ⟨i1, i2⟩ := hI r c hfr hc
  rw [hrem r] at i1 i2
  simp only [setPtr]
  by_cases hrr : r = res
  · subst hrr
    rw [hcap] at hc
    injection hc with hc
    subst hc
    simp only [if_true] at i1 i2 ⊢
    omega
  · simp only [hrr, if_false] at i1 i2 ⊢
    omega

theorem allocResources_complete {inp : Input} {xy : Chip} {v : Vertex} :
    ∀ (rs : List (Res × Int)) (ptrs : Ptrs) (R : Res → Int),
      (∀ rd ∈ rs, ReqOk inp xy rd ∧ FitsAt inp xy rd.1) → (∀ r, 0 ≤ R r) →
      Inv inp xy ptrs (fun r => resDemand rs r + R r) →
      ∃ ptrs' es, allocResources inp xy v rs ptrs = .ok (ptrs', es) ∧ Inv inp xy ptrs' R := by
  intro rs
  induction rs with
  | nil =>
    intro ptrs R _ _ hI
    refine ⟨ptrs, [], rfl, ?_⟩
    intro r c hf hc
    have := hI r c hf hc
    simpa [resDemand] using this
  | cons rd rs ih =>
    intro ptrs R h hR hI
    obtain ⟨res, d⟩ := rd
    have h0 := h (res, d) (by simp)
    have hrs : ∀ rd ∈ rs, ReqOk inp xy rd ∧ FitsAt inp xy rd.1 :=
      fun rd hrd => h rd (List.mem_cons_of_mem _ hrd)
    have hnn : ∀ r, 0 ≤ resDemand rs r + R r := by
      intro r
      have := resDemand_nonneg (fun rd hrd => (hrs rd hrd).1.nonneg) r
      have := hR r
      omega
    obtain ⟨p1, e, h1, I1⟩ := allocOne_complete (v := v) (R := fun r => resDemand rs r + R r)
      h0.1 h0.2 hI
      (by intro r; simp only [resDemand_cons]; omega) hnn
    obtain ⟨p2, es, h2, I2⟩ := ih p1 R hrs hR I1
    simp only [allocResources, h1, h2]
    exact ⟨p2, e :: es, rfl, I2⟩

theorem allocVertices_complete {inp : Input} {xy : Chip}
    (hdem : ∀ q ∈ inp.vr, ∀ rd ∈ q.2, 0 ≤ rd.2) :
    ∀ (vs : List Vertex) (ptrs : Ptrs),
      (∀ v ∈ vs, ∃ rs, inp.vr.lookup v = some rs ∧
        ∀ rd ∈ rs, ReqOk inp xy rd ∧ FitsAt inp xy rd.1) →
      Inv inp xy ptrs (vsDemand inp vs) →
      ∃ out, allocVertices inp xy vs ptrs = .ok out := by
  intro vs
  induction vs with
  | nil => intro ptrs _ _; exact ⟨[], rfl⟩
  | cons v vs ih =>
    intro ptrs h hI
    obtain ⟨rs, hl, hr⟩ := h v (by simp)
    obtain ⟨p1, es, h1, I1⟩ := allocResources_complete (v := v) rs ptrs (vsDemand inp vs) hr
      (vsDemand_nonneg hdem vs)
      (by
        intro r c hf hc
        have := hI r c hf hc
        rw [vsDemand_cons, hl] at this
        simpa using this)
    obtain ⟨rest, h2⟩ := ih p1 (fun v hv => h v (List.mem_cons_of_mem _ hv)) I1
    simp only [allocVertices, hl, h1, h2]
    exact ⟨_, rfl⟩

theorem allocChips_complete {inp : Input}
    (hdem : ∀ q ∈ inp.vr, ∀ rd ∈ q.2, 0 ≤ rd.2) :
    ∀ (chips : List Chip),
      (∀ xy ∈ chips, ∀ v ∈ chipVertices inp xy, ∃ rs, inp.vr.lookup v = some rs ∧
        ∀ rd ∈ rs, ReqOk inp xy rd ∧ FitsAt inp xy rd.1) →
      ∃ out, allocChips inp chips = .ok out := by
  intro chips
  induction chips with
  | nil => intro _; exact ⟨[], rfl⟩
  | cons xy rest ih =>
    intro h
    obtain ⟨a, h1⟩ := allocVertices_complete hdem (chipVertices inp xy) (fun _ => 0)
      (h xy List.mem_cons_self)
      (by
        intro r c hf hc
        obtain ⟨_, c', hc', hfit⟩ := hf
        rw [hc] at hc'
        injection hc' with hc'
        subst hc'
        rw [demand_eq] at hfit
        have := (window_spec c (reserved inp.constraints xy r)).1
        show 0 + vsDemand inp (chipVertices inp xy) r ≤ _ ∧ _
        constructor <;> omega)
    obtain ⟨b, h2⟩ := ih (fun xy' hxy' => h xy' (List.mem_cons_of_mem _ hxy'))
    simp only [allocChips, h1, h2]
    exact ⟨_, rfl⟩

/-! ### the placers' budget -/

/-- what the placers subtract from a chip's resource for the reservations `rs`
(`resources_after_reservation`: only the magnitudes) -/
def reservedSize (rs : List Slice) : Int := (rs.map fun r => r.stop - r.start).sum

/-- reservation `r` lies inside `[0, cap]` (documented requirement of
`ReserveResourceConstraint`) -/
def Inside (cap : Int) (r : Slice) : Prop := 0 ≤ r.start ∧ r.start ≤ r.stop ∧ r.stop ≤ cap

instance (cap r) : Decidable (Inside cap r) := by unfold Inside; infer_instance

theorem window_ge_budget (cap : Int) (rs : List Slice)
    (h : ∀ r ∈ rs, Inside cap r ∧ AtEnd cap r) :
    ∀ lo0 hi0 : Int, 0 ≤ lo0 → hi0 ≤ cap →
      hi0 - lo0 - reservedSize rs ≤
        rs.foldl (fun hi r => if r.start < r.stop ∧ ¬ r.start ≤ 0 then min hi r.start else hi) hi0
        - rs.foldl (fun lo r => if r.start < r.stop ∧ r.start ≤ 0 then max lo r.stop else lo) lo0 := by
  induction rs with
  | nil => intro lo0 hi0 _ _; simp [reservedSize]
  | cons r rs ih =>
    intro lo0 hi0 hlo hhi
    obtain ⟨⟨i1, i2, i3⟩, he⟩ := h r List.mem_cons_self
    have ih' := ih (fun r hr => h r (List.mem_cons_of_mem _ hr))
    have hsz : reservedSize (r :: rs) = (r.stop - r.start) + reservedSize rs := by
      simp [reservedSize]
    rw [hsz]
    simp only [List.foldl_cons]
    unfold AtEnd at he
    by_cases c1 : r.start < r.stop ∧ r.start ≤ 0
    · have c2 : ¬ (r.start < r.stop ∧ ¬ r.start ≤ 0) := by omega
      rw [if_pos c1, if_neg c2]
      have := ih' (max lo0 r.stop) hi0 (by omega) hhi
      omega
    · by_cases c2 : r.start < r.stop ∧ ¬ r.start ≤ 0
      · rw [if_neg c1, if_pos c2]
        have := ih' lo0 (min hi0 r.start) hlo (by omega)
        omega
      · rw [if_neg c1, if_neg c2]
        have := ih' lo0 hi0 hlo hhi
        omega

theorem window_ge_budget' (cap : Int) (rs : List Slice)
    (h : ∀ r ∈ rs, Inside cap r ∧ AtEnd cap r) :
    cap - reservedSize rs ≤ windowHi cap rs - windowLo rs := by
  have := window_ge_budget cap rs h 0 cap (by omega) (by omega)
  unfold windowHi windowLo
  omega

/-! ### one range per request -/

theorem nodup_flatMap_of {α β : Type} {l : List α} {f : α → List β}
    (h1 : ∀ x ∈ l, (f x).Nodup)
    (h2 : l.Pairwise (fun a b => ∀ y ∈ f a, ∀ z ∈ f b, y ≠ z)) : (l.flatMap f).Nodup := by
  induction l with
  | nil => simp
  | cons a l ih =>
    rw [List.pairwise_cons] at h2
    rw [List.flatMap_cons, List.nodup_append]
    refine ⟨h1 a List.mem_cons_self, ih (fun x hx => h1 x (List.mem_cons_of_mem _ hx)) h2.2, ?_⟩
    intro y hy z hz
    obtain ⟨b, hb, hzb⟩ := List.mem_flatMap.1 hz
    exact h2.1 b hb y hy z hzb

theorem allocChips_keys {inp : Input}
    (halign : ∀ res, 1 ≤ alignment inp.constraints res)
    (hdem : ∀ q ∈ inp.vr, ∀ rd ∈ q.2, 0 ≤ rd.2) :
    ∀ (chips : List Chip) (out : List (Vertex × List Entry)),
      allocChips inp chips = .ok out → out.map (·.1) = chips.flatMap (chipVertices inp) := by
  intro chips
  induction chips with
  | nil =>
    intro out h
    simp only [allocChips] at h
    injection h with h; subst h; rfl
  | cons xy rest ih =>
    intro out h
    simp only [allocChips] at h
    split at h
    · simp at h
    · rename_i a ha
      split at h
      · simp at h
      · rename_i b hb
        injection h with h; subst h
        have ⟨_, ma, _⟩ := allocVertices_seg halign hdem _ _ _ ha
        rw [List.map_append, ma, ih b hb, List.flatMap_cons]

theorem nodup_chipVertices {inp : Input} (wf : WellFormed inp) (xy : Chip) :
    (chipVertices inp xy).Nodup :=
  List.Nodup.sublist (List.Sublist.map _ List.filter_sublist) wf.placementsNodup

theorem nodup_allVertices {inp : Input} (wf : WellFormed inp) {chips : List Chip}
    (hnd : chips.Nodup) : (chips.flatMap (chipVertices inp)).Nodup := by
  apply nodup_flatMap_of (fun xy _ => nodup_chipVertices wf xy)
  apply List.Pairwise.imp _ hnd
  intro xy1 xy2 hne v hv w hw hvw
  subst hvw
  have h1 := (mem_chipVertices _ _ _).1 hv
  have h2 := (mem_chipVertices _ _ _).1 hw
  have := eq_of_key_eq wf.placementsNodup h1 h2 rfl
  injection this with _ h3
  exact hne h3

/-- **One range each.** No (vertex, resource) pair receives two ranges. -/
theorem unique_of_chipsOk {inp : Input} {out : List (Vertex × List Entry)} (wf : WellFormed inp)
    (ck : ChipsOk inp (chipOrder inp) out)
    (hk : out.map (·.1) = (chipOrder inp).flatMap (chipVertices inp)) :
    ((flat (strip out)).map fun t => (t.1, t.2.1)).Nodup := by
  have hkeys : (out.map (·.1)).Nodup := by rw [hk]; exact nodup_allVertices wf (nodup_dedup _)
  have : (flat (strip out)).map (fun t => (t.1, t.2.1)) =
      out.flatMap (fun o => o.2.map (fun e => (o.1, e.res))) := by
    rw [flat_eq, strip_eq, List.map_flatMap, List.flatMap_map]
    simp [List.map_map, Function.comp_def]
  rw [this]
  apply nodup_flatMap_of
  · intro o ho
    obtain ⟨xy, _, _, rs, hl, hkey⟩ := ck.bwd o ho
    have hres : o.2.map (·.res) = rs.map (·.1) := by
      have := congrArg (List.map (fun k : Vertex × Chip × Res × Int => k.2.2.1)) hkey
      simpa [List.map_map, Function.comp_def, Entry.key] using this
    have hnd : (o.2.map (·.res)).Nodup := by
      rw [hres]; exact wf.resNodup _ (mem_of_lookup hl)
    have : o.2.map (fun e => (o.1, e.res)) = (o.2.map (·.res)).map (fun r => (o.1, r)) := by
      simp [List.map_map, Function.comp_def]
    rw [this]
    rw [List.Nodup, List.pairwise_map]
    apply List.Pairwise.imp _ hnd
    intro a b hab h
    injection h with _ h
    exact hab h
  · rw [List.Nodup, List.pairwise_map] at hkeys
    apply List.Pairwise.imp _ hkeys
    intro o1 o2 hne y hy z hz hyz
    obtain ⟨e1, _, rfl⟩ := List.mem_map.1 hy
    obtain ⟨e2, _, h2⟩ := List.mem_map.1 hz
    rw [← hyz] at h2
    injection h2 with h2 _
    exact hne h2.symm

end Rig.C05
