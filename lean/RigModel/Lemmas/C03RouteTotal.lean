/-
C03 - `route_only_failure` for one net on ANY machine (fixed repair loop): the only errors of the model of the
loop body of `route()` are oracle errors (tape / draw / broken-link order not a recording of a real run) and
`MachineHasDisconnectedSubregion`, and the latter is impossible on a strongly connected machine.
-/
import RigModel.Model.C03
import RigModel.Lemmas.C03RepairTotal
import RigModel.Lemmas.C03CopyTotal
set_option linter.unusedSimpArgs false
set_option linter.unusedVariables false
namespace Rig.C03.L
open Rig.C03 Rig.Gen.C03Links

theorem rinv_reorder {f : Forest} {src : Chip} {order broken : List (Chip × Chip)}
    (hci : RInv f (src :: broken.map (·.2))) (hord : isOrderingOf order broken = true) :
    RInv f (src :: order.map (·.2)) ∧ ∀ pc, pc ∈ order → pc ∈ broken := by
  have hnd := hci.rootsNodup
  simp only [List.nodup_cons] at hnd
  obtain ⟨o1, o2⟩ := isOrdering_perm hnd.2 hord
  have hmem : ∀ x, x ∈ order.map (·.2) ↔ x ∈ broken.map (·.2) := by
    intro x
    simp only [List.mem_map]
    constructor
    · rintro ⟨e, he, rfl⟩; exact ⟨e, (o2 e).1 he, rfl⟩
    · rintro ⟨e, he, rfl⟩; exact ⟨e, (o2 e).2 he, rfl⟩
  refine ⟨⟨hci.wf, hci.closed, ?_, ?_, ?_⟩, fun pc h => (o2 pc).1 h⟩
  · simp only [List.nodup_cons]
    exact ⟨fun hm => hnd.1 ((hmem _).1 hm), o1⟩
  · intro r hr
    exact hci.roots r (by
      simp only [List.mem_cons] at hr ⊢
      rcases hr with hr | hr
      · exact Or.inl hr
      · exact Or.inr ((hmem _).1 hr))
  · intro x hx
    obtain ⟨r, hr, hb⟩ := hci.conn x hx
    refine ⟨r, ?_, hb⟩
    simp only [List.mem_cons] at hr ⊢
    rcases hr with hr | hr
    · exact Or.inl hr
    · exact Or.inr ((hmem _).2 hr)

/-- what the documentation of `route()` allows: the disconnected-machine error; plus the errors of the oracle
inputs of the model (a tape / order that is not a recording of a real run) -/
def Err.allowed (e : Err) : Prop := e = .tape ∨ e = .badDraw ∨ e = .badOracle ∨ e = .disconnected

theorem routeNet_only_failure (m : Machine) (src : Chip) (dests : List Chip) (radius : Nat) (t : Tape)
    (order : List (Chip × Chip)) (sinks : List Sink)
    (hs : chipOk m src = true) (hd : ∀ d, d ∈ dests → InRange m d)
    (hsk : ∀ s, s ∈ sinks → (s.chip = src ∨ s.chip ∈ dests) ∧ chipOk m s.chip = true) :
    ∀ e, routeNet m src dests radius t order sinks false = .error e →
      Err.allowed e ∧ (e = .disconnected → stronglyConnected m = false) := by
  have hsr : InRange m src := chipOk_inRange hs
  have hw : 1 ≤ m.w := by have := hsr.1; have := hsr.2.1; omega
  have hh : 1 ≤ m.h := by have := hsr.2.2.1; have := hsr.2.2.2; omega
  unfold routeNet
  simp only [bind, Except.bind]
  cases hner : nerNet src dests m.w m.h (hasWrap m) radius t with
  | error e0 =>
    simp only
    intro e h
    simp only [Except.error.injEq] at h
    subst h
    rcases nerNet_err hw hh hsr hd hner with h | h
    · subst h; exact ⟨Or.inl rfl, fun h => by cases h⟩
    · subst h; exact ⟨Or.inr (Or.inl rfl), fun h => by cases h⟩
  | ok ft =>
    obtain ⟨f0, t0⟩ := ft
    simp only
    obtain ⟨rank, hi, hall⟩ := nerNet_inv hw hh hsr hd hner
    have hkeys0 : ∀ s, s ∈ sinks → s.chip ∈ f0.keys := by
      intro s hs'
      rcases (hsk s hs').1 with h | h
      · rw [h]; exact hi.srcKey
      · exact hall _ h
    cases hdead : routeHasDeadLinks f0 m with
    | false =>
      simp only [Bool.false_eq_true, if_false, attachSinks_ok sinks hkeys0, pure, Except.pure]
      intro e h; simp at h
    | true =>
      simp only [if_true]
      have hclosed : ClosedF f0 := by
        rintro p k ⟨n, hn, _, hk⟩; exact hi.kidsKeys n k hn hk
      have hnp : NoParent f0 src := by
        intro p k he hk
        have h1 := rank_below hi.wf (hi.conn p (edge_key he))
        have h2 := rank_edge hi.wf he
        rw [hk] at h2
        omega
      obtain ⟨cs, hcs, hcov⟩ := copyAndDisconnect_total (m := m) hi.wf hclosed hi.srcKey hnp hs
      obtain ⟨hroot, hci⟩ := copyAndDisconnect_inv _ _ _ _ hcs
      simp only [hcs, hroot, pure, Except.pure]
      cases hord : isOrderingOf order cs.broken with
      | false =>
        simp only [Bool.not_false, if_true]
        intro e h
        simp only [Except.error.injEq] at h
        subst h
        exact ⟨Or.inr (Or.inr (Or.inl rfl)), fun h => by cases h⟩
      | true =>
        simp only [Bool.not_true, Bool.false_eq_true, if_false]
        obtain ⟨hi0, hsub⟩ := rinv_reorder hci hord
        have hlive := copyAndDisconnect_live _ _ _ _ hcs
        have hbr : BrokenAlive m cs := by
          unfold copyAndDisconnect at hcs
          exact copyLoop_broken _ _ _ _ (by intro pc hpc; simp at hpc) hcs
        have ho : ∀ pc, pc ∈ order → chipOk m pc.2 = true := fun pc hpc => hbr pc (hsub pc hpc)
        cases hrep : repairAll m (hasWrap m) false order cs.lookup [] with
        | error e1 =>
          simp only
          intro e h
          simp only [Except.error.injEq] at h
          subst h
          obtain ⟨h1, h2⟩ := repairAll_err src order cs.lookup [] e1 hi0 hlive ho hrep
          exact ⟨Or.inr (Or.inr (Or.inr h1)), fun _ => h2⟩
        | ok fp =>
          obtain ⟨f, paths⟩ := fp
          have hkeys : ∀ s, s ∈ sinks → s.chip ∈ f.keys := by
            intro s hs'
            exact repairAll_keys _ _ _ _ _ hrep _
              (hcov _ (hi.conn _ (hkeys0 s hs')) (hsk s hs').2)
          simp only [attachSinks_ok sinks hkeys]
          intro e h; simp at h

end Rig.C03.L
