/-
C03 - a_star raises nothing but the disconnected-machine error: the fuel `w * h + 1` of the model's loop is
never exhausted (every iteration expands a different in-range chip) and the reconstruction of the path over
the `visited` map never meets a missing key or a `None` predecessor.
-/
import RigModel.Model.C03
import RigModel.Lemmas.C03AStar
import RigModel.Lemmas.C03AStarComplete
import Mathlib.Data.List.Perm.Subperm
import Mathlib.Data.List.Nodup
set_option linter.unusedSimpArgs false
set_option linter.unusedVariables false
namespace Rig.C03.L
open Rig.C03 Rig.Gen.C03Links

/-! ### at most `w * h` chips -/

def allChips (w h : Nat) : List Chip :=
  (List.range w).flatMap fun (x : Nat) => (List.range h).map fun (y : Nat) => ((x : Int), (y : Int))

theorem allChips_length (w h : Nat) : (allChips w h).length = w * h := by
  simp [allChips, List.length_flatMap]

theorem mem_allChips {m : Machine} {c : Chip} (hc : InRange m c) : c ∈ allChips m.w m.h := by
  obtain ⟨h1, h2, h3, h4⟩ := hc
  simp only [allChips, List.mem_flatMap, List.mem_range, List.mem_map]
  refine ⟨c.1.toNat, by omega, c.2.toNat, by omega, ?_⟩
  ext <;> simp <;> omega

theorem inRange_card {m : Machine} (l : List Chip) (hn : l.Nodup) (hr : ∀ c, c ∈ l → InRange m c) :
    l.length ≤ m.w * m.h := by
  rw [← allChips_length]
  exact (List.Nodup.subperm hn (fun c hc => mem_allChips (hr c hc))).length_le

/-! ### structure of the visited map -/

/-- the visited map as the search builds it: the sink first (no predecessor), then fresh chips whose
predecessor is already visited -/
inductive VStruct (sink : Chip) : Visited → Prop
  | base : VStruct sink [(sink, none)]
  | cons {v : Visited} {n : Chip} {l : Nat} {p : Chip} : VStruct sink v → v.has p = true → v.has n = false →
      VStruct sink ((n, some (l, p)) :: v)

theorem look_cons (x : Chip × Option (Nat × Chip)) (v : Visited) (c : Chip) :
    Visited.look (x :: v) c = if x.1 == c then some x.2 else Visited.look v c := by
  simp only [Visited.look, List.find?]
  split <;> simp_all

theorem vstruct_sink {sink : Chip} {v : Visited} (hv : VStruct sink v) : v.has sink = true := by
  induction hv with
  | base => simp [Visited.has]
  | cons _ _ _ ih => rw [has_cons]; simp [ih]

theorem vstruct_look {sink : Chip} {v : Visited} (hv : VStruct sink v) {c : Chip} (hc : v.has c = true)
    (hne : c ≠ sink) : ∃ d q, v.look c = some (some (d, q)) ∧ v.has q = true := by
  induction hv with
  | base => simp [Visited.has] at hc; exact absurd hc.symm hne
  | @cons v n l p _ hp hn ih =>
    rw [look_cons]
    rw [has_cons] at hc
    by_cases hnc : n = c
    · subst hnc
      exact ⟨l, p, by simp, by rw [has_cons]; simp [hp]⟩
    · have h1 : (n == c) = false := by simpa using hnc
      simp only [h1, Bool.false_or] at hc
      obtain ⟨d, q, h2, h3⟩ := ih hc
      exact ⟨d, q, by simp [h1, h2], by rw [has_cons]; simp [h3]⟩

theorem vstruct_look_has {sink : Chip} {v : Visited} (hv : VStruct sink v) {c : Chip} {d : Nat} {q : Chip}
    (h : v.look c = some (some (d, q))) : v.has q = true ∧ v.has c = true := by
  induction hv with
  | base =>
    rw [look_cons] at h
    split at h <;> simp [Visited.look] at h
  | @cons v n l p _ hp hn ih =>
    rw [look_cons] at h
    by_cases hnc : n = c
    · subst hnc
      simp only [beq_self_eq_true, if_true, Option.some.injEq, Prod.mk.injEq] at h
      obtain ⟨_, rfl⟩ := h
      exact ⟨by rw [has_cons]; simp [hp], by rw [has_cons]; simp⟩
    · have h1 : (n == c) = false := by simpa using hnc
      simp only [h1, Bool.false_eq_true, if_false] at h
      obtain ⟨a, b⟩ := ih h
      exact ⟨by rw [has_cons]; simp [a], by rw [has_cons]; simp [b]⟩

/-- lookups of already visited chips are not changed by a new (fresh) entry -/
theorem reconstruct_cons {sink : Chip} {v : Visited} (hv : VStruct sink v) (x : Chip × Option (Nat × Chip))
    (hx : v.has x.1 = false) : ∀ (fuel : Nat) (c : Chip), v.has c = true →
    reconstruct (x :: v) sink fuel c = reconstruct v sink fuel c := by
  have hlook : ∀ c, v.has c = true → Visited.look (x :: v) c = Visited.look v c := by
    intro c hc
    rw [look_cons]
    have : (x.1 == c) = false := by
      cases hh : (x.1 == c) with
      | false => rfl
      | true => have : x.1 = c := by simpa using hh
                rw [this, hc] at hx; simp at hx
    simp [this]
  intro fuel
  induction fuel with
  | zero => intro c _; rfl
  | succ n ih =>
    intro c hc
    simp only [reconstruct, hlook c hc]
    cases hl : v.look c with
    | none => rfl
    | some o =>
      cases o with
      | none => rfl
      | some dp =>
        obtain ⟨d, prev⟩ := dp
        simp only
        have hprev := (vstruct_look_has hv hl).1
        rw [hlook prev hprev, ih prev hprev]

/-- the reconstruction loop terminates without error from every visited chip other than the sink -/
theorem reconstruct_total {sink : Chip} {v : Visited} (hv : VStruct sink v) :
    ∀ (c : Chip), v.has c = true → c ≠ sink → ∀ fuel, v.length ≤ fuel + 1 →
      ∃ r, reconstruct v sink fuel c = .ok r := by
  induction hv with
  | base => intro c hc hne; simp [Visited.has] at hc; exact absurd hc.symm hne
  | @cons v n l p hv' hp hn ih =>
    intro c hc hne fuel hf
    simp only [List.length_cons] at hf
    have hvlen : 1 ≤ v.length := by
      cases hv' <;> simp
    by_cases hnc : n = c
    · subst hnc
      obtain ⟨f, rfl⟩ : ∃ f, fuel = f + 1 := ⟨fuel - 1, by omega⟩
      simp only [reconstruct, look_cons, beq_self_eq_true, if_true]
      by_cases hps : p = sink
      · simp [hps, pure, Except.pure]
      · have h1 : (p == sink) = false := by simpa using hps
        have hnp : (n == p) = false := by
          cases hh : (n == p) with
          | false => rfl
          | true => have : n = p := by simpa using hh
                    rw [this, hp] at hn; simp at hn
        obtain ⟨d, q, hl, _⟩ := vstruct_look hv' hp hps
        obtain ⟨r, hr⟩ := ih p hp hps f (by omega)
        simp only [h1, Bool.false_eq_true, if_false, hnp, hl, reconstruct_cons hv' (n, some (l, p)) hn f p hp, hr,
          bind, Except.bind, pure, Except.pure]
        exact ⟨_, rfl⟩
    · rw [has_cons] at hc
      have h1 : (n == c) = false := by simpa using hnc
      simp only [h1, Bool.false_or] at hc
      rw [reconstruct_cons hv' (n, some (l, p)) hn fuel c hc]
      exact ih c hc hne fuel (by omega)


/-! ### the search loop never runs out of fuel -/

theorem vhas_iff (v : Visited) (c : Chip) : v.has c = true ↔ c ∈ v.map (·.1) := by
  simp only [Visited.has, List.any_eq_true, List.mem_map, beq_iff_eq]

structure SearchInv (m : Machine) (sink : Chip) (v : Visited) (hp : Heap) : Prop where
  vs : VStruct sink v
  nodup : (v.map (·.1)).Nodup
  inr : ∀ c, c ∈ v.map (·.1) → InRange m c
  heap : ∀ e, e ∈ hp → v.has e.2 = true

theorem expand_search {m : Machine} {sink : Chip} {heur : Chip → Int} {node : Chip} (st : Visited × Heap) (l : Nat)
    (hs : SearchInv m sink st.1 st.2) (hnode : st.1.has node = true) :
    SearchInv m sink (expand m heur node st l).1 (expand m heur node st l).2 ∧
    (expand m heur node st l).1.has node = true ∧
    (expand m heur node st l).1.length + st.2.length = st.1.length + (expand m heur node st l).2.length := by
  unfold expand
  dsimp only
  split
  · exact ⟨hs, hnode, rfl⟩
  · split
    · exact ⟨hs, hnode, rfl⟩
    · rename_i hk hv
      have hk' : linkOk m (step m node (opp l)) l = true := by simpa using hk
      have hv' : st.1.has (step m node (opp l)) = false := by simpa using hv
      refine ⟨⟨VStruct.cons hs.vs hnode hv', ?_, ?_, ?_⟩, by rw [has_cons]; simp [hnode], by simp; omega⟩
      · simp only [List.map_cons, List.nodup_cons]
        refine ⟨?_, hs.nodup⟩
        intro hmem
        rw [← vhas_iff, hv'] at hmem
        simp at hmem
      · intro c hc
        simp only [List.map_cons, List.mem_cons] at hc
        rcases hc with rfl | hc
        · exact chipOk_inRange (linkOk_chipOk hk')
        · exact hs.inr c hc
      · intro e he
        simp only [List.mem_cons] at he
        rw [has_cons]
        rcases he with rfl | he
        · simp
        · simp [hs.heap e he]

theorem foldl_expand_search {m : Machine} {sink : Chip} {heur : Chip → Int} {node : Chip} :
    ∀ (ls : List Nat) (st : Visited × Heap), SearchInv m sink st.1 st.2 → st.1.has node = true →
    SearchInv m sink (ls.foldl (expand m heur node) st).1 (ls.foldl (expand m heur node) st).2 ∧
    (ls.foldl (expand m heur node) st).1.length + st.2.length =
      st.1.length + (ls.foldl (expand m heur node) st).2.length := by
  intro ls
  induction ls with
  | nil => intro st hs _; exact ⟨hs, rfl⟩
  | cons l r ih =>
    intro st hs hnode
    simp only [List.foldl_cons]
    obtain ⟨a1, a2, a3⟩ := expand_search (heur := heur) st l hs hnode
    obtain ⟨b1, b2⟩ := ih _ a1 a2
    exact ⟨b1, by omega⟩

theorem aStarLoop_total {m : Machine} {sources : List Chip} {sink : Chip} {heur : Chip → Int} :
    ∀ (fuel : Nat) (v : Visited) (hp : Heap), SearchInv m sink v hp →
      m.w * m.h + hp.length ≤ fuel + v.length →
      ∃ sel v', aStarLoop m heur sources fuel v hp = .ok (sel, v') ∧ VStruct sink v' ∧
        ∀ s, sel = some s → v'.has s = true ∧ sources.contains s = true := by
  intro fuel
  induction fuel with
  | zero =>
    intro v hp hs hf
    have hcard := inRange_card (m := m) (v.map (·.1)) hs.nodup hs.inr
    simp only [List.length_map] at hcard
    have : hp = [] := List.eq_nil_of_length_eq_zero (by omega)
    subst this
    exact ⟨none, v, by simp [aStarLoop, pure, Except.pure], hs.vs, by simp⟩
  | succ fuel ih =>
    intro v hp hs hf
    simp only [aStarLoop]
    cases hpop : popMin hp with
    | none => exact ⟨none, v, by simp [pure, Except.pure], hs.vs, by simp⟩
    | some res =>
      obtain ⟨⟨d, node⟩, hp'⟩ := res
      obtain ⟨hmem, herase⟩ := popMin_erase hpop
      have hnode : v.has node = true := hs.heap _ hmem
      simp only
      by_cases hsrc : sources.contains node = true
      · rw [if_pos hsrc]
        refine ⟨some node, v, by simp [pure, Except.pure], hs.vs, ?_⟩
        intro s hs'
        simp only [Option.some.injEq] at hs'
        subst hs'
        exact ⟨hnode, hsrc⟩
      · rw [if_neg hsrc]
        have hs' : SearchInv m sink v hp' :=
          ⟨hs.vs, hs.nodup, hs.inr, fun e he => hs.heap e (by rw [herase] at he; exact List.mem_of_mem_erase he)⟩
        obtain ⟨f1, f2⟩ := foldl_expand_search (heur := heur) (node := node) linkOrder (v, hp') hs' hnode
        have hlen : hp'.length = hp.length - 1 := by rw [herase]; exact List.length_erase_of_mem hmem
        have hpos : 1 ≤ hp.length := List.length_pos_of_mem hmem
        simp only at f2
        exact ih _ _ f1 (by omega)

/-- **`a_star` raises nothing but the disconnected-machine error** (the sink not being one of the sources, as
in `avoid_dead_links`, where the sources are the chips outside the subtree of the sink). -/
theorem aStar_only_disconnected (m : Machine) (sink hsrc : Chip) (sources : List Chip) (wrap : Bool)
    (hsink : InRange m sink) (hns : sources.contains sink = false) (e : Err)
    (h : aStar sink hsrc sources m wrap = .error e) : e = .disconnected := by
  unfold aStar at h
  simp only [bind, Except.bind] at h
  have hinit : SearchInv m sink [(sink, none)] [(dist wrap m.w m.h sink hsrc, sink)] := by
    refine ⟨VStruct.base, by simp, ?_, ?_⟩
    · intro c hc; simp at hc; subst hc; exact hsink
    · intro e he; simp at he; subst he; simp [Visited.has]
  obtain ⟨sel, v, hloop, hvs, hsel⟩ := aStarLoop_total (m := m) (sources := sources)
    (heur := fun n => dist wrap m.w m.h n hsrc) (m.w * m.h + 1) _ _ hinit (by simp)
  rw [hloop] at h
  simp only at h
  cases sel with
  | none => simp only [Except.error.injEq] at h; exact h.symm
  | some s =>
    exfalso
    obtain ⟨h1, h2⟩ := hsel s rfl
    have hne : s ≠ sink := by
      intro heq; rw [heq, hns] at h2; simp at h2
    obtain ⟨d, q, hl, _⟩ := vstruct_look hvs h1 hne
    obtain ⟨r, hr⟩ := reconstruct_total hvs s h1 hne v.length (by omega)
    simp only [hl, hr, pure, Except.pure] at h
    simp at h

end Rig.C03.L
