/-
C04 - `_get_insertion_index` on a generality-sorted table: the result splits the table by
generality, is within the table and is monotone in the generality.
-/
import RigModel.Lemmas.C04Apply
set_option linter.unusedSimpArgs false
set_option linter.unusedVariables false

namespace Rig.C04

theorem sortedGen_getElem {T : List Entry} (h : SortedGen T) {i j : Nat} {a b : Entry}
    (hij : i ≤ j) (ha : T[i]? = some a) (hb : T[j]? = some b) : a.gen ≤ b.gen := by
  rcases Nat.lt_or_eq_of_le hij with hlt | rfl
  · simp only [SortedGen] at h
    rw [List.pairwise_iff_getElem] at h
    obtain ⟨hi, rfl⟩ := List.getElem?_eq_some_iff.mp ha
    obtain ⟨hj, rfl⟩ := List.getElem?_eq_some_iff.mp hb
    exact h i j hi hj hlt
  · rw [ha] at hb; cases hb; exact Nat.le_refl _

theorem scanFwd_spec (g : Nat) (l : List Entry) (pos : Nat) :
    pos ≤ scanFwd g l pos ∧ scanFwd g l pos ≤ pos + l.length ∧
    (∀ j d, j < scanFwd g l pos - pos → l[j]? = some d → d.gen + 1 ≤ g) ∧
    (∀ d, l[scanFwd g l pos - pos]? = some d → g < d.gen + 1) := by
  induction l generalizing pos with
  | nil => simp [scanFwd]
  | cons e r ih =>
    simp only [scanFwd]
    by_cases h : e.gen + 1 ≤ g
    · rw [if_pos h]
      obtain ⟨h1, h2, h3, h4⟩ := ih (pos + 1)
      refine ⟨by omega, by simp only [List.length_cons]; omega, ?_, ?_⟩
      · intro j d hj hd
        cases j with
        | zero => simp at hd; subst hd; exact h
        | succ j => exact h3 j d (by omega) (by simpa using hd)
      · intro d hd
        have e1 : scanFwd g r (pos + 1) - pos = (scanFwd g r (pos + 1) - (pos + 1)) + 1 := by omega
        rw [e1] at hd
        exact h4 d (by simpa using hd)
    · rw [if_neg h]
      refine ⟨Nat.le_refl _, by omega, by intro j d hj; omega, ?_⟩
      intro d hd
      simp at hd; subst hd; omega

theorem bsLoop_le (T : List Entry) (g N : Nat) (fuel bottom top pos : Nat)
    (h1 : bottom ≤ N) (h2 : top ≤ N) (h3 : pos ≤ N) : bsLoop T g fuel bottom top pos ≤ N := by
  induction fuel generalizing bottom top pos with
  | zero => simpa [bsLoop] using h3
  | succ fuel ih =>
    simp only [bsLoop]
    split
    · exact h3
    · split
      · split
        · exact ih _ _ _ h3 h2 (by omega)
        · exact ih _ _ _ h1 h3 (by omega)
      · exact h3

/-- what the binary search guarantees about the position it hands to the linear scan -/
theorem bsLoop_spec (T : List Entry) (g : Nat) (fuel bottom top pos : Nat)
    (hB : bottom = 0 ∨ ∃ d, T[bottom]? = some d ∧ d.gen + 1 < g)
    (hpos : pos = bottom + (top - bottom) / 2) (hfuel : top - bottom ≤ fuel)
    (htop : top ≤ T.length) (hlt : pos < T.length) :
    let r := bsLoop T g fuel bottom top pos
    (∃ d, T[r]? = some d ∧ d.gen + 1 ≤ g) ∨ r = 0 := by
  induction fuel generalizing bottom top pos with
  | zero =>
    simp only [bsLoop]
    have : pos = bottom := by omega
    subst this
    rcases hB with h | ⟨d, h1, h2⟩
    · right; exact h
    · left; exact ⟨d, h1, by omega⟩
  | succ fuel ih =>
    simp only [bsLoop]
    split
    · rename_i hn
      have : T.length ≤ pos := by simpa using hn
      omega
    · rename_i e he
      split
      · rename_i hc
        split
        · rename_i hlt
          exact ih pos top _ (Or.inr ⟨e, he, hlt⟩) rfl (by omega) htop (by omega)
        · exact ih bottom pos _ hB rfl (by omega) (by omega) (by omega)
      · rename_i hc
        by_cases h1 : e.gen + 1 = g
        · left; exact ⟨e, he, by omega⟩
        · have : pos = bottom := by omega
          subst this
          rcases hB with h | ⟨d, h1, h2⟩
          · right; exact h
          · left; exact ⟨d, h1, by omega⟩

theorem insertionIndex_le (T : List Entry) (g : Nat) : insertionIndex T g ≤ T.length := by
  simp only [insertionIndex]
  split
  · exact Nat.zero_le _
  · have hp := bsLoop_le T g T.length T.length 0 T.length (T.length / 2) (Nat.zero_le _) (Nat.le_refl _)
      (by omega)
    have := (scanFwd_spec g (T.drop (bsLoop T g T.length 0 T.length (T.length / 2)))
      (bsLoop T g T.length 0 T.length (T.length / 2))).2.1
    simp only [List.length_drop] at this
    omega

/-- **insertionIndex_spec.** On a generality-sorted table the insertion index is the first
position whose generality is at least `g`. -/
theorem insertionIndex_spec (T : List Entry) (g : Nat) (hs : SortedGen T) :
    (∀ e ∈ T.take (insertionIndex T g), e.gen < g) ∧
    (∀ e ∈ T.drop (insertionIndex T g), g ≤ e.gen) := by
  simp only [insertionIndex]
  split
  · rename_i he
    have : T = [] := by simpa using he
    subst this; simp
  · generalize hp : bsLoop T g T.length 0 T.length (T.length / 2) = pos
    have hple : pos ≤ T.length := by
      rw [← hp]
      exact bsLoop_le T g T.length T.length 0 T.length (T.length / 2) (Nat.zero_le _) (Nat.le_refl _) (by omega)
    have hne : 0 < T.length := by
      rename_i he; cases T with
      | nil => simp at he
      | cons => simp
    have hbs := bsLoop_spec T g T.length 0 T.length (T.length / 2) (Or.inl rfl) (by omega) (by omega)
      (Nat.le_refl _) (by omega)
    simp only [hp] at hbs
    obtain ⟨h1, h2, h3, h4⟩ := scanFwd_spec g (T.drop pos) pos
    generalize scanFwd g (T.drop pos) pos = r at *
    constructor
    · intro e he
      obtain ⟨j, hj⟩ := List.mem_iff_getElem?.mp he
      rw [List.getElem?_take] at hj
      split at hj
      · rename_i hjr
        by_cases hjp : pos ≤ j
        · have := h3 (j - pos) e (by omega) (by rw [List.getElem?_drop, show pos + (j - pos) = j by omega]; exact hj)
          omega
        · -- j < pos
          by_cases hpr : pos < r
          · have hpos : pos < T.length := by simp only [List.length_drop] at h2; omega
            have hd := h3 0 T[pos] (by omega) (by rw [List.getElem?_drop]; simp [hpos])
            have := sortedGen_getElem hs (show j ≤ pos by omega) hj (List.getElem?_eq_getElem hpos)
            omega
          · have hrp : r = pos := by omega
            subst hrp
            rcases hbs with ⟨d, hd1, hd2⟩ | h0
            · have := h4 d (by rw [Nat.sub_self, List.getElem?_drop]; simpa using hd1)
              omega
            · omega
      · cases hj
    · intro e he
      obtain ⟨j, hj⟩ := List.mem_iff_getElem?.mp he
      rw [List.getElem?_drop] at hj
      have hrl : r < T.length := by have := (List.getElem?_eq_some_iff.mp hj).1; omega
      have h5 := h4 T[r] (by rw [List.getElem?_drop, show pos + (r - pos) = r by omega]; simp [hrl])
      have := sortedGen_getElem hs (show r ≤ r + j by omega) (List.getElem?_eq_getElem hrl) hj
      omega

/-- the insertion index is monotone in the generality (sorted tables) -/
theorem insertionIndex_mono (T : List Entry) (g g' : Nat) (hs : SortedGen T) (h : g' ≤ g) :
    insertionIndex T g' ≤ insertionIndex T g := by
  by_cases hc : insertionIndex T g' ≤ insertionIndex T g
  · exact hc
  · exfalso
    have hl := insertionIndex_le T g'
    have hr : insertionIndex T g < T.length := by omega
    have h1 := (insertionIndex_spec T g hs).2 T[insertionIndex T g]
      (by rw [List.mem_iff_getElem?]; exact ⟨0, by rw [List.getElem?_drop]; simp [hr]⟩)
    have h2 := (insertionIndex_spec T g' hs).1 T[insertionIndex T g]
      (by rw [List.mem_iff_getElem?]; exact ⟨insertionIndex T g, by rw [List.getElem?_take, if_pos (by omega)]; simp [hr]⟩)
    omega

end Rig.C04
