/-
C08 helper lemmas: `assign_fields` never moves a field that has a start position (also when it raises half-way).
-/
import RigModel.Lemmas.C08Spare
set_option linter.unusedSimpArgs false
set_option linter.unusedVariables false

namespace Rig.C08

theorem startsKeptB_refl : ∀ (es : List Entry), startsKeptB es es = true := by
  intro es
  induction es with
  | nil => rfl
  | cons e es ih =>
    simp only [startsKeptB, beq_self_eq_true, Bool.true_and, ih, Bool.and_true]
    cases e.field.startAt <;> simp

theorem startsKeptB_trans : ∀ {as bs cs : List Entry}, startsKeptB as bs = true → startsKeptB bs cs = true →
    startsKeptB as cs = true := by
  intro as
  induction as with
  | nil =>
    intro bs cs h1 h2
    cases bs with
    | nil => exact h2
    | cons b bs => simp [startsKeptB] at h1
  | cons a as ih =>
    intro bs cs h1 h2
    cases bs with
    | nil => simp [startsKeptB] at h1
    | cons b bs =>
      cases cs with
      | nil => simp [startsKeptB] at h2
      | cons c cs =>
        simp only [startsKeptB, Bool.and_eq_true, beq_iff_eq] at h1 h2 ⊢
        obtain ⟨⟨⟨p1, i1⟩, s1⟩, t1⟩ := h1
        obtain ⟨⟨⟨p2, i2⟩, s2⟩, t2⟩ := h2
        refine ⟨⟨⟨p1.trans p2, i1.trans i2⟩, ?_⟩, ih t1 t2⟩
        cases ha : a.field.startAt with
        | none => rfl
        | some s =>
          simp only [ha, beq_iff_eq] at s1
          simp only [s1, beq_iff_eq] at s2
          simpa using s2

/-- an update of the first matching field that keeps that field's start position (if it has one) -/
theorem startsKeptB_modifyFirst {pm : Entry → Bool} {f : Field → Field} : ∀ {es : List Entry} {e : Entry},
    es.find? pm = some e → (∀ s, e.field.startAt = some s → (f e.field).startAt = some s) →
    startsKeptB es (modifyFirst pm f es) = true := by
  intro es
  induction es with
  | nil => intro e h; simp at h
  | cons x xs ih =>
    intro e h hf
    rw [modifyFirst_cons]
    cases hm : pm x with
    | true =>
      simp only [List.find?_cons, hm, Option.some.injEq] at h
      subst h
      simp only [if_true, startsKeptB, upd_path, upd_ident, beq_self_eq_true, Bool.true_and, startsKeptB_refl,
        Bool.and_true, upd_field]
      cases hs : x.field.startAt with
      | none => rfl
      | some s => simp [hf s hs]
    | false =>
      simp only [List.find?_cons, hm] at h
      simp only [Bool.false_eq_true, if_false, startsKeptB, beq_self_eq_true, Bool.true_and, ih h hf, Bool.and_true]
      cases x.field.startAt <;> simp

/-- `_assign_field` writes back the start position the field already had -/
theorem assignField_keeps {st st' : State} {a a' : Nat} {i : Ident} {fv : Reqs}
    (h : assignField st a i fv = .ok (st', a')) : startsKeptB st.entries st'.entries = true := by
  unfold assignField at h
  cases hg : getField st.entries i fv with
  | none => simp [hg] at h
  | some e =>
    simp only [hg] at h
    cases hst : e.field.startAt with
    | none =>
      simp only [hst] at h
      cases hff : firstFit st.length e.field.chosenLen a with
      | none => simp [hff] at h
      | some b =>
        simp only [hff] at h
        split at h
        · simp only [Except.ok.injEq, Prod.mk.injEq] at h
          rw [← h.1]
          exact startsKeptB_modifyFirst hg (fun s hs => by rw [hst] at hs; cases hs)
        · simp at h
    | some s =>
      simp only [hst] at h
      split at h
      · simp at h
      · split at h
        · simp only [Except.ok.injEq, Prod.mk.injEq] at h
          rw [← h.1]
          exact startsKeptB_modifyFirst hg (fun s' hs => by rw [hst] at hs; cases hs; rfl)
        · simp at h

theorem assignLoopP_keeps (ap : Bool) (fv : Reqs) : ∀ (ids : List Ident) (st : State) (a : Nat),
    startsKeptB st.entries (assignLoopP ap fv ids st a).1.entries = true := by
  intro ids
  induction ids with
  | nil => intro st a; exact startsKeptB_refl _
  | cons i is ih =>
    intro st a
    unfold assignLoopP
    cases hg : getField st.entries i fv with
    | none => exact startsKeptB_refl _
    | some e =>
      simp only
      split
      · exact ih st a
      · split
        · cases hasg : assignField st a i fv with
          | error err => exact startsKeptB_refl _
          | ok r =>
            obtain ⟨st', a'⟩ := r
            exact startsKeptB_trans (assignField_keeps hasg) (ih st' a')
        · exact ih st a

theorem assignRunP_keeps : ∀ (items : List (Bool × Path)) (st : State),
    startsKeptB st.entries (assignRunP items st).1.entries = true := by
  intro items
  induction items with
  | nil => intro st; exact startsKeptB_refl _
  | cons it rest ih =>
    intro st
    obtain ⟨ap, p⟩ := it
    rw [assignRunP_cons]
    have hl := assignLoopP_keeps ap p.flatten (nodeIdents st.entries p) st (potentialMask st.entries p.flatten)
    generalize assignLoopP ap p.flatten (nodeIdents st.entries p) st (potentialMask st.entries p.flatten) = r at hl ⊢
    obtain ⟨st', oe⟩ := r
    cases oe with
    | some e => exact hl
    | none => exact startsKeptB_trans hl (ih st')

end Rig.C08
