/-
C13 - helper lemmas about the view model (core Lean only).
-/
import RigModel.Model.C13
set_option linter.unusedSimpArgs false
set_option linter.unusedVariables false
namespace Rig.C13

theorem available_nonneg (v : View) : 0 ≤ v.available := by
  unfold View.available; split <;> omega

theorem available_pos (v : View) (h : 0 < v.available) :
    0 ≤ v.offset ∧ v.available = v.stop - v.address := by
  unfold View.available at *; split at h <;> omega

theorem readCount_le (v : View) (n : Int) : (readCount v n).2 ≤ v.available := by
  unfold readCount; simp only
  split <;> split <;> simp only <;> omega

theorem pyPrefix_length_le (d : List Nat) (n : Int) (h : 0 ≤ n) : ((pyPrefix d n).length : Int) ≤ n := by
  unfold pyPrefix; simp only [h, if_true, List.length_take]; omega

theorem writeData_le (v : View) (d : List Nat) : ((writeData v d).2.length : Int) ≤ v.available := by
  unfold writeData; simp only; split
  · exact pyPrefix_length_le _ _ (available_nonneg v)
  · simp; omega

theorem doRead_access (w : World) (i : Nat) (v : View) (n : Int) (a : Access)
    (h : (doRead w i v n).2.access = some a) :
    Confined w.x w.y v a ∧ ∀ addr x y, a ≠ .free addr x y := by
  unfold doRead at h
  have hle := readCount_le v n
  generalize readCount v n = rc at h hle
  obtain ⟨wn, k⟩ := rc
  simp only at h hle
  split at h
  · simp [fail] at h
  · split at h
    · simp at h
    · simp only [Option.some.injEq] at h
      subst h
      have hp := available_pos v (by omega)
      unfold Confined View.address at *
      refine ⟨⟨by omega, by omega, by omega, rfl, rfl, rfl⟩, by intro _ _ _ e; cases e⟩

theorem doWrite_access (w : World) (i : Nat) (v : View) (d : List Nat) (a : Access)
    (h : (doWrite w i v d).2.access = some a) :
    Confined w.x w.y v a ∧ ∀ addr x y, a ≠ .free addr x y := by
  unfold doWrite at h
  have hle := writeData_le v d
  generalize writeData v d = rc at h hle
  obtain ⟨wn, d'⟩ := rc
  simp only at h hle
  split at h
  · simp [fail] at h
  · split at h
    · simp at h
    · simp only [Option.some.injEq] at h
      subst h
      have hpos : 0 < d'.length := by omega
      have hp := available_pos v (by omega)
      unfold Confined View.address at *
      refine ⟨⟨by omega, by omega, by omega, rfl, rfl, rfl⟩, by intro _ _ _ e; cases e⟩

theorem doReadFail_access (w : World) (i : Nat) (v : View) (n : Int) (a : Access)
    (h : (doReadFail w i v n).2.access = some a) :
    Confined w.x w.y v a ∧ ∀ addr x y, a ≠ .free addr x y := by
  unfold doReadFail at h
  have hle := readCount_le v n
  generalize readCount v n = rc at h hle
  obtain ⟨wn, k⟩ := rc
  simp only at h hle
  split at h
  · simp [fail] at h
  · split at h
    · simp at h
    · simp only [Option.some.injEq] at h
      subst h
      have hp := available_pos v (by omega)
      unfold Confined View.address at *
      refine ⟨⟨by omega, by omega, by omega, rfl, rfl, rfl⟩, by intro _ _ _ e; cases e⟩

theorem doWriteFail_access (w : World) (i : Nat) (v : View) (d : List Nat) (j : Nat) (a : Access)
    (h : (doWriteFail w i v d j).2.access = some a) :
    Confined w.x w.y v a ∧ ∀ addr x y, a ≠ .free addr x y := by
  unfold doWriteFail at h
  have hle := writeData_le v d
  generalize writeData v d = rc at h hle
  obtain ⟨wn, d'⟩ := rc
  simp only at h hle
  split at h
  · simp [fail] at h
  · split at h
    · simp at h
    · simp only [Option.some.injEq] at h
      subst h
      have hpos : 0 < d'.length := by omega
      have hp := available_pos v (by omega)
      unfold Confined View.address at *
      refine ⟨⟨by omega, by omega, by omega, rfl, rfl, rfl⟩, by intro _ _ _ e; cases e⟩

/-- how one call changes the list of views -/
inductive ViewsStep (w : World) (op : Op) (w' : World) : Prop where
  | same (h : w'.views = w.views)
  | upd (v v' : View) (hv : w.views[op.target]? = some v) (hs : v'.start = v.start) (he : v'.stop = v.stop)
      (hc : v.closed = true → v'.closed = true) (h : w'.views = w.views.set op.target v')
  | app (v : View) (a b : Option Int) (hv : w.views[op.target]? = some v)
      (h : w'.views = w.views ++ [mkView (sliceBounds v a b).1 (sliceBounds v a b).2])

theorem step_views (w : World) (op : Op) : ViewsStep w op (step w op).1 := by
  unfold step
  split
  · exact .same rfl
  · rename_i v hv
    cases op with
    | read i n =>
      simp only [stepView, doRead, fail]
      generalize readCount v n = rc
      obtain ⟨wn, k⟩ := rc
      simp only
      split
      · exact .same rfl
      · split
        · exact .same rfl
        · exact .upd v { v with offset := v.offset + k } hv rfl rfl (fun h => h) rfl
    | write i d =>
      simp only [stepView, doWrite, fail]
      generalize writeData v d = rc
      obtain ⟨wn, k⟩ := rc
      simp only
      split
      · exact .same rfl
      · split
        · exact .same rfl
        · exact .upd v { v with offset := v.offset + k.length } hv rfl rfl (fun h => h) rfl
    | readFail i n =>
      simp only [stepView, doReadFail, fail]
      generalize readCount v n = rc
      obtain ⟨wn, k⟩ := rc
      simp only
      repeat' split
      all_goals exact .same rfl
    | writeFail i d j =>
      simp only [stepView, doWriteFail, fail]
      generalize writeData v d = rc
      obtain ⟨wn, k⟩ := rc
      simp only
      repeat' split
      all_goals exact .same rfl
    | seek i n wh =>
      simp only [stepView, doSeek, fail, done]
      repeat' split
      all_goals first | exact .same rfl | exact .upd v { v with offset := n } hv rfl rfl (fun h => h) rfl | exact .upd v { v with offset := v.offset + n } hv rfl rfl (fun h => h) rfl | exact .upd v { v with offset := (v.stop - v.start) - n } hv rfl rfl (fun h => h) rfl
    | slice i a b s =>
      simp only [stepView, doSlice, doSliceOrig, fail]
      split
      · exact .same rfl
      · split
        · exact .app v a b hv rfl
        · exact .same rfl
    | close i =>
      simp only [stepView, doClose, fail, done]
      repeat' split
      all_goals first | exact .same rfl | exact .upd v { v with closed := true } hv rfl rfl (fun _ => rfl) rfl
    | exitBlock i r =>
      simp only [stepView, doClose, fail, done]
      repeat' split
      all_goals first | exact .same rfl | exact .upd v { v with closed := true } hv rfl rfl (fun _ => rfl) rfl
    | enter i => exact .same rfl
    | free i =>
      simp only [stepView, doFree, fail]
      repeat' split
      all_goals exact .same rfl
    | freeFail i =>
      simp only [stepView, doFreeFail, fail]
      repeat' split
      all_goals exact .same rfl
    | index i => simp only [stepView, fail]; split <;> exact .same rfl
    | len i => exact .same rfl
    | tell i => simp only [stepView, fail, done]; split <;> exact .same rfl
    | address i => simp only [stepView, fail, done]; split <;> exact .same rfl
    | flush i => simp only [stepView, fail, done]; split <;> exact .same rfl

theorem step_xy (w : World) (op : Op) : (step w op).1.x = w.x ∧ (step w op).1.y = w.y := by
  unfold step
  split
  · exact ⟨rfl, rfl⟩
  · rename_i v hv
    cases op with
    | read i n =>
      simp only [stepView, doRead, fail]
      generalize readCount v n = rc
      obtain ⟨wn, k⟩ := rc
      simp only
      repeat' split
      all_goals exact ⟨rfl, rfl⟩
    | write i d =>
      simp only [stepView, doWrite, fail]
      generalize writeData v d = rc
      obtain ⟨wn, k⟩ := rc
      simp only
      repeat' split
      all_goals exact ⟨rfl, rfl⟩
    | readFail i n =>
      simp only [stepView, doReadFail, fail]
      generalize readCount v n = rc
      obtain ⟨wn, k⟩ := rc
      simp only
      repeat' split
      all_goals exact ⟨rfl, rfl⟩
    | writeFail i d j =>
      simp only [stepView, doWriteFail, fail]
      generalize writeData v d = rc
      obtain ⟨wn, k⟩ := rc
      simp only
      repeat' split
      all_goals exact ⟨rfl, rfl⟩
    | seek i n wh =>
      simp only [stepView, doSeek, fail, done]
      repeat' split
      all_goals exact ⟨rfl, rfl⟩
    | slice i a b s =>
      simp only [stepView, doSlice, doSliceOrig, fail]
      repeat' split
      all_goals exact ⟨rfl, rfl⟩
    | close i =>
      simp only [stepView, doClose, fail, done]
      repeat' split
      all_goals exact ⟨rfl, rfl⟩
    | exitBlock i r =>
      simp only [stepView, doClose, fail, done]
      repeat' split
      all_goals exact ⟨rfl, rfl⟩
    | enter i => exact ⟨rfl, rfl⟩
    | free i =>
      simp only [stepView, doFree, fail]
      repeat' split
      all_goals exact ⟨rfl, rfl⟩
    | freeFail i =>
      simp only [stepView, doFreeFail, fail]
      repeat' split
      all_goals exact ⟨rfl, rfl⟩
    | index i => simp only [stepView, fail]; split <;> exact ⟨rfl, rfl⟩
    | len i => exact ⟨rfl, rfl⟩
    | tell i => simp only [stepView, fail, done]; split <;> exact ⟨rfl, rfl⟩
    | address i => simp only [stepView, fail, done]; split <;> exact ⟨rfl, rfl⟩
    | flush i => simp only [stepView, fail, done]; split <;> exact ⟨rfl, rfl⟩

theorem step_freed (w : World) (op : Op) (h : w.freed = true) : (step w op).1.freed = true := by
  unfold step
  split
  · exact h
  · rename_i v hv
    have hd : dead w v = true := by simp [dead, h]
    cases op with
    | read i n => simp [stepView, doRead, fail, hd, h]
    | write i d => simp [stepView, doWrite, fail, hd, h]
    | readFail i n => simp [stepView, doReadFail, fail, hd, h]
    | writeFail i d j => simp [stepView, doWriteFail, fail, hd, h]
    | seek i n wh => simp [stepView, doSeek, fail, hd, h]
    | slice i a b s =>
      simp only [stepView, doSlice, doSliceOrig, fail]
      repeat' split
      all_goals exact h
    | close i =>
      simp only [stepView, doClose, fail, done, hd]
      repeat' split
      all_goals exact h
    | exitBlock i r =>
      simp only [stepView, doClose, fail, done, hd]
      repeat' split
      all_goals exact h
    | enter i => exact h
    | free i =>
      simp only [stepView, doFree, fail, h]
      repeat' split
      all_goals first | exact h | rfl
    | freeFail i =>
      simp only [stepView, doFreeFail, fail, h]
      repeat' split
      all_goals first | exact h | rfl
    | index i => simp only [stepView, fail]; split <;> exact h
    | len i => exact h
    | tell i => simp [stepView, fail, hd, h]
    | address i => simp [stepView, fail, hd, h]
    | flush i => simp [stepView, fail, hd, h]

theorem readMem_length (m : Mem) (a : Int) (n : Nat) : (readMem m a n).length = n := by
  simp [readMem]

theorem readMem_getElem? (m : Mem) (a : Int) (n i : Nat) :
    (readMem m a n)[i]? = if i < n then some (m (a + (i : Int))) else none := by
  unfold readMem
  by_cases h : i < n
  · simp [h, List.getElem?_map, List.getElem?_range h]
  · simp [h, List.getElem?_map]

theorem readMem_drop_take (m : Mem) (a : Int) (n p k : Nat) (h : p + k ≤ n) :
    ((readMem m a n).drop p).take k = readMem m (a + (p : Int)) k := by
  apply List.ext_getElem?
  intro i
  rw [List.getElem?_take, List.getElem?_drop, readMem_getElem?, readMem_getElem?]
  by_cases hi : i < k
  · have : p + i < n := by omega
    simp only [hi, this, if_true]
    congr 2
    omega
  · simp [hi]

theorem writeMem_outside (m : Mem) (a : Int) (d : List Nat) (x : Int)
    (h : x < a ∨ a + (d.length : Int) ≤ x) : writeMem m a d x = m x := by
  unfold writeMem
  split
  · have : d[(x - a).toNat]? = none := by
      apply List.getElem?_eq_none; omega
    rw [this]
  · rfl

theorem writeMem_inside (m : Mem) (a : Int) (d : List Nat) (i : Nat) (h : i < d.length) :
    writeMem m a d (a + (i : Int)) = d[i] := by
  unfold writeMem
  have h1 : a ≤ a + (i : Int) := by omega
  have h2 : (a + (i : Int) - a).toNat = i := by omega
  simp only [h1, if_true, h2, List.getElem?_eq_getElem h]

/-- the bytes last written are the bytes read back -/
theorem read_after_write (m : Mem) (a : Int) (d : List Nat) :
    readMem (writeMem m a d) a d.length = d := by
  apply List.ext_getElem?
  intro i
  rw [readMem_getElem?]
  by_cases hi : i < d.length
  · simp only [hi, if_true, writeMem_inside m a d i hi, List.getElem?_eq_getElem hi]
  · simp only [hi, if_false]
    exact (List.getElem?_eq_none (by omega)).symm

/-- writing `d` at offset `p` of a range of `n` bytes splices `d` into the bytes of the range -/
theorem readMem_writeMem (m : Mem) (a : Int) (n p : Nat) (d : List Nat) (h : p + d.length ≤ n) :
    readMem (writeMem m (a + (p : Int)) d) a n =
      (readMem m a n).take p ++ d ++ (readMem m a n).drop (p + d.length) := by
  apply List.ext_getElem?
  intro i
  rw [readMem_getElem?]
  by_cases hi : i < n
  · simp only [hi, if_true]
    by_cases h1 : i < p
    · rw [List.append_assoc, List.getElem?_append_left (by simp [readMem_length]; omega)]
      rw [List.getElem?_take, if_pos h1, readMem_getElem?, if_pos hi]
      rw [writeMem_outside]; left; omega
    · by_cases h2 : i < p + d.length
      · have hlen : ((readMem m a n).take p).length = p := by simp [readMem_length]; omega
        rw [List.append_assoc, List.getElem?_append_right (by omega), hlen]
        rw [List.getElem?_append_left (by omega)]
        have : a + (i : Int) = a + (p : Int) + ((i - p : Nat) : Int) := by omega
        rw [this, writeMem_inside m _ d (i - p) (by omega), List.getElem?_eq_getElem (by omega)]
      · have hlen : ((readMem m a n).take p ++ d).length = p + d.length := by
          simp [readMem_length]; omega
        rw [List.getElem?_append_right (by omega), hlen, List.getElem?_drop, readMem_getElem?]
        have : p + d.length + (i - (p + d.length)) = i := by omega
        rw [this, if_pos hi, writeMem_outside]; right; omega
  · simp only [hi, if_false]
    symm
    apply List.getElem?_eq_none
    simp [readMem_length]; omega

theorem set_self {α : Type} (l : List α) (i : Nat) (v : α) (h : l[i]? = some v) : l.set i v = l := by
  apply List.ext_getElem?
  intro j
  by_cases hj : i = j
  · subst hj
    have hlt : i < l.length := by
      rcases Nat.lt_or_ge i l.length with h' | h'
      · exact h'
      · rw [List.getElem?_eq_none h'] at h; cases h
    rw [List.getElem?_set]; simp only [hlt, if_true, h]
  · rw [List.getElem?_set_ne hj]

theorem absFile_len (m : Mem) (v : View) (h : v.start ≤ v.stop) : (absFile m v).len = v.len := by
  unfold absFile File.len View.len; simp [readMem_length]; omega

theorem room_eq (m : Mem) (v : View) (h : v.start ≤ v.stop) :
    ((absFile m v).room : Int) = v.available := by
  have hl := absFile_len m v h
  unfold File.room
  rw [hl]
  unfold View.available View.address View.len absFile
  simp only
  split <;> split <;> omega

theorem room_facts (m : Mem) (v : View) (h : v.start ≤ v.stop) :
    ((absFile m v).room : Int) = v.available ∧
    (0 < (absFile m v).room → 0 ≤ v.offset ∧ v.offset + ((absFile m v).room : Int) = v.len) := by
  have hr := room_eq m v h
  refine ⟨hr, ?_⟩
  intro hp
  have := available_pos v (by omega)
  unfold View.address View.len at *
  omega

theorem readCount_spec (v : View) (n : Int) (room : Nat) (hr : (room : Int) = v.available) :
    readCount v n =
      (decide (min (if n < 0 then room else n.toNat) room < (if n < 0 then room else n.toNat)),
       ((min (if n < 0 then room else n.toNat) room : Nat) : Int)) := by
  unfold readCount
  simp only [← hr]
  by_cases hn : n < 0
  · simp [hn]
  · simp only [hn, if_false]
    by_cases hgt : n > (room : Int)
    · have h1 : min n.toNat room = room := by omega
      have h2 : room < n.toNat := by omega
      simp [hgt, h1, h2]
    · have h1 : min n.toNat room = n.toNat := by omega
      have h2 : ((n.toNat : Nat) : Int) = n := by omega
      simp [hgt, h1, h2]

theorem read_refines (w : World) (i : Nat) (v : View) (n : Int) (hv : w.views[i]? = some v)
    (hlive : dead w v = false) (hwf : v.start ≤ v.stop) :
    ∃ s, specIO v (absFile w.mem v) (.read i n) = some s ∧ Refines w i v s (doRead w i v n) := by
  obtain ⟨hr, hrp⟩ := room_facts w.mem v hwf
  simp only [specIO, specRead, File.read]
  refine ⟨_, rfl, ?_⟩
  unfold doRead
  rw [readCount_spec v n _ hr]
  simp only [hlive, Bool.false_eq_true, if_false]
  generalize hroom : (absFile w.mem v).room = room at *
  generalize hwant : (if n < 0 then room else n.toNat) = want
  have hpos : (absFile w.mem v).pos = v.offset := rfl
  have hdata : (absFile w.mem v).data = readMem w.mem v.start v.len.toNat := rfl
  generalize hk : min want room = k
  have hkr : k ≤ room := by omega
  by_cases hz : k = 0
  · subst hz
    simp only [Int.natCast_zero, Int.le_refl, if_true, Int.add_zero, List.take_zero]
    refine ⟨?_, ?_, rfl, fun _ _ => rfl, rfl, rfl, rfl⟩
    · simp [specAccess]
    · simp only [hpos]; exact (set_self _ _ _ hv).symm
  · have hp := hrp (by omega)
    have hk0 : ¬ ((k : Int) ≤ 0) := by omega
    simp only [hk0, if_false, hpos, hdata]
    have hdt : ((readMem w.mem v.start v.len.toNat).drop v.offset.toNat).take k
        = readMem w.mem v.address k := by
      rw [readMem_drop_take _ _ _ _ _ (by unfold View.len at *; omega)]
      congr 1; unfold View.address; omega
    refine ⟨?_, rfl, rfl, fun _ _ => rfl, rfl, rfl, rfl⟩
    simp only [hdt, specAccess, readMem_length, hz, if_false, Int.toNat_natCast, View.address]
    simp [Int.add_comm]

theorem writeData_spec (v : View) (d : List Nat) (room : Nat) (hr : (room : Int) = v.available) :
    writeData v d = (decide (min d.length room < d.length), d.take (min d.length room)) := by
  unfold writeData
  simp only [← hr]
  by_cases hgt : (d.length : Int) > (room : Int)
  · have h1 : min d.length room = room := by omega
    have h2 : room < d.length := by omega
    simp [hgt, h1, h2, pyPrefix]
  · have h1 : min d.length room = d.length := by omega
    simp [hgt, h1]

theorem write_refines (w : World) (i : Nat) (v : View) (d : List Nat) (hv : w.views[i]? = some v)
    (hlive : dead w v = false) (hwf : v.start ≤ v.stop) :
    ∃ s, specIO v (absFile w.mem v) (.write i d) = some s ∧ Refines w i v s (doWrite w i v d) := by
  obtain ⟨hr, hrp⟩ := room_facts w.mem v hwf
  simp only [specIO, specWrite, File.write]
  refine ⟨_, rfl, ?_⟩
  unfold doWrite
  rw [writeData_spec v d _ hr]
  simp only [hlive, Bool.false_eq_true, if_false]
  generalize hroom : (absFile w.mem v).room = room at *
  have hpos : (absFile w.mem v).pos = v.offset := rfl
  have hdata : (absFile w.mem v).data = readMem w.mem v.start v.len.toNat := rfl
  generalize hk : min d.length room = k
  have hkr : k ≤ room := by omega
  have hkd : k ≤ d.length := by omega
  have hlen : (d.take k).length = k := by simp; omega
  by_cases hz : k = 0
  · subst hz
    simp only [List.take_zero, List.length_nil, if_true, Int.natCast_zero, Int.add_zero,
      List.append_nil, Nat.add_zero, List.take_append_drop]
    refine ⟨?_, ?_, rfl, fun _ _ => rfl, rfl, rfl, rfl⟩
    · simp [specAccess]
    · simp only [hpos]; exact (set_self _ _ _ hv).symm
  · have hp := hrp (by omega)
    have hk0 : ¬ ((d.take k).length = 0) := by omega
    simp only [hk0, hz, if_false, hpos, hdata, hlen]
    have haddr : v.address = v.start + (v.offset.toNat : Int) := by unfold View.address; omega
    refine ⟨?_, rfl, ?_, ?_, rfl, rfl, rfl⟩
    · simp only [specAccess, hz, if_false, if_true, View.address]
      simp [Int.add_comm]
    · simp only [absFile, View.len, setView]
      have := readMem_writeMem w.mem v.start (v.stop - v.start).toNat v.offset.toNat (d.take k)
        (by rw [hlen]; unfold View.len at *; omega)
      rw [hlen] at this
      rw [haddr]; exact this
    · intro a ha
      simp only [setView]
      apply writeMem_outside
      rw [hlen]
      unfold View.address View.len at *
      omega

theorem seek_refines (w : World) (i : Nat) (v : View) (n wh : Int) (hv : w.views[i]? = some v)
    (hlive : dead w v = false) (hwf : v.start ≤ v.stop) (hk : wh = 2 → n = 0) :
    ∃ s, specIO v (absFile w.mem v) (.seek i n wh) = some s ∧ Refines w i v s (doSeek w i v n wh) := by
  have hl := absFile_len w.mem v hwf
  have hpos : (absFile w.mem v).pos = v.offset := rfl
  unfold doSeek
  simp only [specIO, File.seek, hlive, Bool.false_eq_true, if_false]
  by_cases h0 : wh = 0
  · simp only [h0, if_true]
    exact ⟨_, rfl, by simp [specAccess, done], rfl, rfl, fun _ _ => rfl, rfl, rfl, rfl⟩
  · by_cases h1 : wh = 1
    · simp only [h0, h1, if_true, if_false]
      exact ⟨_, rfl, by simp [specAccess, done], rfl, rfl, fun _ _ => rfl, rfl, rfl, rfl⟩
    · by_cases h2 : wh = 2
      · have hn := hk h2
        subst hn
        simp only [h0, h1, h2, if_true, if_false]
        refine ⟨_, rfl, by simp [specAccess, done], ?_, rfl, fun _ _ => rfl, rfl, rfl, rfl⟩
        simp only [done, setView, hl, View.len]
        simp
      · simp only [h0, h1, h2, if_false]
        refine ⟨_, rfl, by simp [specAccess, fail], ?_, rfl, fun _ _ => rfl, rfl, rfl, rfl⟩
        exact (set_self _ _ _ hv).symm

theorem Confined_mono (x y : Nat) (lo hi : Int) (v : View) (a : Access) (hw : Within lo hi v)
    (hf : ∀ addr x' y', a = .free addr x' y' → v.start = lo)
    (h : Confined x y v a) : Confined x y ⟨lo, hi, 0, false⟩ a := by
  unfold Within at hw
  cases a with
  | read ad n x' y' p => unfold Confined at *; simp only at *; omega
  | write ad d x' y' p => unfold Confined at *; simp only at *; omega
  | free ad x' y' =>
    have := hf ad x' y' rfl
    unfold Confined at *; simp only at *; omega

theorem step_closedAt (w : World) (op : Op) (i : Nat) (h : ClosedAt w i) : ClosedAt (step w op).1 i := by
  obtain ⟨u, hu, huc⟩ := h
  have hlt : i < w.views.length := by
    rcases Nat.lt_or_ge i w.views.length with h | h
    · exact h
    · rw [List.getElem?_eq_none h] at hu; cases hu
  cases step_views w op with
  | same hs => exact ⟨u, by rw [hs]; exact hu, huc⟩
  | upd v v' hv hs he hc hset =>
    by_cases ht : op.target = i
    · rw [ht] at hv hset
      rw [hu] at hv; cases hv
      exact ⟨v', by rw [hset]; simp [List.getElem?_set, hlt], hc huc⟩
    · exact ⟨u, by rw [hset, List.getElem?_set_ne ht]; exact hu, huc⟩
  | app v a b hv happ =>
    exact ⟨u, by rw [happ, List.getElem?_append_left hlt]; exact hu, huc⟩

theorem run_closedAt (ops : List Op) : ∀ (w : World) (i : Nat), ClosedAt w i → ClosedAt (run w ops).2 i := by
  induction ops with
  | nil => intro w i h; exact h
  | cons op ops ih => intro w i h; simp only [run]; exact ih _ i (step_closedAt w op i h)

theorem run_freed (ops : List Op) : ∀ (w : World), w.freed = true → (run w ops).2.freed = true := by
  induction ops with
  | nil => intro w h; exact h
  | cons op ops ih => intro w h; simp only [run]; exact ih _ (step_freed w op h)

/-- a file operation or a slicing on a dead view raises OSError, changes nothing and touches no memory -/
theorem step_dead (w : World) (op : Op) (v : View) (hv : w.views[op.target]? = some v)
    (hd : dead w v = true) (hio : op.mustFail = true) :
    step w op = (w, ⟨.err .osError, false, none⟩) := by
  unfold step
  rw [hv]
  cases op <;> simp_all [stepView, doRead, doWrite, doReadFail, doWriteFail, doSeek, doSlice, fail, Op.isIO, Op.mustFail]

theorem step_freed_noaccess (w : World) (op : Op) (h : w.freed = true) : (step w op).2.access = none := by
  unfold step
  split
  · rfl
  · rename_i v hv
    have hd : dead w v = true := by simp [dead, h]
    cases op with
    | slice i a b s => simp [stepView, doSlice, fail, hd]
    | close i =>
      simp only [stepView, doClose, fail, done, hd]
      repeat' split
      all_goals first | rfl | simp_all
    | exitBlock i r =>
      simp only [stepView, doClose, fail, done, hd]
      repeat' split
      all_goals first | rfl | simp_all
    | free i =>
      simp only [stepView, doFree, fail, h]
      repeat' split
      all_goals first | rfl | simp_all
    | freeFail i =>
      simp only [stepView, doFreeFail, fail, h]
      repeat' split
      all_goals first | rfl | simp_all
    | _ => simp [stepView, doRead, doWrite, doReadFail, doWriteFail, doSeek, fail, done, hd]

theorem step_confined_lem (w : World) (op : Op) (a : Access) (h : (step w op).2.access = some a) :
    ∃ v, w.views[op.target]? = some v ∧ Confined w.x w.y v a ∧
      (∀ addr x y, a = .free addr x y → op.target = 0) := by
  unfold step at h
  split at h
  · simp at h
  · rename_i v hv
    refine ⟨v, hv, ?_⟩
    cases op with
    | read i n =>
      have := doRead_access w i v n a h
      exact ⟨this.1, fun ad x y e => absurd e (this.2 ad x y)⟩
    | write i d =>
      have := doWrite_access w i v d a h
      exact ⟨this.1, fun ad x y e => absurd e (this.2 ad x y)⟩
    | readFail i n =>
      have := doReadFail_access w i v n a h
      exact ⟨this.1, fun ad x y e => absurd e (this.2 ad x y)⟩
    | writeFail i d j =>
      have := doWriteFail_access w i v d j a h
      exact ⟨this.1, fun ad x y e => absurd e (this.2 ad x y)⟩
    | free i =>
      simp only [stepView, doFree] at h
      split at h
      · simp [fail] at h
      · split at h
        · simp [fail] at h
        · simp only [Option.some.injEq] at h
          subst h
          rename_i h0 _
          exact ⟨⟨rfl, rfl, rfl⟩, fun _ _ _ _ => by simpa [Op.target] using h0⟩
    | freeFail i =>
      simp only [stepView, doFreeFail] at h
      split at h
      · simp [fail] at h
      · split at h
        · simp [fail] at h
        · simp only [Option.some.injEq] at h
          subst h
          rename_i h0 _
          exact ⟨⟨rfl, rfl, rfl⟩, fun _ _ _ _ => by simpa [Op.target] using h0⟩
    | seek i n wh =>
      simp only [stepView, doSeek, fail, done] at h
      repeat' split at h
      all_goals simp at h
    | slice i a b s =>
      simp only [stepView, doSlice, doSliceOrig, fail, done] at h
      repeat' split at h
      all_goals simp at h
    | close i =>
      simp only [stepView, doClose, fail, done] at h
      repeat' split at h
      all_goals simp at h
    | exitBlock i r =>
      simp only [stepView, doClose, fail, done] at h
      repeat' split at h
      all_goals simp at h
    | enter i => simp [stepView, done] at h
    | index i => simp only [stepView, fail] at h; split at h <;> simp at h
    | len i => simp [stepView, done] at h
    | tell i => simp only [stepView, fail, done] at h; split at h <;> simp at h
    | address i => simp only [stepView, fail, done] at h; split at h <;> simp at h
    | flush i => simp only [stepView, fail, done] at h; split at h <;> simp at h

theorem slice_within_parent_lem (v : View) (h : v.start ≤ v.stop) (a b : Option Int) :
    Within v.start v.stop (mkView (sliceBounds v a b).1 (sliceBounds v a b).2) := by
  unfold sliceBounds mkView Within
  cases a <;> cases b <;> simp only <;> (repeat' split) <;> omega

theorem step_WF_lem (lo hi : Int) (w : World) (op : Op) (h : WF lo hi w) : WF lo hi (step w op).1 := by
  obtain ⟨⟨r, hr, hrs, hre⟩, hall⟩ := h
  cases step_views w op with
  | same hs => rw [WF, hs]; exact ⟨⟨r, hr, hrs, hre⟩, hall⟩
  | upd v v' hv hs he hc hset =>
    have hvm : v ∈ w.views := List.mem_of_getElem? hv
    have hvw := hall v hvm
    rw [WF, hset]
    constructor
    · by_cases h0 : op.target = 0
      · rw [h0] at hv ⊢
        rw [hr] at hv
        cases hv
        refine ⟨v', ?_, by omega, by omega⟩
        have : 0 < w.views.length := by
          cases hw : w.views with
          | nil => rw [hw] at hr; simp at hr
          | cons => simp
        simp [List.getElem?_set, this]
      · refine ⟨r, ?_, hrs, hre⟩
        rw [List.getElem?_set_ne h0]; exact hr
    · intro u hu
      rcases List.mem_or_eq_of_mem_set hu with hu | hu
      · exact hall u hu
      · subst hu; unfold Within at *; omega
  | app v a b hv happ =>
    have hvm : v ∈ w.views := List.mem_of_getElem? hv
    have hvw := hall v hvm
    rw [WF, happ]
    constructor
    · refine ⟨r, ?_, hrs, hre⟩
      have : 0 < w.views.length := by
        cases hw : w.views with
        | nil => rw [hw] at hr; simp at hr
        | cons => simp
      rw [List.getElem?_append_left this]; exact hr
    · intro u hu
      rcases List.mem_append.mp hu with hu | hu
      · exact hall u hu
      · simp only [List.mem_singleton] at hu
        subst hu
        have := slice_within_parent_lem v hvw.2.1 a b
        unfold Within at *; omega

theorem slice_bounds_exact (v : View) (h : v.start ≤ v.stop) (a b : Option Int) :
    mkView (sliceBounds v a b).1 (sliceBounds v a b).2 = specSlice v a b := by
  unfold sliceBounds specSlice sliceRange pyIndices mkView View.len
  cases a <;> cases b <;> simp only <;> (repeat' split) <;> simp only [View.mk.injEq, and_true, true_and] <;> omega

theorem readFail_refines (w : World) (i : Nat) (v : View) (n : Int) (hv : w.views[i]? = some v)
    (hlive : dead w v = false) (hwf : v.start ≤ v.stop) :
    ∃ s, specIO v (absFile w.mem v) (.readFail i n) = some s ∧ Refines w i v s (doReadFail w i v n) := by
  obtain ⟨hr, hrp⟩ := room_facts w.mem v hwf
  simp only [specIO, specRead, File.read, File.readFail]
  unfold doReadFail
  rw [readCount_spec v n _ hr]
  simp only [hlive, Bool.false_eq_true, if_false]
  have hpos : (absFile w.mem v).pos = v.offset := rfl
  obtain ⟨k, hk⟩ : ∃ k, min (if n < 0 then (absFile w.mem v).room else n.toNat) (absFile w.mem v).room = k :=
    ⟨_, rfl⟩
  simp only [hk]
  by_cases hz : k = 0
  · subst hz
    simp only [if_true, Int.natCast_zero, Int.le_refl, Int.add_zero, List.take_zero]
    refine ⟨_, rfl, ?_, ?_, rfl, fun _ _ => rfl, rfl, rfl, rfl⟩
    · simp [specAccess]
    · simp only [hpos]; exact (set_self _ _ _ hv).symm
  · have hk0 : ¬ ((k : Int) ≤ 0) := by omega
    simp only [hz, hk0, if_false]
    refine ⟨_, rfl, ?_, (set_self _ _ _ hv).symm, rfl, fun _ _ => rfl, rfl, rfl, rfl⟩
    simp only [specAccess, hz, if_false, Int.toNat_natCast, View.address]
    simp [Int.add_comm]

theorem writeFail_refines (w : World) (i : Nat) (v : View) (d : List Nat) (j : Nat)
    (hv : w.views[i]? = some v) (hlive : dead w v = false) (hwf : v.start ≤ v.stop) :
    ∃ s, specIO v (absFile w.mem v) (.writeFail i d j) = some s ∧
      Refines w i v s (doWriteFail w i v d j) := by
  obtain ⟨hr, hrp⟩ := room_facts w.mem v hwf
  simp only [specIO, specWrite, File.write, File.writeFail]
  unfold doWriteFail
  rw [writeData_spec v d _ hr]
  simp only [hlive, Bool.false_eq_true, if_false]
  have hpos : (absFile w.mem v).pos = v.offset := rfl
  have hdata : (absFile w.mem v).data = readMem w.mem v.start v.len.toNat := rfl
  obtain ⟨k, hk⟩ : ∃ k, min d.length (absFile w.mem v).room = k := ⟨_, rfl⟩
  simp only [hk]
  have hkr : k ≤ (absFile w.mem v).room := by omega
  have hkd : k ≤ d.length := by omega
  have hlen : (d.take k).length = k := by simp; omega
  by_cases hz : k = 0
  · subst hz
    simp only [List.take_zero, List.length_nil, if_true, Int.natCast_zero, Int.add_zero,
      List.append_nil, Nat.add_zero, List.take_append_drop]
    refine ⟨_, rfl, ?_, ?_, rfl, fun _ _ => rfl, rfl, rfl, rfl⟩
    · simp [specAccess]
    · simp only [hpos]; exact (set_self _ _ _ hv).symm
  · have hp := hrp (by omega)
    have hk0 : ¬ ((d.take k).length = 0) := by omega
    simp only [hk0, hz, if_false, hpos, hdata]
    have haddr : v.address = v.start + (v.offset.toNat : Int) := by unfold View.address; omega
    have hlj : ((d.take k).take j).length ≤ k := by simp; omega
    refine ⟨_, rfl, ?_, (set_self _ _ _ hv).symm, ?_, ?_, rfl, rfl, rfl⟩
    · simp only [specAccess, hz, if_false, if_true, View.address]
      simp [Int.add_comm]
    · simp only [absFile, View.len]
      have := readMem_writeMem w.mem v.start (v.stop - v.start).toNat v.offset.toNat ((d.take k).take j)
        (by unfold View.len at *; omega)
      rw [haddr]; exact this
    · intro a ha
      apply writeMem_outside
      unfold View.address View.len at *
      omega

theorem specIO_post (v : View) (f : File) (op : Op) (s : SpecOut) (h : specIO v f op = some s) :
    s.post.start = v.start ∧ s.post.stop = v.stop ∧ s.post.closed = v.closed := by
  cases op with
  | read i n => simp only [specIO, specRead, Option.some.injEq] at h; subst h; exact ⟨rfl, rfl, rfl⟩
  | write i d => simp only [specIO, specWrite, Option.some.injEq] at h; subst h; exact ⟨rfl, rfl, rfl⟩
  | readFail i n =>
    simp only [specIO, specRead] at h
    split at h <;> (simp only [Option.some.injEq] at h; subst h; exact ⟨rfl, rfl, rfl⟩)
  | writeFail i d j =>
    simp only [specIO, specWrite] at h
    split at h <;> (simp only [Option.some.injEq] at h; subst h; exact ⟨rfl, rfl, rfl⟩)
  | seek i n wh =>
    simp only [specIO] at h
    split at h <;> (simp only [Option.some.injEq] at h; subst h; exact ⟨rfl, rfl, rfl⟩)
  | tell i => simp only [specIO, Option.some.injEq] at h; subst h; exact ⟨rfl, rfl, rfl⟩
  | address i => simp only [specIO, Option.some.injEq] at h; subst h; exact ⟨rfl, rfl, rfl⟩
  | flush i => simp only [specIO, Option.some.injEq] at h; subst h; exact ⟨rfl, rfl, rfl⟩
  | _ => simp [specIO] at h

end Rig.C13
