/-
C03 - from a well-formed forest (chip ↦ children association list: one entry per chip, one parent per
node, no cycle) to the routing tree `toTree` unfolds: the unfolding succeeds, visits every chip below the
root exactly once, and carries every leaf of every visited chip.  Core Lean only.
-/
import RigModel.Model.C03
import RigModel.Lemmas.C03Repair
set_option linter.unusedSimpArgs false
set_option linter.unusedVariables false
namespace Rig.C03.L
open Rig.C03 Rig.Gen.C03Links

/-- `k = (direction, child chip)` is a child entry of the node of chip `p` -/
def Edge (f : Forest) (p : Chip) (k : Nat × Chip) : Prop := ∃ n, n ∈ f ∧ n.1 = p ∧ k ∈ n.2

/-- `x` is the chip `a` or a descendant of it -/
inductive Below (f : Forest) (a : Chip) : Chip → Prop
  | refl : Below f a a
  | step {p : Chip} {k : Nat × Chip} : Below f a p → Edge f p k → Below f a k.2

/-- well-formed forest: one entry per chip, children of a node pairwise distinct, one parent per node,
and a rank that strictly decreases along every edge (no cycle) -/
structure WF (f : Forest) (rank : Chip → Nat) : Prop where
  keys : f.keys.Nodup
  kidsNodup : ∀ n, n ∈ f → (n.2.map (·.2)).Nodup
  oneParent : ∀ n n' k k', n ∈ f → n' ∈ f → k ∈ n.2 → k' ∈ n'.2 → k.2 = k'.2 → n.1 = n'.1
  rank : ∀ n k, n ∈ f → k ∈ n.2 → rank k.2 < rank n.1

theorem kids_eq (f : Forest) (c : Chip) : f.kids c = [] ∨ ∃ n, n ∈ f ∧ n.1 = c ∧ f.kids c = n.2 := by
  unfold Forest.kids
  split
  · rename_i e he
    exact Or.inr ⟨e, List.mem_of_find?_eq_some he, by simpa using List.find?_some he, rfl⟩
  · exact Or.inl rfl

theorem kids_of_mem : ∀ (f : Forest) (n : Chip × List (Nat × Chip)), f.keys.Nodup → n ∈ f →
    f.kids n.1 = n.2 := by
  intro f
  induction f with
  | nil => intro n _ h; simp at h
  | cons e r ih =>
    intro n hnd hn
    simp only [Forest.keys, List.map_cons, List.nodup_cons, List.mem_map, not_exists, not_and] at hnd
    simp only [List.mem_cons] at hn
    rcases hn with rfl | hn
    · simp [Forest.kids, List.find?]
    · have hne : ¬ e.1 = n.1 := fun h => hnd.1 n hn h.symm
      have h1 : (e.1 == n.1) = false := by simpa using hne
      have := ih n hnd.2 hn
      simp only [Forest.kids, List.find?, h1] at this ⊢
      exact this

theorem edge_kids {f : Forest} (hk : f.keys.Nodup) {p : Chip} {k : Nat × Chip} (h : Edge f p k) :
    k ∈ f.kids p := by
  obtain ⟨n, hn, rfl, hk'⟩ := h
  rw [kids_of_mem f n hk hn]; exact hk'

theorem kids_edge {f : Forest} {p : Chip} {k : Nat × Chip} (h : k ∈ f.kids p) : Edge f p k := kids_mem h

theorem below_trans {f : Forest} {a b c : Chip} (h1 : Below f a b) (h2 : Below f b c) : Below f a c := by
  induction h2 with
  | refl => exact h1
  | step _ he ih => exact Below.step ih he

theorem below_tail {f : Forest} {a x : Chip} (h : Below f a x) :
    a = x ∨ ∃ p k, Below f a p ∧ Edge f p k ∧ k.2 = x := by
  cases h with
  | refl => exact Or.inl rfl
  | step hb he => exact Or.inr ⟨_, _, hb, he, rfl⟩

theorem below_head {f : Forest} {a x : Chip} (h : Below f a x) :
    a = x ∨ ∃ k, Edge f a k ∧ Below f k.2 x := by
  induction h with
  | refl => exact Or.inl rfl
  | step hb he ih =>
    rcases ih with rfl | ⟨k0, hk0, hb0⟩
    · exact Or.inr ⟨_, he, Below.refl⟩
    · exact Or.inr ⟨k0, hk0, Below.step hb0 he⟩

theorem rank_below {f : Forest} {rank : Chip → Nat} (hw : WF f rank) {a x : Chip} (h : Below f a x) :
    rank x ≤ rank a := by
  induction h with
  | refl => exact Nat.le_refl _
  | step _ he ih =>
    obtain ⟨n, hn, rfl, hk⟩ := he
    have := hw.rank n _ hn hk
    omega

theorem rank_edge {f : Forest} {rank : Chip → Nat} (hw : WF f rank) {p : Chip} {k : Nat × Chip}
    (he : Edge f p k) : rank k.2 < rank p := by
  obtain ⟨n, hn, rfl, hk⟩ := he
  exact hw.rank n _ hn hk

theorem parent_unique {f : Forest} {rank : Chip → Nat} (hw : WF f rank) {p p' : Chip} {k k' : Nat × Chip}
    (h1 : Edge f p k) (h2 : Edge f p' k') (he : k.2 = k'.2) : p = p' := by
  obtain ⟨n, hn, rfl, hk⟩ := h1
  obtain ⟨n', hn', rfl, hk'⟩ := h2
  exact hw.oneParent n n' k k' hn hn' hk hk' he

/-- the subtrees below two different children of one node are disjoint -/
theorem siblings_disjoint {f : Forest} {rank : Chip → Nat} (hw : WF f rank) {c : Chip} {ka kb : Nat × Chip}
    (ha : Edge f c ka) (hb : Edge f c kb) (hne : ka.2 ≠ kb.2) {x : Chip}
    (h2 : Below f kb.2 x) : Below f ka.2 x → False := by
  induction h2 with
  | refl =>
    intro h1
    rcases below_tail h1 with h | ⟨p, k, hp, hk, hkx⟩
    · exact hne h
    · have : p = c := parent_unique hw hk hb hkx
      subst this
      have r1 := rank_below hw hp
      have r2 := rank_edge hw ha
      omega
  | step hbp he ih =>
    intro h1
    rename_i p' k
    rcases below_tail h1 with h | ⟨p, k'', hp, hk, hkx⟩
    · have : p' = c := parent_unique hw he ha h.symm
      subst this
      have r1 := rank_below hw hbp
      have r2 := rank_edge hw hb
      omega
    · have : p = p' := parent_unique hw hk he hkx
      subst this
      exact ih hp

theorem mem_chipsL {subs : List (Nat × Tree)} {x : Chip} :
    x ∈ chipsL subs ↔ ∃ s, s ∈ subs ∧ x ∈ s.2.chips := by
  induction subs with
  | nil => simp [chipsL]
  | cons s r ih =>
    obtain ⟨d, t⟩ := s
    simp only [chipsL, List.mem_append, ih, List.mem_cons]
    constructor
    · rintro (h | ⟨s, hs, hx⟩)
      · exact ⟨(d, t), Or.inl rfl, h⟩
      · exact ⟨s, Or.inr hs, hx⟩
    · rintro ⟨s, rfl | hs, hx⟩
      · exact Or.inl hx
      · exact Or.inr ⟨s, hs, hx⟩

/-- what the unfolding of one node delivers -/
structure Unfolds (f : Forest) (leaves : List Leaf) (c : Chip) (t : Tree) : Prop where
  chip : t.chip = c
  nodup : t.chips.Nodup
  below : ∀ x, x ∈ t.chips → Below f c x
  cover : ∀ x, Below f c x → x ∈ t.chips
  leavesAll : ∀ lf, lf ∈ leaves → lf.1 ∈ t.chips → lf ∈ t.leafList

theorem unfold_kids {f : Forest} {rank : Chip → Nat} (hw : WF f rank) (leaves : List Leaf) (n : Nat)
    (ih : ∀ c, rank c < n → ∃ t, toTree f leaves n c = some t ∧ Unfolds f leaves c t) (c : Chip) :
    ∀ (ks : List (Nat × Chip)), (∀ k, k ∈ ks → Edge f c k) → (ks.map (·.2)).Nodup →
      (∀ k, k ∈ ks → rank k.2 < n) →
      ∃ subs, ks.mapM (fun e => (toTree f leaves n e.2).map fun t => (e.1, t)) = some subs ∧
        (chipsL subs).Nodup ∧ (∀ x, x ∈ chipsL subs ↔ ∃ k, k ∈ ks ∧ Below f k.2 x) ∧
        (∀ lf, lf ∈ leaves → lf.1 ∈ chipsL subs → lf ∈ leafL subs) := by
  intro ks
  induction ks with
  | nil =>
    intro _ _ _
    exact ⟨[], rfl, by simp [chipsL], by simp [chipsL], by simp [chipsL]⟩
  | cons k ks ihk =>
    intro hedge hnd hrank
    simp only [List.map_cons, List.nodup_cons] at hnd
    obtain ⟨t, ht, hu⟩ := ih k.2 (hrank k (by simp))
    obtain ⟨subs, hs, s1, s2, s3⟩ := ihk (fun k' h' => hedge k' (by simp [h'])) hnd.2
      (fun k' h' => hrank k' (by simp [h']))
    refine ⟨(k.1, t) :: subs, ?_, ?_, ?_, ?_⟩
    · simp only [List.mapM_cons, ht, hs, Option.map_some, bind, Option.bind, pure]
    · simp only [chipsL]
      rw [List.nodup_append]
      refine ⟨hu.nodup, s1, ?_⟩
      intro a ha b hb hab
      subst hab
      obtain ⟨k', hk', hbk'⟩ := (s2 a).1 hb
      have hne : k'.2 ≠ k.2 := by
        intro h
        exact hnd.1 (by rw [← h]; exact List.mem_map_of_mem hk')
      exact siblings_disjoint hw (hedge k' (by simp [hk'])) (hedge k (by simp)) hne (hu.below a ha) hbk'
    · intro x
      simp only [chipsL, List.mem_append, s2, List.mem_cons]
      constructor
      · rintro (h | ⟨k', hk', hb⟩)
        · exact ⟨k, Or.inl rfl, hu.below x h⟩
        · exact ⟨k', Or.inr hk', hb⟩
      · rintro ⟨k', rfl | hk', hb⟩
        · exact Or.inl (hu.cover x hb)
        · exact Or.inr ⟨k', hk', hb⟩
    · intro lf hlf hx
      simp only [chipsL, List.mem_append] at hx
      simp only [leafL, List.mem_append]
      rcases hx with hx | hx
      · exact Or.inl (hu.leavesAll lf hlf hx)
      · exact Or.inr (s3 lf hlf hx)

/-- **Forest → tree.**  A well-formed forest unfolds (with fuel above the rank of the start chip) to a tree
whose chips are exactly the chips below the start chip, each exactly once, carrying all their leaves. -/
theorem toTree_unfolds {f : Forest} {rank : Chip → Nat} (hw : WF f rank) (leaves : List Leaf) :
    ∀ (fuel : Nat) (c : Chip), rank c < fuel → ∃ t, toTree f leaves fuel c = some t ∧ Unfolds f leaves c t := by
  intro fuel
  induction fuel with
  | zero => intro c h; omega
  | succ n ih =>
    intro c hc
    have hks : ∀ k, k ∈ f.kids c → Edge f c k := fun k hk => kids_edge hk
    have hnd : ((f.kids c).map (·.2)).Nodup := by
      rcases kids_eq f c with h | ⟨e, he, _, h⟩
      · rw [h]; simp
      · rw [h]; exact hw.kidsNodup e he
    have hr : ∀ k, k ∈ f.kids c → rank k.2 < n := by
      intro k hk
      have := rank_edge hw (hks k hk)
      omega
    obtain ⟨subs, hs, s1, s2, s3⟩ := unfold_kids hw leaves n ih c (f.kids c) hks hnd hr
    refine ⟨.node c subs ((leaves.filter fun lf => lf.1 == c).map fun lf => lf.2),
      by simp only [toTree, hs, bind, Option.bind, pure], ?_⟩
    refine ⟨rfl, ?_, ?_, ?_, ?_⟩
    · simp only [Tree.chips, List.nodup_cons]
      refine ⟨?_, s1⟩
      intro hmem
      obtain ⟨k, hk, hb⟩ := (s2 c).1 hmem
      have r1 := rank_below hw hb
      have r2 := rank_edge hw (hks k hk)
      omega
    · intro x hx
      simp only [Tree.chips, List.mem_cons] at hx
      rcases hx with rfl | hx
      · exact Below.refl
      · obtain ⟨k, hk, hb⟩ := (s2 x).1 hx
        exact below_trans (Below.step Below.refl (hks k hk)) hb
    · intro x hx
      simp only [Tree.chips, List.mem_cons]
      rcases below_head hx with rfl | ⟨k, hk, hb⟩
      · exact Or.inl rfl
      · exact Or.inr ((s2 x).2 ⟨k, edge_kids hw.keys hk, hb⟩)
    · intro lf hlf hx
      simp only [Tree.chips, List.mem_cons] at hx
      simp only [Tree.leafList, List.mem_append, List.mem_map, List.mem_filter]
      rcases hx with hx | hx
      · exact Or.inl ⟨lf.2, ⟨lf, ⟨hlf, by simp [hx]⟩, rfl⟩, by rw [← hx]⟩
      · exact Or.inr (s3 lf hlf hx)

end Rig.C03.L
