/-
C02 - helper lemmas: association lists, resource arithmetic, machine access.
-/
import RigModel.Model.C02
set_option linter.unusedSimpArgs false
set_option linter.unusedVariables false

namespace Rig.C02

/-! ### association lists -/
section assoc
variable {α β : Type} [DecidableEq α]

theorem aget_aset (l : List (α × β)) (a b : α) (x : β) :
    aget (aset l a x) b = if a = b then some x else aget l b := by
  induction l with
  | nil => simp [aset, aget]
  | cons h t ih =>
    obtain ⟨k, v⟩ := h
    by_cases hk : k = a
    · subst hk
      by_cases hb : k = b <;> simp [aset, aget, hb]
    · by_cases hb : k = b
      · subst hb
        have : ¬ a = k := fun h => hk h.symm
        simp [aset, aget, hk, this]
      · simp [aset, aget, hk, hb, ih]

theorem aget_aset_self (l : List (α × β)) (a : α) (x : β) : aget (aset l a x) a = some x := by
  simp [aget_aset]

theorem aget_aset_ne (l : List (α × β)) {a b : α} (x : β) (h : a ≠ b) :
    aget (aset l a x) b = aget l b := by
  simp [aget_aset, h]

theorem aget_some_mem {l : List (α × β)} {a : α} {x : β} (h : aget l a = some x) : (a, x) ∈ l := by
  induction l with
  | nil => simp [aget] at h
  | cons hd t ih =>
    obtain ⟨k, v⟩ := hd
    by_cases hk : k = a
    · simp [aget, hk] at h; subst hk; subst h; simp
    · simp [aget, hk] at h; exact List.mem_cons_of_mem _ (ih h)

theorem aget_isSome_iff (l : List (α × β)) (a : α) : (aget l a).isSome ↔ a ∈ keys l := by
  induction l with
  | nil => simp [aget, keys]
  | cons hd t ih =>
    obtain ⟨k, v⟩ := hd
    by_cases hk : k = a
    · simp [aget, keys, hk]
    · have : ¬ a = k := fun h => hk h.symm
      simp [aget, keys, hk, this] at ih ⊢
      exact ih

theorem aget_none_iff (l : List (α × β)) (a : α) : aget l a = none ↔ a ∉ keys l := by
  rw [← aget_isSome_iff]; cases aget l a <;> simp

theorem keys_aset (l : List (α × β)) (a : α) (x : β) :
    keys (aset l a x) = if a ∈ keys l then keys l else keys l ++ [a] := by
  induction l with
  | nil => simp [aset, keys]
  | cons hd t ih =>
    obtain ⟨k, v⟩ := hd
    by_cases hk : k = a
    · subst hk; simp [aset, keys]
    · have : ¬ a = k := fun h => hk h.symm
      simp only [keys] at ih
      simp only [aset, hk, if_false, keys, List.map_cons, List.mem_cons, this, false_or, ih]
      split <;> simp [*]

theorem mem_keys_aset (l : List (α × β)) (a b : α) (x : β) :
    b ∈ keys (aset l a x) ↔ b = a ∨ b ∈ keys l := by
  rw [keys_aset]; split
  · constructor
    · intro h; exact Or.inr h
    · rintro (h | h)
      · subst h; assumption
      · exact h
  · simp [or_comm]

theorem nodup_keys_aset (l : List (α × β)) (a : α) (x : β) (h : (keys l).Nodup) :
    (keys (aset l a x)).Nodup := by
  rw [keys_aset]; split
  · exact h
  · rename_i hn
    rw [List.nodup_append]
    refine ⟨h, by simp, ?_⟩
    intro u hu w hw
    simp at hw; subst hw
    intro e; subst e; exact hn hu

theorem aget_adel (l : List (α × β)) (a b : α) (h : (keys l).Nodup) :
    aget (adel l a) b = if a = b then none else aget l b := by
  induction l with
  | nil => simp [adel, aget]
  | cons hd t ih =>
    obtain ⟨k, v⟩ := hd
    simp only [keys, List.map_cons, List.nodup_cons] at h
    by_cases hk : k = a
    · subst hk
      by_cases hb : k = b
      · subst hb
        have : aget t k = none := (aget_none_iff t k).2 h.1
        simp [adel, aget, this]
      · simp [adel, aget, hb]
    · by_cases hb : k = b
      · subst hb
        have : ¬ a = k := fun h => hk h.symm
        simp [adel, aget, hk, this]
      · simp [adel, aget, hk, hb]
        exact ih h.2

theorem keys_adel_sub (l : List (α × β)) (a : α) : ∀ b, b ∈ keys (adel l a) → b ∈ keys l := by
  induction l with
  | nil => simp [adel, keys]
  | cons hd t ih =>
    obtain ⟨k, v⟩ := hd
    intro b hb
    by_cases hk : k = a
    · simp [adel, hk, keys] at hb ⊢; exact Or.inr hb
    · simp [adel, hk, keys] at hb ⊢
      rcases hb with hb | hb
      · exact Or.inl hb
      · exact Or.inr (by simpa [keys] using ih b (by simpa [keys] using hb))

theorem nodup_keys_adel (l : List (α × β)) (a : α) (h : (keys l).Nodup) : (keys (adel l a)).Nodup := by
  induction l with
  | nil => simp [adel, keys]
  | cons hd t ih =>
    obtain ⟨k, v⟩ := hd
    simp only [keys, List.map_cons, List.nodup_cons] at h
    by_cases hk : k = a
    · simp [adel, hk]; exact h.2
    · simp only [adel, hk, if_false, keys, List.map_cons, List.nodup_cons]
      exact ⟨fun hm => h.1 (keys_adel_sub t a k hm), ih h.2⟩

theorem mem_keys_adel (l : List (α × β)) (a b : α) (h : (keys l).Nodup) :
    b ∈ keys (adel l a) ↔ b ≠ a ∧ b ∈ keys l := by
  rw [← aget_isSome_iff, ← aget_isSome_iff, aget_adel l a b h]
  by_cases hab : a = b
  · subst hab; simp
  · have : b ≠ a := fun h => hab h.symm
    simp [hab, this]

end assoc

/-! ### resources -/

theorem sub_length (a b : Res) : (sub a b).length = a.length := by
  induction a generalizing b with
  | nil => simp [sub]
  | cons x xs ih => cases b <;> simp [sub, ih]

theorem add_length (a b : Res) : (add a b).length = a.length := by
  induction a generalizing b with
  | nil => simp [add]
  | cons x xs ih => cases b <;> simp [add, ih]

theorem dem_nil (i : Nat) : dem [] i = 0 := by simp [dem]
theorem dem_cons_zero (x : Int) (xs : Res) : dem (x :: xs) 0 = x := by simp [dem]
theorem dem_cons_succ (x : Int) (xs : Res) (i : Nat) : dem (x :: xs) (i + 1) = dem xs i := by
  simp [dem]

theorem dem_sub (a b : Res) (i : Nat) (h : i < a.length) : dem (sub a b) i = dem a i - dem b i := by
  induction a generalizing b i with
  | nil => simp at h
  | cons x xs ih =>
    cases b with
    | nil => simp [sub, dem_nil]
    | cons y ys =>
      cases i with
      | zero => simp [sub, dem_cons_zero]
      | succ j =>
        simp only [sub, dem_cons_succ]
        exact ih ys j (by simpa using h)

theorem dem_add (a b : Res) (i : Nat) (h : i < a.length) : dem (add a b) i = dem a i + dem b i := by
  induction a generalizing b i with
  | nil => simp at h
  | cons x xs ih =>
    cases b with
    | nil => simp [add, dem_nil]
    | cons y ys =>
      cases i with
      | zero => simp [add, dem_cons_zero]
      | succ j =>
        simp only [add, dem_cons_succ]
        exact ih ys j (by simpa using h)

theorem dem_accum (a b : Res) (i : Nat) : dem (accum a b) i = dem a i + dem b i := by
  induction a generalizing b i with
  | nil => simp [accum, dem_nil]
  | cons x xs ih =>
    cases b with
    | nil => simp [accum, dem_nil]
    | cons y ys =>
      cases i with
      | zero => simp [accum, dem_cons_zero]
      | succ j => simp only [accum, dem_cons_succ]; exact ih ys j

theorem dem_ge_length (a : Res) (i : Nat) (h : a.length ≤ i) : dem a i = 0 := by
  simp [dem, List.getD, List.getElem?_eq_none h]

theorem over_false_iff (r : Res) : over r = false ↔ ∀ i, i < r.length → 0 ≤ dem r i := by
  induction r with
  | nil => simp [over]
  | cons x xs ih =>
    simp only [over, List.any_cons, Bool.or_eq_false_iff, decide_eq_false_iff_not] at ih ⊢
    constructor
    · rintro ⟨h1, h2⟩ i hi
      cases i with
      | zero => simp [dem_cons_zero]; omega
      | succ j => rw [dem_cons_succ]; exact ih.1 h2 j (by simpa using hi)
    · intro h
      refine ⟨?_, ih.2 fun i hi => ?_⟩
      · have := h 0 (by simp); simp [dem_cons_zero] at this; omega
      · have := h (i + 1) (by simpa using hi); rwa [dem_cons_succ] at this

theorem decr_some {a : Res} {r : Nat} {x : Int} {a' : Res} (h : decr a r x = some a') :
    a'.length = a.length ∧ ∀ i, dem a' i = dem a i - (if r = i then x else 0) := by
  induction a generalizing r a' with
  | nil => simp [decr] at h
  | cons y ys ih =>
    cases r with
    | zero =>
      simp [decr] at h; subst h
      refine ⟨by simp, fun i => ?_⟩
      cases i with
      | zero => simp [dem_cons_zero]
      | succ j => simp [dem_cons_succ]
    | succ n =>
      simp only [decr, Option.map_eq_some_iff] at h
      obtain ⟨b, hb, rfl⟩ := h
      obtain ⟨h1, h2⟩ := ih hb
      refine ⟨by simp [h1], fun i => ?_⟩
      cases i with
      | zero => simp [dem_cons_zero]
      | succ j => simp only [dem_cons_succ, h2 j]; simp

/-! ### machine -/

theorem Machine.get_eq (m : Machine) (c : Chip) : m.get c = if m.ok c then some (cap m c) else none := rfl

theorem Machine.get_some {m : Machine} {c : Chip} {r : Res} (h : m.get c = some r) :
    m.ok c = true ∧ r = cap m c := by
  unfold Machine.get at h
  split at h
  · simp at h; exact ⟨by assumption, h.symm⟩
  · simp at h

theorem Machine.set_some {m m' : Machine} {c : Chip} {r : Res} (h : m.set c r = some m') :
    m.ok c = true ∧ m'.w = m.w ∧ m'.h = m.h ∧ m'.dead = m.dead ∧ m'.res = m.res ∧
    ∀ c', cap m' c' = if c = c' then r else cap m c' := by
  unfold Machine.set at h
  split at h
  · simp at h; subst h
    refine ⟨by assumption, rfl, rfl, rfl, rfl, fun c' => ?_⟩
    simp only [cap, aget_aset]
    split <;> simp
  · simp at h

theorem Machine.ok_congr {m m' : Machine} (hw : m'.w = m.w) (hh : m'.h = m.h) (hd : m'.dead = m.dead)
    (c : Chip) : m'.ok c = m.ok c := by
  simp [Machine.ok, hw, hh, hd]

theorem mem_chips_iff (m : Machine) (c : Chip) : c ∈ m.chips ↔ m.ok c = true := by
  obtain ⟨x, y⟩ := c
  simp only [Machine.chips, List.mem_flatMap, List.mem_range, List.mem_filterMap]
  constructor
  · rintro ⟨a, ha, b, hb, h⟩
    split at h
    · simp at h; obtain ⟨rfl, rfl⟩ := h; assumption
    · simp at h
  · intro h
    have h' := h
    simp only [Machine.ok, Bool.and_eq_true, decide_eq_true_eq] at h'
    exact ⟨x, h'.1.1, y, h'.1.2, by simp [h]⟩

end Rig.C02
