/-
C16 - `round53` is nearest among ALL 53-bit dyadics (over ℚ); the integer-level lemmas are in
Lemmas/C16Rne.lean.
-/
import RigModel.Lemmas.C16
set_option linter.unusedSimpArgs false
set_option linter.unusedVariables false

namespace Rig.C16

/-! ### optimality among all 53-bit dyadics (over ℚ) -/

theorem round53_grid (k t : Int) :
    |k - round53Val k| ≤ |k - t * 2 ^ ulpExp k| ∧
    (t ≠ (round53 k).m → |k - t * 2 ^ ulpExp k| = |k - round53Val k| → (round53 k).m % 2 = 0) := by
  rw [round53Val_eq, round53_m]
  exact ⟨isRne_nearest (by positivity) (rne_isRne k _) t,
    fun ht he => isRne_tie (by positivity) (rne_isRne k _) t ht he⟩

theorem cast_abs_sub (a b : Int) : |(a : ℚ) - (b : ℚ)| = ((|a - b| : Int) : ℚ) := by
  push_cast; rfl

/-- a dyadic whose exponent is at least `s` is a multiple of `2^s` -/
theorem toRat_grid (y : Dy) (s : Nat) (h : (s : Int) ≤ y.e) :
    ∃ t : Int, y.toRat = ((t * 2 ^ s : Int) : ℚ) := by
  obtain ⟨j, hj⟩ : ∃ j : Nat, y.e = (j : Int) + s := ⟨(y.e - s).toNat, by omega⟩
  refine ⟨y.m * 2 ^ j, ?_⟩
  unfold Dy.toRat
  rw [hj, zpow_add₀ (by norm_num : (2 : ℚ) ≠ 0)]
  push_cast
  simp only [zpow_natCast]
  ring

/-- a 53-bit dyadic with exponent below `s` is at most `2^52 * 2^s` in magnitude -/
theorem toRat_small (y : Dy) (s : Nat) (hm : y.m.natAbs ≤ 2 ^ 53) (hs : 0 < s) (h : y.e < (s : Int)) :
    |y.toRat| ≤ (((2 : Int) ^ 52 * 2 ^ s : Int) : ℚ) := by
  obtain ⟨s', rfl⟩ : ∃ s', s = s' + 1 := ⟨s - 1, by omega⟩
  unfold Dy.toRat
  have h2 : (0 : ℚ) < (2 : ℚ) ^ y.e := by positivity
  rw [abs_mul, abs_of_pos h2]
  have hm' : |(y.m : ℚ)| ≤ 2 ^ 53 := by
    have : |y.m| ≤ 2 ^ 53 := by rw [Int.abs_eq_natAbs]; exact_mod_cast hm
    have : ((|y.m| : Int) : ℚ) ≤ ((2 ^ 53 : Int) : ℚ) := by exact_mod_cast this
    rw [Int.cast_abs] at this; push_cast at this; exact this
  have he : (2 : ℚ) ^ y.e ≤ (2 : ℚ) ^ (s' : Int) :=
    zpow_le_zpow_right₀ (by norm_num) (by omega)
  calc |(y.m : ℚ)| * (2 : ℚ) ^ y.e ≤ 2 ^ 53 * (2 : ℚ) ^ (s' : Int) :=
        mul_le_mul hm' he (le_of_lt h2) (by positivity)
    _ = (((2 : Int) ^ 52 * 2 ^ (s' + 1) : Int) : ℚ) := by
        push_cast; simp only [zpow_natCast]; ring

/-- positive `k` that needs rounding: the result is at least as close as any 53-bit dyadic -/
theorem nearest_pos (k : Int) (hk : 0 < k) (hs : 0 < ulpExp k) (y : Dy) (hy : y.m.natAbs ≤ 2 ^ 53) :
    |(k : ℚ) - (round53Val k : ℚ)| ≤ |(k : ℚ) - y.toRat| ∧
    (|(k : ℚ) - y.toRat| = |(k : ℚ) - (round53Val k : ℚ)| → y.toRat ≠ (round53Val k : ℚ) →
      (round53 k).m % 2 = 0) := by
  rcases le_or_gt (ulpExp k : Int) y.e with he | he
  · obtain ⟨t, ht⟩ := toRat_grid y (ulpExp k) he
    obtain ⟨g1, g2⟩ := round53_grid k t
    rw [ht, cast_abs_sub, cast_abs_sub]
    refine ⟨by exact_mod_cast g1, ?_⟩
    intro e1 e2
    apply g2
    · rintro rfl
      apply e2
      rw [round53Val_eq, round53_m]
    · exact_mod_cast e1
  · have hsm := toRat_small y (ulpExp k) hy hs he
    obtain ⟨b1, _⟩ := binade k hs
    rw [abs_of_pos hk] at b1
    obtain ⟨g1, g2⟩ := round53_grid k (2 ^ 52)
    have hyG : y.toRat ≤ (((2 : Int) ^ 52 * 2 ^ ulpExp k : Int) : ℚ) := le_trans (le_abs_self _) hsm
    have hGk : (((2 : Int) ^ 52 * 2 ^ ulpExp k : Int) : ℚ) ≤ (k : ℚ) := by exact_mod_cast b1
    have hkG : |k - 2 ^ 52 * 2 ^ ulpExp k| = k - 2 ^ 52 * 2 ^ ulpExp k := abs_of_nonneg (by omega)
    have hky : |(k : ℚ) - y.toRat| = (k : ℚ) - y.toRat := abs_of_nonneg (by linarith)
    have hR : |(k : ℚ) - (round53Val k : ℚ)| ≤ (k : ℚ) - (((2 : Int) ^ 52 * 2 ^ ulpExp k : Int) : ℚ) := by
      rw [cast_abs_sub]
      have : |k - round53Val k| ≤ k - 2 ^ 52 * 2 ^ ulpExp k := by rw [← hkG]; exact g1
      exact_mod_cast this
    refine ⟨by rw [hky]; linarith, ?_⟩
    intro e1 e2
    by_cases hq : (2 : Int) ^ 52 = (round53 k).m
    · exfalso
      apply e2
      have hRG : round53Val k = 2 ^ 52 * 2 ^ ulpExp k := by rw [round53Val_eq, ← round53_m, ← hq]
      rw [hRG] at e1 ⊢
      rw [hky, cast_abs_sub, hkG] at e1
      push_cast at e1 ⊢
      linarith
    · apply g2 hq
      have : |(k : ℚ) - (round53Val k : ℚ)| = (k : ℚ) - (((2 : Int) ^ 52 * 2 ^ ulpExp k : Int) : ℚ) := by
        apply le_antisymm hR
        rw [← e1, hky]; linarith
      rw [cast_abs_sub] at this
      rw [hkG]
      exact_mod_cast this.symm

theorem round53_m_neg (k : Int) : (round53 (-k)).m = -(round53 k).m := by
  rw [round53_m, round53_m, ulpExp_neg, rne_neg]


end Rig.C16
