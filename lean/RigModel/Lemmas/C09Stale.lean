/-
C09 helper lemmas, part 7: the retry loop WITHOUT the pre-state hypothesis `PreClean` - what a
normal return / the error still guarantee, and why the loop was left.
-/
import RigModel.Lemmas.C09Loop
set_option linter.unusedSimpArgs false
set_option linter.unusedVariables false

namespace Rig.C09
open Rig.Gen.Load Rig.Gen.Scp

/-- every requested core that the unloaded map does not name is in the wait state -/
def WaitInv (apps : List App) (m : MState) (unl : List App) : Prop :=
  ∀ a ∈ apps, ∀ x y p, wants a x y p = true → (∀ u ∈ unl, wants u x y p = false) →
    (m.core x y p).state = stWait

/-- every core the unloaded map names is not in the wait state -/
def NamedInv (m : MState) (unl : List App) : Prop :=
  ∀ u ∈ unl, ∀ x y p, wants u x y p = true → (m.core x y p).state ≠ stWait

/-- the count shortcut's test: as many cores of the machine wait under the app id as were requested -/
def CountEq (mc : MCfg) (c : Ctl) (apps : List App) (m : MState) : Prop :=
  coreCount apps = (allCores mc.chips).countP fun k => matchesApp (m.core k.1 k.2.1 k.2.2) stWait c.appId

/-- the loop was left through the count shortcut -/
def CountExit (mc : MCfg) (c : Ctl) (apps : List App) (m : MState) : Prop :=
  c.useCount = true ∧ CountEq mc c apps m

/-- loop invariant without `PreClean` -/
def LIw (mc : MCfg) (c : Ctl) (apps : List App) (m0 : MState) (s : Sim) (tries : Nat) (unl : List App) : Prop :=
  Inv apps c.appId m0 s.m ∧ SubList unl apps ∧
  (WaitInv apps s.m unl ∨ (unl = [] ∧ CountExit mc c apps s.m)) ∧
  (tries = 0 ∨ NamedInv s.m unl)

theorem FillStep.wait_mono {apps : List App} {appId : Nat} {m m' : MState} (hs : FillStep apps appId m m')
    (x y p : Nat) (h : (m.core x y p).state = stWait) : (m'.core x y p).state = stWait := by
  rcases hs x y p with e | ⟨a, _, _, e⟩
  · rw [e]; exact h
  · rw [e]; rfl

theorem subList_filt {apps : List App} (core : Nat → Nat → Nat → Core) {unl : List App} (hsub : SubList unl apps) :
    SubList (filtApps core unl) apps := by
  intro u' hu'
  obtain ⟨u, hu, rfl, _⟩ := (mem_filtApps _ _ _).mp hu'
  obtain ⟨a, ha, hua⟩ := hsub u hu
  refine ⟨a, ha, hua.1, hua.2.1, fun x y p hw => hua.2.2 x y p ?_⟩
  rw [wants_eq] at hw ⊢
  simp only [wantsT_filt, Bool.and_eq_true] at hw
  exact hw.1

theorem waitInv_filt {apps : List App} {appId : Nat} {m m' : MState} {unl : List App}
    (hw : WaitInv apps m unl) (hs : FillStep apps appId m m') : WaitInv apps m' (filtApps m'.core unl) := by
  intro a ha x y p hwa hnot
  by_cases hex : ∃ u ∈ unl, wants u x y p = true
  · obtain ⟨u, hu, hwu⟩ := hex
    by_contra hst
    have hn : notWaiting m'.core x y p = true := by simp only [notWaiting, decide_eq_true_eq]; exact hst
    have hw' : wantsT (filtTargets m'.core u.targets) x y p = true := by
      rw [wantsT_filt, ← wants_eq, hwu, hn]; rfl
    have hmem : ({ u with targets := filtTargets m'.core u.targets } : App) ∈ filtApps m'.core unl :=
      (mem_filtApps _ _ _).mpr ⟨u, hu, rfl, wantsT_nonempty _ _ _ _ hw'⟩
    have := hnot _ hmem
    rw [wants_eq] at this
    simp only at this
    rw [hw'] at this
    exact absurd this (by simp)
  · have hno : ∀ u ∈ unl, wants u x y p = false := by
      intro u hu
      cases h : wants u x y p with
      | false => rfl
      | true => exact absurd ⟨u, hu, h⟩ hex
    exact hs.wait_mono x y p (hw a ha x y p hwa hno)

theorem namedInv_filt (m' : MState) (unl : List App) : NamedInv m' (filtApps m'.core unl) := by
  intro u' hu' x y p hw
  obtain ⟨u, hu, rfl, _⟩ := (mem_filtApps _ _ _).mp hu'
  rw [wants_eq] at hw
  simp only [wantsT_filt, Bool.and_eq_true, notWaiting, decide_eq_true_eq] at hw
  exact hw.2

/-- what holds of every map handed to `flood_fill_aplx` after the first attempt, whatever the pre-state:
it is a part of the request and, in a machine state reached during this call, none of the cores it
names is in the wait state - in particular none of them holds its binary -/
def SentW (c : Ctl) (apps : List App) (m0 : MState) (l : List App) : Prop :=
  SubList l apps ∧ ∃ m, Inv apps c.appId m0 m ∧ NamedInv m l

/-- **the retry loop without `PreClean`**: the machine invariant (`Inv`: cores that were not requested
are untouched, a requested core holds its binary or is as before), the reason the loop was left with
an empty map (every requested core is in the wait state, or - count mode - the count matched), and,
when it was left after all attempts with a non-empty map, that no named core is in the wait state. -/
theorem loadLoop_weak (mc : MCfg) (c : Ctl) (apps : List App) (hv : Valid mc c apps) (m0 : MState) :
    ∀ (fuel : Nat) (s : Sim) (tries : Nat) (unl : List App) (sent : List (List App)),
      LIw mc c apps m0 s tries unl →
      let r := loadLoop mc c (coreCount apps) fuel s tries unl sent
      Inv apps c.appId m0 r.1.m ∧ SubList r.2.1 apps ∧
      (WaitInv apps r.1.m r.2.1 ∨ (r.2.1 = [] ∧ CountExit mc c apps r.1.m)) ∧
      (r.2.1 ≠ [] → tries + fuel = c.nTries + 1 → NamedInv r.1.m r.2.1) ∧
      (∀ l ∈ r.2.2, l ∈ sent ∨ (tries = 0 ∧ l = unl) ∨ SentW c apps m0 l) := by
  intro fuel
  induction fuel with
  | zero =>
    intro s tries unl sent ⟨hinv, hsub, hreason, hnamed⟩
    simp only [loadLoop]
    refine ⟨hinv, hsub, hreason, fun _ ht => ?_, fun l hl => Or.inl hl⟩
    rcases hnamed with h | h
    · omega
    · exact h
  | succ fuel ih =>
    intro s tries unl sent ⟨hinv, hsub, hreason, hnamed⟩
    rw [loadLoop]
    by_cases hcond : unl ≠ [] ∧ tries ≤ c.nTries
    · rw [if_pos hcond]
      have hwait : WaitInv apps s.m unl := by
        rcases hreason with h | ⟨h, _⟩
        · exact h
        · exact absurd h hcond.1
      have hstep := floodFill_step mc c apps hv unl hsub s
      have hinv1 : Inv apps c.appId m0 (floodFill mc c true s unl).m := hinv.step hv hstep
      have hsentstep : ∀ l, (l ∈ sent ++ [unl] ∨ (tries + 1 = 0 ∧ l = l) ∨ SentW c apps m0 l) →
          (l ∈ sent ∨ (tries = 0 ∧ l = unl) ∨ SentW c apps m0 l) := by
        intro l h
        rcases h with h | h | h
        · rcases List.mem_append.mp h with h | h
          · exact Or.inl h
          · simp only [List.mem_singleton] at h
            subst h
            rcases hnamed with h0 | h0
            · exact Or.inr (Or.inl ⟨h0, rfl⟩)
            · exact Or.inr (Or.inr ⟨hsub, s.m, hinv, h0⟩)
        · omega
        · exact Or.inr (Or.inr h)
      -- the read-back continuation, from any simulator state with the same machine
      have hcheck : ∀ s2 : Sim, s2.m = (floodFill mc c true s unl).m →
          let r := loadLoop mc c (coreCount apps) fuel (checkApps mc c.buf s2 unl).1 (tries + 1)
            (checkApps mc c.buf s2 unl).2 (sent ++ [unl])
          Inv apps c.appId m0 r.1.m ∧ SubList r.2.1 apps ∧
          (WaitInv apps r.1.m r.2.1 ∨ (r.2.1 = [] ∧ CountExit mc c apps r.1.m)) ∧
          (r.2.1 ≠ [] → tries + (fuel + 1) = c.nTries + 1 → NamedInv r.1.m r.2.1) ∧
          (∀ l ∈ r.2.2, l ∈ sent ∨ (tries = 0 ∧ l = unl) ∨ SentW c apps m0 l) := by
        intro s2 hs2
        obtain ⟨c1, c2, _⟩ := checkApps_spec mc c.buf hv.hb hv.hv unl s2
        have hstep2 : FillStep apps c.appId s.m (checkApps mc c.buf s2 unl).1.m := by rw [c2, hs2]; exact hstep
        have := ih (checkApps mc c.buf s2 unl).1 (tries + 1) (checkApps mc c.buf s2 unl).2 (sent ++ [unl])
          ⟨by rw [c2, hs2]; exact hinv1, by rw [c1]; exact subList_filt _ hsub,
           Or.inl (by rw [c1, ← c2]; exact waitInv_filt hwait hstep2),
           Or.inr (by rw [c1, ← c2]; exact namedInv_filt _ _)⟩
        refine ⟨this.1, this.2.1, this.2.2.1, fun h1 h2 => this.2.2.2.1 h1 (by omega), fun l hl => hsentstep l ?_⟩
        rcases this.2.2.2.2 l hl with h | h | h
        · exact Or.inl h
        · omega
        · exact Or.inr (Or.inr h)
      by_cases huc : c.useCount = true
      · simp only [huc, if_true, send_count mc c _ hv.happ]
        split
        · -- the count shortcut succeeded
          rename_i hcnt
          have := ih { (floodFill mc c true s unl) with
              trace := (countReq stWait c.appId, Reply.count ((allCores mc.chips).countP fun k =>
                matchesApp ((floodFill mc c true s unl).m.core k.1 k.2.1 k.2.2) stWait c.appId)) ::
                  (floodFill mc c true s unl).trace }
            (tries + 1) [] (sent ++ [unl])
            ⟨hinv1, fun u hu => absurd hu (by simp), Or.inr ⟨rfl, ⟨huc, hcnt⟩⟩,
             Or.inr (fun u hu => absurd hu (by simp))⟩
          refine ⟨this.1, this.2.1, this.2.2.1, fun h1 h2 => this.2.2.2.1 h1 (by omega), fun l hl => hsentstep l ?_⟩
          rcases this.2.2.2.2 l hl with h | h | h
          · exact Or.inl h
          · omega
          · exact Or.inr (Or.inr h)
        · exact hcheck _ rfl
      · have huc' : c.useCount = false := by simpa using huc
        simp only [huc', Bool.false_eq_true, if_false]
        exact hcheck _ rfl
    · rw [if_neg hcond]
      refine ⟨hinv, hsub, hreason, fun h1 h2 => ?_, fun l hl => Or.inl hl⟩
      rcases hnamed with h | h
      · exfalso; apply hcond; exact ⟨h1, by omega⟩
      · exact h

theorem liw_init (mc : MCfg) (c : Ctl) (apps : List App) (s : Sim) : LIw mc c apps s.m s 0 apps := by
  refine ⟨⟨fun _ _ _ _ => rfl, fun _ _ _ _ _ _ => Or.inr rfl⟩, fun u hu => ⟨u, hu, rfl, rfl, fun _ _ _ h => h⟩,
    Or.inl (fun a ha x y p hw hno => ?_), Or.inl rfl⟩
  have := hno a ha
  rw [hw] at this; exact absurd this (by simp)

end Rig.C09
