/-
C14 - the layout-parametric probes at the bundled struct definitions are the original model functions.
-/
import RigModel.Lemmas.C14o
namespace Rig.C14
open Rig.Gen.C14

theorem svFieldL_default (rd : Rd) (name : String) : svFieldL defaultLayout rd name = svField rd name := rfl

theorem sv_vcpu_base (rd : Rd) : svField rd "vcpu_base" = readInt rd (SV_BASE + SV_VCPU_BASE_OFF) SV_VCPU_BASE_SIZE := by
  simp [svField, structField, SV_FIELDS, List.find?]
  rfl
theorem sv_iobuf_size (rd : Rd) : svField rd "iobuf_size" = readInt rd (SV_BASE + SV_IOBUF_SIZE_OFF) SV_IOBUF_SIZE_SIZE := by
  simp [svField, structField, SV_FIELDS, List.find?]
  rfl
theorem sv_p2p_dims (rd : Rd) : svField rd "p2p_dims" = readInt rd (SV_BASE + SV_P2P_DIMS_OFF) SV_P2P_DIMS_SIZE := by
  simp [svField, structField, SV_FIELDS, List.find?]
  rfl

theorem vcpuAddrL_default (rd : Rd) (p : Nat) : vcpuAddrL defaultLayout rd p = vcpuAddr rd p := by
  simp only [vcpuAddrL, vcpuAddr, svFieldL_default, sv_vcpu_base]
  rfl

theorem decodeStatusL_default (data : List Nat) : decodeStatusL defaultLayout data = decodeStatus data := rfl

theorem processorStatusL_default (rd : Rd) (p : Nat) : processorStatusL defaultLayout rd p = processorStatus rd p := by
  simp only [processorStatusL, processorStatus, vcpuAddrL_default, decodeStatusL_default]
  rfl

theorem p2pTableL_default (rd : Rd) : p2pTableL defaultLayout rd = p2pTable rd := by
  simp only [p2pTableL, p2pTable, svFieldL_default, sv_p2p_dims]

theorem getSystemInfoL_default (rd : Rd) (probe : Nat × Nat → Option InfoReply) :
    getSystemInfoL defaultLayout rd probe = getSystemInfo rd probe := by
  simp only [getSystemInfoL, getSystemInfo, p2pTableL_default]

theorem vcpu_iobuf (rd : Rd) (va : Nat) : structField rd VCPU_FIELDS va "iobuf" = readInt rd (va + 88) 4 := by
  simp [structField, VCPU_FIELDS, List.find?]

theorem iobufBytesL_default (rd : Rd) (p fuel : Nat) : iobufBytesL defaultLayout rd p fuel = iobufBytes rd p fuel := by
  have hoff : vcpuFieldOff "iobuf" = some 88 := by decide
  simp only [iobufBytesL, iobufBytes, svFieldL_default, sv_iobuf_size, vcpuAddrL_default, hoff]
  simp only [bind, Except.bind]
  cases readInt rd (SV_BASE + SV_IOBUF_SIZE_OFF) SV_IOBUF_SIZE_SIZE with
  | error e => rfl
  | ok sz =>
    simp only []
    cases vcpuAddr rd p with
    | error e => rfl
    | ok va =>
      simp only []
      rw [show defaultLayout.vcpuFields = VCPU_FIELDS from rfl, vcpu_iobuf]
end Rig.C14
