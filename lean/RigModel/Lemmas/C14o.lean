/-
C14 - struct fields (`read_struct_field` / `read_vcpu_struct_field`) and the reference table of `p2p_ok`.
-/
import RigModel.Lemmas.C14n
namespace Rig.C14
open Rig.Gen.C14

theorem specTable_eq (m : MachineState) : m.specTable = m.table := rfl

theorem leVal_leN (size v : Nat) (hs : size = 1 ∨ size = 2 ∨ size = 4) (hv : v < 256 ^ size) :
    leVal (leN size v) = v ∧ (leN size v).length = size := by
  rcases hs with rfl | rfl | rfl
  · simp [leN, List.range, List.range.loop, leVal]; omega
  · simp [leN, List.range, List.range.loop, leVal]; omega
  · simp [leN, List.range, List.range.loop, leVal]; omega

/-- a scalar field of 1, 2 or 4 bytes whose bytes are the little-endian value reads back as the value -/
theorem structField_exact (rd : Rd) (fields : List (String × Nat × Nat × Bool × Nat)) (base : Nat) (name : String)
    (off size v : Nat) (hf : fields.find? (·.1 == name) = some (name, off, size, false, 1))
    (hs : size = 1 ∨ size = 2 ∨ size = 4) (hv : v < 256 ^ size) (hrd : rd (base + off) size = leN size v) :
    structField rd fields base name = .ok v := by
  obtain ⟨h1, h2⟩ := leVal_leN size v hs hv
  simp [structField, hf, readInt, hrd, h1, h2]
end Rig.C14
