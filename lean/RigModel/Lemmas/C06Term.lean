/-
C06 - termination of the burst under explicit progress hypotheses about the operating system
(helper lemmas for `terminates_under_progress` / `terminates_under_select` in `RigModel.Props.C06`).
-/
import RigModel.Lemmas.C06
set_option linter.unusedSimpArgs false
set_option linter.unusedVariables false

namespace Rig.C06
open Rig.Gen.Scp

/-! ### the transmit loop -/

theorem fill_unqueued (cfg : Cfg) (extra : Nat → Option Int) (clock : Nat → Int) :
    ∀ fuel st, st.queued = false → fill cfg extra clock fuel st = (st, []) := by
  intro fuel st hq
  cases fuel with
  | zero => rfl
  | succ f => simp [fill, hq]

/-- what the transmit loop leaves unchanged / how it extends the state -/
theorem fill_shape (cfg : Cfg) (extra : Nat → Option Int) (clock : Nat → Int) :
    ∀ fuel st, ∃ new, (fill cfg extra clock fuel st).1.outs = st.outs ++ new ∧
      (fill cfg extra clock fuel st).1.pend = st.pend ∧
      st.k ≤ (fill cfg extra clock fuel st).1.k ∧
      (∀ p ∈ new, ∃ j, st.k ≤ j ∧ j < (fill cfg extra clock fuel st).1.k ∧
        p.2.deadline = clock j + p.2.timeout) := by
  intro fuel
  induction fuel with
  | zero => intro st; exact ⟨[], by simp [fill]⟩
  | succ f ih =>
    intro st
    unfold fill
    split
    · split
      · obtain ⟨new, h1, h2, h3, h4⟩ := ih { st with queued := false }
        exact ⟨new, h1, h2, h3, h4⟩
      · rename_i ex hex
        cases hd : drawSeq cfg.modulus st.outs cfg.modulus st.seqCtr with
        | mk seq ctr =>
          simp only
          let o : Out := { cmd := st.next, tries := 1, timeout := cfg.defaultTimeout + ex, deadline := clock st.k + (cfg.defaultTimeout + ex) }
          let st' : St := { st with next := st.next + 1, seqCtr := ctr, k := st.k + 1, outs := st.outs ++ [(seq, o)] }
          obtain ⟨new, h1, h2, h3, h4⟩ := ih st'
          simp only [st', o] at h1 h2 h3 h4
          refine ⟨(seq, o) :: new, ?_, h2, by omega, ?_⟩
          · rw [h1]; simp [o]
          · intro p hp
            simp only [List.mem_cons] at hp
            rcases hp with rfl | hp
            · exact ⟨st.k, by omega, by omega, rfl⟩
            · obtain ⟨j, hj1, hj2, hj3⟩ := h4 p hp
              exact ⟨j, by omega, hj2, hj3⟩
    · exact ⟨[], by simp⟩

/-- after the transmit loop the window is full or the queue is drained -/
theorem fill_full (cfg : Cfg) (extra : Nat → Option Int) (clock : Nat → Int) :
    ∀ fuel st, cfg.window < st.outs.length + fuel →
      cfg.window ≤ (fill cfg extra clock fuel st).1.outs.length ∨
      (fill cfg extra clock fuel st).1.queued = false := by
  intro fuel
  induction fuel with
  | zero => intro st h; left; simp only [fill]; omega
  | succ f ih =>
    intro st h
    unfold fill
    split
    · rename_i hc
      split
      · right
        rw [fill_unqueued _ _ _ _ _ rfl]
      · rename_i ex hex
        cases hd : drawSeq cfg.modulus st.outs cfg.modulus st.seqCtr with
        | mk seq ctr =>
          simp only
          exact ih _ (by simp; omega)
    · rename_i hc
      simp only
      by_cases hq : st.queued = true
      · left
        have : ¬ st.outs.length < cfg.window := fun hl => hc ⟨hl, hq⟩
        omega
      · right; simpa using hq

/-! ### the retransmission scan -/

theorem sendKeys_cons_send (s c k : Nat) (t : Int) (evs : List Ev) :
    sendKeys (Ev.send s c k t :: evs) = (c, k) :: sendKeys evs := by
  simp [sendKeys]

/-- a packet whose deadline has passed makes the scan retransmit something or raise -/
theorem retrans_progress (nTries : Nat) (now : Int) :
    ∀ outs, (∃ p ∈ outs, p.2.deadline < now) →
      (retrans nTries now outs).2.2.isSome = true ∨ 1 ≤ (sendKeys (retrans nTries now outs).2.1).length := by
  intro outs
  induction outs with
  | nil => rintro ⟨p, hp, _⟩; cases hp
  | cons q rest ih =>
    intro hex
    obtain ⟨s, o⟩ := q
    unfold retrans
    split
    · split
      · left; rfl
      · right
        simp only [sendKeys_cons_send, List.length_cons]
        omega
    · rename_i hnd
      have : ∃ p ∈ rest, p.2.deadline < now := by
        obtain ⟨p, hp, hlt⟩ := hex
        simp only [List.mem_cons] at hp
        rcases hp with rfl | hp
        · exact absurd hlt hnd
        · exact ⟨p, hp, hlt⟩
      exact ih this

/-- without retransmission and without error the scan changes nothing -/
theorem retrans_idle (nTries : Nat) (now : Int) :
    ∀ outs, (retrans nTries now outs).2.2 = none → sendKeys (retrans nTries now outs).2.1 = [] →
      (retrans nTries now outs).1 = outs := by
  intro outs
  induction outs with
  | nil => intro _ _; rfl
  | cons q rest ih =>
    obtain ⟨s, o⟩ := q
    unfold retrans
    split
    · split
      · intro h; cases h
      · intro _ h
        simp only [sendKeys_cons_send] at h
        cases h
    · intro h1 h2
      simp only at h1 h2 ⊢
      rw [ih h1 h2]

/-! ### one iteration that receives no datagram -/

theorem not_active_iff (st : St) : st.active = false ↔ st.queued = false ∧ st.outs = [] ∧ st.pend = [] := by
  simp only [St.active, Bool.or_eq_false_iff, Bool.not_eq_false', List.isEmpty_iff]
  constructor
  · rintro ⟨⟨a, b⟩, c⟩; exact ⟨a, b, c⟩
  · rintro ⟨a, b, c⟩; exact ⟨⟨a, b⟩, c⟩

/-- decomposition of an iteration with an empty batch -/
theorem iter_empty (cfg : Cfg) (extra : Nat → Option Int) (clock : Nat → Int) (st : St) :
    let st1 := afterFill cfg extra clock st
    let kn := if st1.outs.isEmpty then st1.k else st1.k + 1
    let rt := retrans cfg.nTries (clock kn) st1.outs
    (iter cfg extra clock st []).1 = { st1 with pend := [], k := kn + 1, outs := rt.1 } ∧
    sendKeys (iter cfg extra clock st []).2.1 =
      sendKeys (fill cfg extra clock (cfg.window + 1) st).2 ++ sendKeys rt.2.1 ∧
    ((iter cfg extra clock st []).2.2 = none ↔ rt.2.2 = none) := by
  unfold iter afterFill
  cases hf : fill cfg extra clock (cfg.window + 1) st with
  | mk st1 ev1 =>
    simp only
    by_cases he : st1.outs.isEmpty = true
    · simp only [he, if_true, recvAll]
      cases hr : retrans cfg.nTries (clock st1.k) st1.outs with
      | mk o x =>
        obtain ⟨ev3, r⟩ := x
        cases r with
        | none => simp [sendKeys_append, sendKeys_callbacks]
        | some c => simp [sendKeys_append, sendKeys_callbacks]
    · simp only [he, if_false, recvAll, Bool.false_eq_true]
      cases hr : retrans cfg.nTries (clock (st1.k + 1)) st1.outs with
      | mk o x =>
        obtain ⟨ev3, r⟩ := x
        cases r with
        | none => simp [sendKeys_append, sendKeys_callbacks]
        | some c => simp [sendKeys_append, sendKeys_callbacks]

/-- an iteration without datagrams and with nothing outstanding is the last one -/
theorem iter_empty_drained {cfg : Cfg} (wf : WF cfg) (extra : Nat → Option Int) (clock : Nat → Int) (st : St)
    (hw : st.outs.length ≤ cfg.window)
    (he : (afterFill cfg extra clock st).outs = []) :
    (iter cfg extra clock st []).1.active = false := by
  obtain ⟨h1, _, _⟩ := iter_empty cfg extra clock st
  rw [h1, not_active_iff]
  have hfull := fill_full cfg extra clock (cfg.window + 1) st (by omega)
  unfold afterFill at he
  simp only [afterFill, he, List.isEmpty_nil, if_true, retrans, and_true]
  rcases hfull with h | h
  · rw [he] at h; simp at h; have := wf.1; omega
  · exact h

/-! ### inactive states, prefixes -/

theorem run_inactive (cfg : Cfg) (extra : Nat → Option Int) (clock : Nat → Int) (st : St)
    (h : st.active = false) (bs : List (List Dgram)) : run cfg extra clock st bs = (st, [], .done) := by
  cases bs with
  | nil => simp [run, h]
  | cons b bs => simp [run, h]

/-- once the burst has ended, further batches are never looked at -/
theorem run_append (cfg : Cfg) (extra : Nat → Option Int) (clock : Nat → Int) :
    ∀ p st q, (run cfg extra clock st p).2.2 ≠ .exhausted →
      run cfg extra clock st (p ++ q) = run cfg extra clock st p := by
  intro p
  induction p with
  | nil =>
    intro st q h
    simp only [run] at h
    by_cases ha : st.active = true
    · simp [ha] at h
    · have ha' : st.active = false := by simpa using ha
      rw [List.nil_append, run_inactive _ _ _ _ ha', run_inactive _ _ _ _ ha']
  | cons b p ih =>
    intro st q h
    simp only [List.cons_append]
    unfold run at h ⊢
    by_cases ha : st.active = true
    · simp only [ha, if_true] at h ⊢
      cases hi : iter cfg extra clock st b with
      | mk st1 x =>
        obtain ⟨evs1, r1⟩ := x
        rw [hi] at h
        cases r1 with
        | some r => rfl
        | none =>
          simp only at h ⊢
          rw [ih st1 q h]
    · simp [ha]

theorem alongRun_prefix (cfg : Cfg) (extra : Nat → Option Int) (clock : Nat → Int) (Q : St → Bool) :
    ∀ p st q, alongRun cfg extra clock Q st (p ++ q) = true → alongRun cfg extra clock Q st p = true := by
  intro p
  induction p with
  | nil => intro st q _; rfl
  | cons b p ih =>
    intro st q h
    simp only [List.cons_append] at h
    unfold alongRun at h ⊢
    by_cases ha : st.active = true
    · simp only [ha, if_true, Bool.and_eq_true] at h ⊢
      refine ⟨h.1, ?_⟩
      cases hi : iter cfg extra clock st b with
      | mk st1 x =>
        obtain ⟨evs1, r1⟩ := x
        have h2 := h.2
        rw [hi] at h2
        cases r1 with
        | some r => rfl
        | none => exact ih st1 q h2
    · simp [ha]

/-- the run never performs more iterations than there are batches; if it ends, the number of
iterations is what `iterations` counts -/
theorem iterations_le (cfg : Cfg) (extra : Nat → Option Int) (clock : Nat → Int) :
    ∀ bs st, iterations cfg extra clock st bs ≤ bs.length := by
  intro bs
  induction bs with
  | nil => intro st; simp [iterations]
  | cons b bs ih =>
    intro st
    unfold iterations
    split
    · cases hi : iter cfg extra clock st b with
      | mk st1 x =>
        obtain ⟨evs1, r1⟩ := x
        cases r1 with
        | some r => simp
        | none => simp only [List.length_cons]; have := ih st1; omega
    · omega

theorem alongRun_append (cfg : Cfg) (extra : Nat → Option Int) (clock : Nat → Int) (Q : St → Bool) :
    ∀ p st q, (run cfg extra clock st p).2.2 ≠ .exhausted →
      alongRun cfg extra clock Q st (p ++ q) = alongRun cfg extra clock Q st p := by
  intro p
  induction p with
  | nil =>
    intro st q h
    simp only [run] at h
    by_cases ha : st.active = true
    · simp [ha] at h
    · cases q <;> simp [alongRun, ha]
  | cons b p ih =>
    intro st q h
    simp only [List.cons_append]
    unfold run at h
    unfold alongRun
    by_cases ha : st.active = true
    · simp only [ha, if_true] at h ⊢
      cases hi : iter cfg extra clock st b with
      | mk st1 x =>
        obtain ⟨evs1, r1⟩ := x
        rw [hi] at h
        cases r1 with
        | some r => rfl
        | none =>
          simp only at h ⊢
          rw [ih st1 q h]
    · simp [ha]

theorem iterations_append (cfg : Cfg) (extra : Nat → Option Int) (clock : Nat → Int) :
    ∀ p st q, (run cfg extra clock st p).2.2 ≠ .exhausted →
      iterations cfg extra clock st (p ++ q) = iterations cfg extra clock st p := by
  intro p
  induction p with
  | nil =>
    intro st q h
    simp only [run] at h
    by_cases ha : st.active = true
    · simp [ha] at h
    · cases q <;> simp [iterations, ha]
  | cons b p ih =>
    intro st q h
    simp only [List.cons_append]
    unfold run at h
    unfold iterations
    by_cases ha : st.active = true
    · simp only [ha, if_true] at h ⊢
      cases hi : iter cfg extra clock st b with
      | mk st1 x =>
        obtain ⟨evs1, r1⟩ := x
        rw [hi] at h
        cases r1 with
        | some r => rfl
        | none =>
          simp only at h ⊢
          rw [ih st1 q h]
    · simp [ha]

theorem flatten_take_le (bs : List (List Dgram)) (n : Nat) :
    (bs.take n).flatten.length ≤ bs.flatten.length := by
  conv => rhs; rw [← List.take_append_drop n bs]
  rw [List.flatten_append, List.length_append]
  omega

theorem flatten_map_nil (k : Nat) (f : Nat → Nat) :
    ((List.range k).map (fun i => ([] : List Dgram))).flatten = [] := by
  induction k with
  | zero => rfl
  | succ n ih => simp [List.range_succ, List.map_append, ih]

/-! ### the send budget -/

theorem inv_send_bound {cfg : Cfg} {l : List Int} {P : Dgram → Prop} {s0 : Nat} {st : St} {H : List Ev}
    (h : SInv cfg l P s0 st H) : (sendKeys H).length ≤ l.length * cfg.nTries := by
  apply pairs_bound _ _ _ h.keys_nodup
  intro p hp
  obtain ⟨c, k⟩ := p
  obtain ⟨s, t, hm⟩ := mem_sendKeys.mp hp
  have := h.send_ok _ _ _ _ hm
  have := h.next_le
  exact ⟨by simp only; omega, by simp only; omega, by simp only; omega⟩

/-! ### termination, strict form of (b) -/

/-- Core of `terminates_under_progress`: from any state satisfying the invariant, if every
iteration that receives no datagram ends with a clock reading strictly later than an outstanding
deadline, the run needs at most (remaining send budget) + (datagrams) + 1 batches. -/
theorem run_terminates {cfg : Cfg} {l : List Int} {s0 : Nat} {clock : Nat → Int} (wf : WF cfg) :
    ∀ bs st H, SInv cfg l (fun _ => True) s0 st H →
      alongRun cfg (ext l) clock (timedOut cfg (ext l) clock) st bs = true →
      (l.length * cfg.nTries - (sendKeys H).length) + bs.flatten.length + 1 ≤ bs.length →
      (run cfg (ext l) clock st bs).2.2 ≠ .exhausted := by
  intro bs
  induction bs with
  | nil => intro st H _ _ hlen; simp at hlen
  | cons b bs ih =>
    intro st H hI hsel hlen
    unfold run
    by_cases ha : st.active = true
    · simp only [ha, if_true]
      unfold alongRun at hsel
      simp only [ha, if_true, Bool.and_eq_true, Bool.or_eq_true, Bool.not_eq_true'] at hsel
      cases hi : iter cfg (ext l) clock st b with
      | mk st1 x =>
        obtain ⟨evs1, r1⟩ := x
        have hinv := iter_inv wf (P := fun _ => True) (fun _ _ => trivial) hI hi
        cases r1 with
        | some r =>
          simp only
          intro he; subst he
          exact hinv.2.2.2.2 rfl
        | none =>
          simp only
          have hsel2 := hsel.2
          rw [hi] at hsel2
          simp only at hsel2
          by_cases ha1 : st1.active = true
          · have hb1 := inv_send_bound hinv.1
            rw [sendKeys_append] at hb1
            simp only [List.length_append] at hb1
            refine ih st1 (H ++ evs1) hinv.1 hsel2 ?_
            rw [sendKeys_append]
            simp only [List.length_append, List.flatten_cons, List.length_cons] at hlen ⊢
            by_cases hbe : b = []
            · subst hbe
              have hto : timedOut cfg (ext l) clock st = true := by
                rcases hsel.1 with h | h
                · simp at h
                · exact h
              obtain ⟨e1, e2, e3⟩ := iter_empty cfg (ext l) clock st
              rw [hi] at e1 e2 e3
              simp only at e1 e2 e3
              by_cases hoe : (afterFill cfg (ext l) clock st).outs = []
              · have := iter_empty_drained wf (ext l) clock st hI.win hoe
                rw [hi] at this
                simp only at this
                rw [this] at ha1
                cases ha1
              · have hne : (afterFill cfg (ext l) clock st).outs.isEmpty = false := by
                  simpa [List.isEmpty_iff] using hoe
                unfold timedOut at hto
                simp only [hne, Bool.false_or, List.any_eq_true, decide_eq_true_eq] at hto
                simp only [hne, Bool.false_eq_true, if_false] at e2 e3
                have hp := retrans_progress cfg.nTries (clock ((afterFill cfg (ext l) clock st).k + 1))
                  (afterFill cfg (ext l) clock st).outs hto
                have hnone := e3.mp trivial
                rw [hnone] at hp
                simp only [Option.isSome_none, Bool.false_eq_true, false_or] at hp
                rw [e2, List.length_append]
                simp only [List.length_nil, Nat.zero_add] at hlen
                rw [e2, List.length_append] at hb1
                omega
            · have : 1 ≤ b.length := by
                cases b with
                | nil => exact absurd rfl hbe
                | cons d ds => simp
              omega
          · have ha1' : st1.active = false := by simpa using ha1
            rw [run_inactive _ _ _ _ ha1']
            simp
    · simp [ha]

/-! ### termination, realistic form of (b): needs the monotone clock -/

/-- some outstanding packet's deadline is not later than any future clock reading -/
def Due (clock : Nat → Int) (st : St) : Prop :=
  ∃ p ∈ st.outs, ∀ j, st.k ≤ j → p.2.deadline ≤ clock j

theorem mono_le {clock : Nat → Int} (hm : ∀ k, clock k ≤ clock (k + 1)) :
    ∀ i j, i ≤ j → clock i ≤ clock j := by
  intro i j hij
  induction j with
  | zero => have : i = 0 := by omega
            subst this; exact Int.le_refl _
  | succ n ih =>
    by_cases h : i = n + 1
    · subst h; exact Int.le_refl _
    · exact Int.le_trans (ih (by omega)) (hm n)

theorem run_terminates_weak {cfg : Cfg} {l : List Int} {s0 : Nat} {clock : Nat → Int} (wf : WF cfg)
    (hm : ∀ k, clock k ≤ clock (k + 1)) :
    ∀ bs st H, SInv cfg l (fun _ => True) s0 st H →
      alongRun cfg (ext l) clock (timedOutWeak cfg (ext l) clock) st bs = true →
      (2 * (l.length * cfg.nTries - (sendKeys H).length) + 2 * bs.flatten.length + 2 ≤ bs.length ∨
       (Due clock st ∧
        2 * (l.length * cfg.nTries - (sendKeys H).length) + 2 * bs.flatten.length + 1 ≤ bs.length)) →
      (run cfg (ext l) clock st bs).2.2 ≠ .exhausted := by
  intro bs
  induction bs with
  | nil => intro st H _ _ hlen; simp at hlen
  | cons b bs ih =>
    intro st H hI hsel hlen
    unfold run
    by_cases ha : st.active = true
    · simp only [ha, if_true]
      unfold alongRun at hsel
      simp only [ha, if_true, Bool.and_eq_true, Bool.or_eq_true, Bool.not_eq_true'] at hsel
      cases hi : iter cfg (ext l) clock st b with
      | mk st1 x =>
        obtain ⟨evs1, r1⟩ := x
        have hinv := iter_inv wf (P := fun _ => True) (fun _ _ => trivial) hI hi
        cases r1 with
        | some r =>
          simp only
          intro he; subst he
          exact hinv.2.2.2.2 rfl
        | none =>
          simp only
          have hsel2 := hsel.2
          rw [hi] at hsel2
          simp only at hsel2
          by_cases ha1 : st1.active = true
          · have hb1 := inv_send_bound hinv.1
            rw [sendKeys_append] at hb1
            simp only [List.length_append] at hb1
            refine ih st1 (H ++ evs1) hinv.1 hsel2 ?_
            rw [sendKeys_append]
            simp only [List.length_append, List.flatten_cons, List.length_cons] at hlen ⊢
            by_cases hbe : b = []
            · subst hbe
              have hto : timedOutWeak cfg (ext l) clock st = true := by
                rcases hsel.1 with h | h
                · simp at h
                · exact h
              obtain ⟨e1, e2, e3⟩ := iter_empty cfg (ext l) clock st
              rw [hi] at e1 e2 e3
              simp only at e1 e2 e3
              by_cases hoe : (afterFill cfg (ext l) clock st).outs = []
              · have := iter_empty_drained wf (ext l) clock st hI.win hoe
                rw [hi] at this
                simp only at this
                rw [this] at ha1
                cases ha1
              · have hne : (afterFill cfg (ext l) clock st).outs.isEmpty = false := by
                  simpa [List.isEmpty_iff] using hoe
                unfold timedOutWeak at hto
                simp only [hne, Bool.false_or, Bool.and_eq_true, List.any_eq_true, decide_eq_true_eq] at hto
                simp only [hne, Bool.false_eq_true, if_false] at e1 e2 e3
                obtain ⟨⟨p, hp, hdl⟩, hstrict⟩ := hto
                have hnone := e3.mp trivial
                simp only [List.length_nil, Nat.zero_add, Nat.mul_zero, Nat.add_zero] at hlen
                rw [e2, List.length_append] at hb1 ⊢
                obtain ⟨new, hs1, hs2, hs3, hs4⟩ := fill_shape cfg (ext l) clock (cfg.window + 1) st
                -- did the scan retransmit anything?
                by_cases hprog : 1 ≤ (sendKeys (retrans cfg.nTries
                    (clock ((afterFill cfg (ext l) clock st).k + 1)) (afterFill cfg (ext l) clock st).outs).2.1).length
                · left; omega
                · -- no: then either the state was already due (impossible) or it is now
                  have hidle := retrans_idle cfg.nTries (clock ((afterFill cfg (ext l) clock st).k + 1))
                    (afterFill cfg (ext l) clock st).outs hnone
                    (List.eq_nil_of_length_eq_zero (by omega))
                  rcases hlen with hlen | ⟨hdue, hlen⟩
                  · right
                    refine ⟨?_, by omega⟩
                    refine ⟨p, ?_, ?_⟩
                    · rw [e1]; simp only; rw [hidle]; exact hp
                    · intro j hj
                      rw [e1] at hj
                      simp only at hj
                      exact Int.le_trans hdl (mono_le hm _ _ (by omega))
                  · exfalso
                    obtain ⟨q, hq, hqd⟩ := hdue
                    have hq1 : q ∈ (afterFill cfg (ext l) clock st).outs := by
                      unfold afterFill; rw [hs1]; exact List.mem_append_left _ hq
                    have h1 := hqd (afterFill cfg (ext l) clock st).k (by unfold afterFill; exact hs3)
                    have := retrans_progress cfg.nTries (clock ((afterFill cfg (ext l) clock st).k + 1))
                      (afterFill cfg (ext l) clock st).outs ⟨q, hq1, by omega⟩
                    rw [hnone] at this
                    simp only [Option.isSome_none, Bool.false_eq_true, false_or] at this
                    exact hprog this
            · have : 1 ≤ b.length := by
                cases b with
                | nil => exact absurd rfl hbe
                | cons d ds => simp
              left
              rcases hlen with hlen | ⟨_, hlen⟩ <;> omega
          · have ha1' : st1.active = false := by simpa using ha1
            rw [run_inactive _ _ _ _ ha1']
            simp
    · simp [ha]

/-! ### environments as streams of batches -/

/-- the first `n` batches of an environment given as a stream -/
def firstBatches (env : Nat → List Dgram) (n : Nat) : List (List Dgram) := (List.range n).map env

theorem firstBatches_length (env : Nat → List Dgram) (n : Nat) : (firstBatches env n).length = n := by
  simp [firstBatches]

theorem firstBatches_add (env : Nat → List Dgram) (n k : Nat) :
    firstBatches env (n + k) = firstBatches env n ++ (List.range k).map (fun i => env (n + i)) := by
  simp [firstBatches, List.range_add, List.map_append, List.map_map, Function.comp_def]

theorem firstBatches_succ (env : Nat → List Dgram) (n : Nat) :
    firstBatches env (n + 1) = firstBatches env n ++ [env n] := by
  simp [firstBatches, List.range_succ]

/-- a finite script, continued by empty batches for ever -/
def scriptEnv (batches : List (List Dgram)) : Nat → List Dgram := fun i => batches.getD i []

theorem firstBatches_script (batches : List (List Dgram)) (n : Nat) :
    firstBatches (scriptEnv batches) n = batches.take n ++ List.replicate (n - batches.length) [] := by
  induction n with
  | zero => simp [firstBatches]
  | succ n ih =>
    rw [firstBatches_succ, ih]
    by_cases h : n < batches.length
    · have e1 : n - batches.length = 0 := by omega
      have e2 : n + 1 - batches.length = 0 := by omega
      rw [e1, e2, List.take_add_one]
      simp [scriptEnv, List.getD_eq_getElem?_getD, List.getElem?_eq_getElem h]
    · have e1 : n + 1 - batches.length = (n - batches.length) + 1 := by omega
      have e3 : scriptEnv batches n = [] := by
        simp [scriptEnv, List.getD_eq_getElem?_getD, List.getElem?_eq_none (by omega : batches.length ≤ n)]
      rw [e1, e3, List.take_of_length_le (by omega), List.take_of_length_le (by omega), List.replicate_succ',
        List.append_assoc]

theorem flatten_replicate_nil (k : Nat) : (List.replicate k ([] : List Dgram)).flatten = [] := by
  induction k with
  | zero => rfl
  | succ n ih => simp [List.replicate_succ, ih]

/-- a finite script on which the run ends, continued by empty batches, satisfies (b) and (c) -/
theorem script_progress (cfg : Cfg) (extra : Nat → Option Int) (clock : Nat → Int) (Q : St → Bool) (st : St)
    (batches : List (List Dgram))
    (hsel : alongRun cfg extra clock Q st batches = true)
    (hend : (run cfg extra clock st batches).2.2 ≠ .exhausted) (n : Nat) :
    alongRun cfg extra clock Q st (firstBatches (scriptEnv batches) n) = true ∧
    (firstBatches (scriptEnv batches) n).flatten.length ≤ batches.flatten.length := by
  rw [firstBatches_script]
  by_cases h : n ≤ batches.length
  · have e : n - batches.length = 0 := by omega
    rw [e]
    simp only [List.replicate_zero, List.append_nil]
    refine ⟨?_, flatten_take_le _ _⟩
    apply alongRun_prefix _ _ _ _ _ _ (batches.drop n)
    rw [List.take_append_drop]; exact hsel
  · rw [List.take_of_length_le (by omega), alongRun_append _ _ _ _ _ _ _ hend, List.flatten_append,
      flatten_replicate_nil]
    exact ⟨hsel, by simp⟩

end Rig.C06
